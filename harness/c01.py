"""C01 — rendering implements the documented Liquid semantics.

Tie: programs of the Core Liquid Fragment (harness/clf.py) are printed to
Liquid source (random layout), rendered by /repo's engine and by the Coq
interpreter Core/Render.v on the same data; output text or error class must be
equal.  Oracle (failing-input search): the reference semantics Core/Spec.v
(`denote`) evaluated in Coq against the implementation's output, plus
layout-independence and a few direct semantic laws checked on the
implementation alone.
"""

from __future__ import annotations

import asyncio
from typing import Any

from . import clf
from . import common as C

IMPORTS = "From LQ Require Kernels.Trim.\nFrom LQ Require Import Core.Value Core.Syntax Core.Render."
NEEDED = ["theories/Kernels/Trim.v", "theories/Core/Value.v", "theories/Core/Syntax.v", "theories/Core/Render.v",
          "theories/Proofs/Value_proofs.v", "theories/Proofs/Render_proofs.v", "theories/Proofs/Render_buffer.v", "theories/Proofs/Render_fuel.v",
          "theories/Proofs/Render_control.v", "theories/Proofs/Render_counters.v", "theories/Proofs/Render_lambda.v", "theories/Proofs/Value_decimal.v"]

LCLASSES = {
    "LiquidSyntaxError", "LiquidTypeError", "LiquidNameError", "LiquidValueError", "UndefinedError",
    "TemplateNotFoundError", "TemplateInheritanceError", "RequiredBlockError", "DisabledTagError",
    "TranslationSyntaxError", "ResourceLimitError", "ContextDepthError", "LoopIterationLimitError",
    "OutputStreamLimitError", "LocalNamespaceLimitError", "UnknownFilterError", "LiquidIndexError",
}


def run_impl(src: str, loader: dict[str, str], data: dict[str, Any], suppress: bool,
             *, use_async: bool = False, trim: str = "+", shorthand: bool = False) -> tuple:
    from liquid2 import DictLoader, Environment
    from liquid2.exceptions import LiquidError
    from liquid2.token import WhitespaceControl

    class Env(Environment):
        suppress_blank_control_flow_blocks = suppress
        shorthand_indexes = shorthand

    wc = {"+": WhitespaceControl.PLUS, "-": WhitespaceControl.MINUS, "~": WhitespaceControl.TILDE}[trim]
    env = Env(loader=DictLoader(loader), default_trim=wc)
    try:
        t = env.from_string(src, name="main")
        if use_async:
            return ("T", asyncio.run(t.render_async(**data)))
        return ("T", t.render(**data))
    except LiquidError as e:
        n = type(e).__name__
        return ("E", n if n in LCLASSES else "OtherLiquidError")
    except RecursionError:
        return ("P", "RecursionError")
    except Exception as e:  # noqa: BLE001
        return ("P", type(e).__name__)


def c_outcome(o: tuple) -> str:
    if o[0] == "T":
        return f"(OText {C.cstr(o[1])})"
    if o[0] == "E":
        return f"(OErr {o[1]})"
    return "OFuel"   # a Python exception never agrees with the model (C02 decides those)


def model_term(prog: dict[str, Any], data: dict[str, Any], suppress: bool, which: str = "render_template",
               trim: str = "+", sides: dict[str, list] | None = None) -> str:
    prog = clf.model_ast(prog, trim, sides)
    cfg = f"{{| suppress := {C.cbool(suppress)}; depth_limit := 30%Z |}}"
    return (f"outcome_of ({which} {cfg} {clf.c_loader(prog['loader'])} 400%nat "
            f"{clf.c_block(prog['main'])} [{clf.c_ns(data)}] {C.cstr('main')})")


# Witnesses of the defects repaired in /repo (known_findings.json, status fixed):
# a fixed entry suppresses nothing, the violation is reported again if it returns.
FIXED_WITNESSES = [
    ("case-else-after-silent-when", "{% case x %}{% when 1 %}{% assign y = 1 %}{% else %}E{% endcase %}|{{ y }}", {}, {"x": 1}, "|1"),
    ("liquid-comment-indented", "{% liquid\ncomment\n\tc x\n\tendcomment\n echo 'a'\n%}", {}, {}, "a"),
    ("liquid-comment-indented", "{% liquid\n  comment\n  hello\n    comment\n   nested\n  endcomment\n  endcomment\n echo 'a'\n%}", {}, {}, "a"),
    ("cycle-template-string-identity", "{% cycle \"a${x}\", 'B' %}|{% cycle \"a${x}\", 'B' %}", {}, {"x": 1}, "a1|B"),
    ("cycle-template-string-identity", "{% include 'p' %}|{% include 'p' %}", {"p": "{% cycle \"${x}\", 'B' %}"}, {"x": 1}, "1|B"),
    # first on any Mapping (d21fa41): a forloop's first pair, nil for an undefined value (an empty Mapping)
    ("first-on-any-mapping", "{% for i in (1..2) %}{{ forloop | first | join: ':' }};{% endfor %}{% assign a = nosuch | first %}[{{ a | json }}]", {}, {}, "first:true;first:false;[null]"),
    # cycle groups are told apart by the text of their items, not by a hash (C12/0020)
    ("cycle-key-is-item-text", "{% cycle -1, 5 %}{% cycle -2, 5 %}|{% cycle 1, 'x' %}{% cycle 1.0, 'x' %}{% cycle true, 'x' %}", {}, {}, "-1-2|11.0true"),
]


# recorded, not repaired: (signature, source, data, what the documented semantics give)
KNOWN_WITNESSES = [
    # membership in an array uses Python's ==, for which 1 == True and 0 == False, while Liquid's
    # == (and case/when, where) keeps numbers and booleans apart
    ("contains-uses-python-equality",
     "{% if xs contains true %}T{% endif %}{% if true in xs %}T{% endif %}{% if zs contains false %}F{% endif %}|{% if 1 == true %}E{% endif %}",
     {"xs": [1, 2], "zs": [0]}, "|"),
]


def blank_family() -> list[list[tuple]]:
    """Every block tag as a wrapper around every multi-branch construct whose branches are
    blank or printing in every combination, with conditions that select each branch: the
    static blank flag of a construct must account for ALL its branches (complete, not sampled)."""
    T, F = ("lit", True), ("lit", False)
    empty, two = ("range", ("lit", 1), ("lit", 0)), ("range", ("lit", 1), ("lit", 2))
    blanks = [[("content", " ")], [("assign", "t", ("lit", 1))]]
    prints = [[("content", "x")]]

    def wrappers(inner: tuple) -> list[tuple]:
        body = [("content", " "), inner, ("content", "\n")]
        return [("if", T, body, [], None), ("unless", F, body, [], None), ("case", ("lit", 1), [([("lit", 1)], body)], None),
                ("with", [("w", ("lit", 1))], body), ("for", "j", ("range", ("lit", 1), ("lit", 1)), None, None, False, body, None),
                ("if", F, [("content", " ")], [], body), ("if", F, [("content", " ")], [(T, body)], None), ("liquid", [inner])]

    progs: list[list[tuple]] = []
    for b1 in blanks + prints:
        for b2 in blanks + prints:
            inners = [
                ("for", "i", empty, None, None, False, b1, b2), ("for", "i", two, None, None, False, b1, b2),
                ("if", T, b1, [], b2), ("if", F, b1, [], b2), ("unless", T, b1, [], b2), ("unless", F, b1, [], b2),
                ("if", F, b1, [(T, b2)], b1), ("if", F, b1, [(F, b1)], b2),
                ("unless", T, b1, [(T, b2)], b1), ("unless", T, b1, [(F, b1)], b2),
                ("case", ("lit", 1), [([("lit", 1)], b1)], b2), ("case", ("lit", 2), [([("lit", 1)], b1)], b2),
                ("case", ("lit", 2), [([("lit", 1)], b1), ([("lit", 2), ("lit", 3)], b2)], b1),
            ]
            for inner in inners:
                for w in wrappers(inner):
                    if w[0] == "liquid" and any(n[0] == "content" for blk in (b1, b2) for n in blk):
                        w = ("liquid", clf.to_lines_ast([inner]))
                    progs.append([("content", "["), w, ("content", "]")])
    # capture over a name that is already bound (local, with scope, loop variable): the name is
    # rebound to exactly the block's text, also when that text is empty or the block is blank
    out_t = [("content", "["), ("output", ("path", "t", [])), ("content", "]")]
    for body in [[], [("content", " ")], [("content", "x")], [("assign", "u", ("lit", 1))]]:
        cap = ("capture", "t", body)
        progs.append([("assign", "t", ("lit", "old")), cap] + out_t)
        progs.append([("assign", "t", ("lit", "old")), ("with", [("t", ("lit", "w"))], [cap] + out_t)] + out_t)
        progs.append([("capture", "t", [("content", "old")]), ("for", "t", two, None, None, False, [cap] + out_t, None)] + out_t)
        progs.append([("capture", "t", [("content", "old")]), ("if", T, [cap], [], None)] + out_t)
    return progs


def loop_family() -> list[list[tuple]]:
    """Sequences of loops over the same (variable, iterable): a first loop with every combination
    of limit / offset / offset: continue / reversed, then loops with offset: continue (complete):
    every loop records where it stopped, also a plain or reversed one.  And cycle groups that
    share a name, an item count or the items (complete for two-item / three-item groups)."""
    it = ("range", ("lit", 1), ("lit", 3))
    body, els = [("output", ("path", "x", []))], [("content", "none")]
    progs: list[list[tuple]] = []
    for lim in (None, ("lit", 1), ("lit", 2)):
        for off in (None, ("lit", 1), "continue"):
            for rv in (False, True):
                for lim2 in (None, ("lit", 1)):
                    for rv2 in (False, True):
                        progs.append([("for", "x", it, lim, off, rv, body, els), ("content", "|"),
                                      ("for", "x", it, lim2, "continue", rv2, body, els), ("content", "|"),
                                      ("for", "x", it, None, "continue", False, body, els)])
    A, X = [("lit", "a"), ("lit", "b")], [("lit", "x"), ("lit", "y")]
    A3 = A + [("lit", "c")]
    two = ("range", ("lit", 1), ("lit", 2))
    for g1, i1, g2, i2 in [("g", A, "g", X), ("g", A, "h", A), (None, A, None, X), ("g", A, "g", A3), ("g", A, None, A), ("g", A, "g", A),
                           (None, A, None, A), ("g", X, "g", A), ("g", A3, "g", [("lit", "x"), ("lit", "y"), ("lit", "z")])]:
        c1, c2 = ("cycle", g1, i1), ("cycle", g2, i2)
        progs.append([c1, c2, c1, c2, c1])
        progs.append([("for", "i", two, None, None, False, [c1, ("for", "j", two, None, None, False, [c2], None), ("content", " ")], None)])
        progs.append([("for", "i", two, None, None, False, [c1, c2, ("content", " ")], None), c2, c1])
    return progs


def ternary_family() -> list[list[tuple]]:
    """Inline conditions `a if c [else b] [|| tail filters]` in every position that takes a
    filtered expression x condition true / false / undefined / a truthy variable x with and
    without else x tail filters none / default / append / size / two of them (complete, not
    sampled): tail filters apply to whichever branch was taken, also to the nil of a false
    condition without else."""
    T, F = ("lit", True), ("lit", False)
    conds = [T, F, ("path", "nope", []), ("path", "y", []), ("not", ("path", "y", []))]
    tails = [[], [("default", [("lit", "x")])], [("append", [("lit", "z")])], [("size", [])],
             [("default", [("lit", "x")]), ("upcase", [])]]
    progs: list[list[tuple]] = []
    k = 0
    for cond in conds:
        for alt in (None, ("lit", "e"), ("filter", ("path", "nope", []), "default", [("lit", "d")])):
            for tl in tails:
                for pos in ("output", "echo", "assign", "liquid"):
                    k += 1
                    left: tuple = ("lit", "a") if k % 3 else ("path", "y", [])
                    if k % 2:
                        left = ("filter", left, "append", [("lit", "b")])
                    e: tuple = ("tern", cond, left, alt)
                    for name, args in tl:
                        e = ("filter", e, name, args)
                    if pos == "assign":
                        use = [("assign", "q", e), ("output", ("path", "q", []))]
                    elif pos == "liquid":
                        use = [("liquid", clf.to_lines_ast([("echo", e)]))]
                    else:
                        use = [(pos, e)]
                    progs.append([("assign", "y", ("lit", 1)), ("content", "[")] + use + [("content", "]")])
    return progs


def features(n: Any, acc: set[str]) -> None:
    if isinstance(n, tuple) and n and isinstance(n[0], str):
        acc.add(n[0] if n[0] != "filter" else "filter:" + n[2])
        if n[0] == "cmp":
            acc.add("cmp:" + n[1])
        for x in n[1:]:
            features(x, acc)
    elif isinstance(n, (list, tuple)):
        for x in n:
            features(x, acc)
    elif isinstance(n, dict):
        for x in n.values():
            features(x, acc)


def main(chk: C.Check, build: C.Build) -> None:
    proofs_ok = C.proof_stage(chk, build, NEEDED)
    thorough = chk.tier == "thorough"
    r = C.rng("c01")
    nprog = 450 if not thorough else 6000
    items: list[dict[str, Any]] = []
    dist: dict[str, int] = {"text": 0, "error": 0, "pyexc": 0}
    feats: dict[str, int] = {}
    nontrivial = set()
    evaluations = 0
    samples = []
    cfgs: dict[tuple, int] = {}
    nmarked = 0
    pyexc: list[dict[str, Any]] = []
    # the complete blank-flag family, with suppression on and off, and the complete family of
    # inline conditions with tail filters
    family = [(p, sup) for p in blank_family() for sup in (True, False)] + [(p, True) for p in ternary_family()] + [(p, True) for p in loop_family()]
    for pi in range(nprog + len(family)):
        if pi >= nprog:
            prog = clf.canon({"main": family[pi - nprog][0], "loader": {}})
            suppress, trim, shorthand = family[pi - nprog][1], "+", False
        else:
            prog = clf.canon(clf.gen_program(r, depth=3 if not thorough else r.choice([3, 4])))
            suppress = r.random() < 0.7
            trim = r.choice(["+", "+", "-", "~"])
            shorthand = r.random() < 0.3
        layout_r = C.rng("c01-layout", pi)
        # explicit whitespace-control markers (-, ~, +) at every markup position of
        # 60% of the programs; the same markers in both layouts
        marked = r.random() < 0.6 and pi < nprog
        clf.SHORTHAND = shorthand
        try:
            src, sd = clf.p_source(prog["main"], layout_r, C.rng("c01-markers", pi) if marked else None)
            src_plain, sd2 = clf.p_source(prog["main"], None, C.rng("c01-markers", pi) if marked else None)
            assert sd == sd2
            sides = {"main": sd}
            loader_src = {}
            for k, v in prog["loader"].items():
                loader_src[k], sides[k] = clf.p_source(v, None, C.rng("c01-markers", pi, k) if marked else None)
        finally:
            clf.SHORTHAND = False
        nmarked += marked
        cfgs[(trim, suppress, shorthand)] = cfgs.get((trim, suppress, shorthand), 0) + 1
        fs: set[str] = set()
        features(prog, fs)
        for _ in range(2 if pi < nprog else 1):
            data = clf.gen_data(r) if pi < nprog else {}
            o = run_impl(src, loader_src, data, suppress, trim=trim, shorthand=shorthand)
            evaluations += 1
            dist["text" if o[0] == "T" else "error" if o[0] == "E" else "pyexc"] += 1
            if o[0] == "P" and len(pyexc) < 5:
                pyexc.append({"source": src, "loader": loader_src, "data": data, "exception": o[1]})
            # layout independence (direct oracle on the implementation)
            o2 = run_impl(src_plain, loader_src, data, suppress, trim=trim, shorthand=shorthand)
            if o2 != o:
                chk.finding("oracle:layout-dependence", "output depends on whitespace inside markup",
                            {"source_a": src, "source_b": src_plain, "loader": loader_src, "data": data,
                             "suppress": suppress, "default_trim": trim, "shorthand_indexes": shorthand, "a": o, "b": o2})
            if o[0] == "T" and len(o[1]) > 0 and len(fs) >= 4:
                nontrivial.add(src_plain + repr(sorted(data.items(), key=lambda kv: kv[0])))
            mt = model_term(prog, data, suppress, trim=trim, sides=sides)
            replay = {"source": src, "loader": loader_src, "data": data, "suppress": suppress,
                      "default_trim": trim, "shorthand_indexes": shorthand,
                      "implementation": o, "how": "Environment subclass with suppress_blank_control_flow_blocks / shorthand_indexes, default_trim, loader=DictLoader(loader): from_string(source).render(**data)"}
            items.append({"case": f"(let o := {mt} in (outcome_agrees o {c_outcome(o)}, match o with OUnmodelled => true | _ => false end))",
                          "model": mt, "replay": replay})
            if len(samples) < 3 and o[0] == "T" and o[1].strip():
                samples.append({"source": src, "data": data, "suppress": suppress, "default_trim": trim, "output": o[1]})
        for f in fs:
            feats[f] = feats.get(f, 0) + 1

    for sig, wsrc, wld, wdata, want in FIXED_WITNESSES:
        got = run_impl(wsrc, wld, wdata, True)
        evaluations += 1
        if got != ("T", want):
            chk.finding("fixed-witness:" + sig, f"a repaired defect is back: {wsrc!r} gave {got}, the documented semantics give {want!r}",
                        {"source": wsrc, "loader": wld, "data": wdata, "suppress": True, "default_trim": "+", "implementation": got, "expected": want})

    for sig, wsrc, wdata, want in KNOWN_WITNESSES:
        got = run_impl(wsrc, {}, wdata, True)
        evaluations += 1
        if got != ("T", want):
            chk.finding(sig, f"{wsrc!r} with {wdata!r} gave {got}, the documented semantics give {want!r}: an array that holds 1 'contains' true "
                             "(membership is Python's ==) although 1 == true is false in Liquid",
                        {"source": wsrc, "data": wdata, "implementation": got, "expected": want})

    # For C01 the Coq interpreter IS the formalised reference semantics (its
    # theorems state the documented laws), so a disagreement is a concrete
    # failing input: the implementation does not render what the semantics
    # prescribes.
    rc = C.run_cases("c01", IMPORTS, "", [it["case"] for it in items], flagged=True)
    for e in rc["errors"]:
        chk.notes.append("coq case error: " + e[:300])
    if rc["bad"]:
        outs = C.eval_terms("c01", IMPORTS, "", [items[i]["model"] for i in rc["bad"][:5]])
        for i, out in zip(rc["bad"][:5], outs):
            rp = dict(items[i]["replay"])
            rp["reference_semantics"] = out
            impl = rp["implementation"]
            sig = "oracle:python-exception:" + impl[1] if impl[0] == "P" else "oracle:semantics-mismatch"
            chk.finding(sig, "implementation output differs from the reference semantics (Core/Render.v)", rp)
    if rc["errors"] and not chk.violations:
        chk.finding("correspondence:build", "generated case files did not evaluate",
                    {"errors": rc["errors"][:3], "broken": "correspondence harness/c01.py (coqc on generated cases)"},
                    no_input=True)
    chk.coverage["model_cases"] = rc["n"]
    chk.coverage["model_disagreements"] = len(rc["bad"])
    chk.coverage["outside_model_cases"] = len(rc["flag"])
    C.proofs_verdict(chk, proofs_ok)

    chk.coverage.update({
        "evaluations": evaluations,
        "distinct_nontrivial": len(nontrivial),
        "rule": ("CLF programs (content, output, echo, assign, capture, if/elsif/else, unless, case/when, for with "
                 "limit/offset/continue/reversed/else/break/continue, increment/decrement, cycle, raw, comment, with, "
                 "render (with/for/as/args), include (with/as/args), macro/call; paths, ranges, comparisons, and/or/not, "
                 "12 filters, ternaries) with up to 3 partials, nesting <= 3 (4 in thorough), printed with a random "
                 "layout and, for 60% of the programs, a random whitespace-control marker (none, -, ~, +) on each side of every tag, output, comment and raw tag, each rendered with 2 generated data sets x suppress_blank_control_flow_blocks in {on,off} x "
                 "default_trim in {+,-,~} x shorthand_indexes in {on,off}; plus two complete (not sampled) families in every run: "
                 "the blank-flag family (8 wrappers x 11 multi-branch constructs x blank/printing branches, suppression on and off) and the "
                 "inline-condition family (a if c [else b] [|| tail filters]: 5 conditions x 3 alternatives x 5 tail-filter lists x 4 positions); "
                 "case blocks with no when and ternaries with tail filters are also generated at random; "
                 "non-trivial = distinct (program, data) whose render succeeded with non-empty output and whose program uses >= 4 "
                 "different constructs"),
        "samples": samples,
        "distribution": dist,
        "construct_frequency": dict(sorted(feats.items())),
        "configurations": {repr(k): v for k, v in sorted(cfgs.items())},
        "programs_with_explicit_markers": nmarked,
        "python_exceptions_seen": pyexc,
        "exhaustive": False,
        "tier_proved": "Core interpreter (CLF) refines the reference semantics; value-semantics laws",
    })
    chk.assumptions += [
        "whitespace control: each text reaches the model as Trim.trim (the C18 kernel, Kernels/Trim.v) of the source text under the markers of the markup facing it on either side (adjacency in the token stream: theorem c18_carry_is_adjacent), default mode where there is no marker",
        "auto_escape off, default Undefined policy, no resource limits except context depth",
        "cases whose model outcome is OUnmodelled (filter coercions of numeric strings, dict stringification, "
        "ForLoop objects used as data, negative limit/offset) are counted in outside_model_cases and not compared",
    ]
