"""C06 — configured resource limits are hard bounds.

Tie (correspondence, step by step, against Kernels/Buffer.v and Kernels/Limits.v):
  A1  LimitedStringIO.write on sequences of chunks, limits at every boundary
  A2  Template._get_buffer / RenderContext.get_output_buffer / NullIO driven by
      operation sequences Write | OpenChild | OpenNull | Close | CloseWrite
  A3  RenderContext.loop / carry_loop / extend / copy / assign /
      raise_for_loop_limit driven by operation sequences
  B   operation sequences DERIVED from real renders (a RenderContext subclass
      and buffer subclasses installed from outside) of generated programs.
Direct oracle (the property itself, on the implementation): the inequalities,
"unrestricted output over the limit always fails", "same output when the limit
is not exceeded", cyclic graphs end in ContextDepthError /
TemplateInheritanceError.
"""

from __future__ import annotations

import asyncio
import sys
import warnings
from typing import Any

from . import common as C

IMP_BUF = "From LQ Require Import Kernels.Buffer."
IMP_LIM = "From LQ Require Import Kernels.Limits."
NEEDED = ["theories/Base/Str.v", "theories/Kernels/Buffer.v", "theories/Kernels/Limits.v",
          "theories/Proofs/Buffer_proofs.v", "theories/Proofs/Limits_proofs.v"]

LCLASS = {"OutputStreamLimitError", "ContextDepthError", "LoopIterationLimitError",
          "LocalNamespaceLimitError", "TemplateNotFoundError", "TemplateInheritanceError",
          "DisabledTagError", "LiquidSyntaxError", "LiquidTypeError", "LiquidValueError",
          "UndefinedError", "RequiredBlockError"}
PYKIND = {"UnicodeEncodeError": "UnicodeError", "IndexError": "IndexError",
          "RecursionError": "RecursionError", "TypeError": "TypeError",
          "ValueError": "ValueError", "KeyError": "KeyError", "AttributeError": "AttributeError"}
LIMIT_ERRORS = {"OutputStreamLimitError", "ContextDepthError", "LoopIterationLimitError",
                "LocalNamespaceLimitError"}


def c_outcome(name: str) -> str:
    if name == "ok":
        return "(Ok tt)"
    if name in LCLASS:
        return f"(LErr {name} None)"
    return f"(PyExc {PYKIND.get(name, 'OtherPyError')})"


def enc_len(s: str) -> int:
    return len(s.encode("utf-8", "surrogatepass"))


def make_env(*, shopify: bool = False, depth: int = 30, loop: int | None = None,
             ns: int | None = None, output: int | None = None, loader: Any = None) -> Any:
    from liquid2 import Environment
    from liquid2.shopify import Environment as ShopifyEnvironment

    base = ShopifyEnvironment if shopify else Environment

    class E(base):  # type: ignore[misc,valid-type]
        context_depth_limit = depth
        loop_iteration_limit = loop
        local_namespace_limit = ns
        output_stream_limit = output

    env = E(loader=loader)
    env.filters["tick"] = _tick
    env.filters["tock"] = _tock
    return env


TICKS: dict[int, int] = {}
TICK_LOG: list[tuple[str, int]] = []


def _tick(val: object) -> object:
    """First statement of every loop body: one more iteration of loop `val`."""
    try:
        k = int(val)  # type: ignore[call-overload]
    except Exception:  # noqa: BLE001
        k = -1
    TICKS[k] = TICKS.get(k, 0) + 1
    TICK_LOG.append(("i", k))
    return 0


def _tock(val: object) -> object:
    """First statement after every loop: loop `val` is over."""
    try:
        k = int(val)  # type: ignore[call-overload]
    except Exception:  # noqa: BLE001
        k = -1
    TICK_LOG.append(("e", k))
    return 0


def largest_nest(log: list[tuple[str, int]]) -> int:
    """The property's own notion of a nest, measured on a finished render and
    independent of the implementation's bookkeeping: rebuild the dynamic tree
    of loop executions from the iteration / end-of-loop marks and return the
    largest product of iteration counts along a path (the number of times the
    innermost body of some nest of loops ran inside ONE execution of its
    outermost loop). Loops that run one after the other are different nests."""
    best = 0
    stack: list[list[int]] = []      # [loop id, iterations so far, best product below]
    def close() -> None:
        nonlocal best
        k, n, below = stack.pop()
        prod = n * max(below, 1)
        if stack:
            stack[-1][2] = max(stack[-1][2], prod)
        else:
            best = max(best, prod)
    for kind, k in log:
        if kind == "i":
            while stack and stack[-1][0] != k and any(f[0] == k for f in stack):
                close()              # an inner loop ended without its mark (cannot happen without break)
            if stack and stack[-1][0] == k:
                stack[-1][1] += 1
            else:
                stack.append([k, 1, 0])
        else:
            if any(f[0] == k for f in stack):
                while stack[-1][0] != k:
                    close()
                close()
    while stack:
        close()
    return best


# ---------------------------------------------------------------- Coq printers


def c_buffer(b: tuple) -> str:
    if b[0] == "P":
        return f"(Plain {C.cstr(b[1])})"
    if b[0] == "N":
        return "Null"
    _, lim, sz, nl, text = b
    return f"(Limited {C.cZ(lim)} {sz} {nl} {C.cstr(text)})"


def c_bop(op: tuple) -> str:
    if op[0] == "W":
        return f"Write {C.cstr(op[1])}"
    if op[0] == "OC":
        return f"OpenChild {op[1]}%nat"
    return {"ON": "OpenNull", "C": "Close", "CW": "CloseWrite"}[op[0]]


def c_optN(x: int | None) -> str:
    return "None" if x is None else f"(Some {x})"


def c_frame(f: tuple) -> str:
    d, cy, nc, lp, sc, lc, sh = f
    lps = C.clist((str(x) for x in lp), "N")
    lcs = C.clist((C.cpair(C.cstr(k), str(v)) for k, v in lc), "(str * N)")
    return f"(mkframe {d} {cy} {nc} {lps} {sc} {lcs} {C.cbool(sh)})"


def c_lop(op: tuple) -> str:
    k = op[0]
    if k == "F":
        return f"EnterFor {op[1]}"
    if k == "K":
        return f"EnterCarry {op[1]}"
    if k == "E":
        return "Extend"
    if k == "C":
        return f"EnterCopy {C.cbool(op[1])} {C.cbool(op[2])}"
    if k == "X":
        return "Exit"
    if k == "A":
        return f"Assign {C.cstr(op[1])} {op[2]}"
    if k == "L":
        return f"CheckLoop {op[1]}"
    if k == "S":
        return f"EnterSuper {op[1]}%nat"
    raise ValueError(op)


def c_cfg(cfg: tuple) -> str:
    d, lp, ns = cfg
    return f"{{| depth_limit := {d}; loop_limit := {c_optN(lp)}; ns_limit := {c_optN(ns)} |}}"


# ---------------------------------------------------------------- A1: one buffer

CHUNKS = ["", "a", "é", "€", "\U0001f600", "\r", "\n", "\r\n", "a\rb", "\ud800", "ab\r\n"]


def run_writes(limit: int, nl_none: bool, chunks: list[str]) -> list[tuple]:
    from liquid2.output import LimitedStringIO

    b = LimitedStringIO(limit, newline=None) if nl_none else LimitedStringIO(limit)
    obs = []
    for s in chunks:
        try:
            b.write(s)
            o = "ok"
        except Exception as e:  # noqa: BLE001
            o = type(e).__name__
        obs.append((o, ("L", b.limit, b.size, "NlNone" if nl_none else "NlKeep", b.getvalue())))
    return obs


def writes_oracle(limit: int, nl_none: bool, chunks: list[str], obs: list[tuple]) -> str | None:
    total = 0
    failed = False
    for s, (o, b) in zip(chunks, obs):
        total += enc_len(s)
        if b[2] != total:
            return f"size {b[2]} after writing {total} bytes"
        if o not in ("ok", "OutputStreamLimitError"):
            return f"write raised {o}"
        should_fail = bool(s) and total > limit
        if (o != "ok") != should_fail:
            return f"write of {s!r} at {total} bytes under limit {limit}: {o}"
        failed = failed or o != "ok"
    if not failed and not nl_none:
        text = "".join(chunks)
        if obs and obs[-1][1][4] != text:
            return f"getvalue {obs[-1][1][4]!r} differs from what was written {text!r}"
        if total > limit and any(chunks):
            return f"{total} bytes accepted under limit {limit}"
    return None


def gen_writes(chk: C.Check) -> list[tuple[int, bool, list[str]]]:
    r = C.rng("c06", "writes")
    thorough = chk.tier == "thorough"
    seqs: list[list[str]] = [[c] for c in CHUNKS]
    pairs = [[a, b] for a in CHUNKS for b in CHUNKS]
    seqs += pairs if thorough else r.sample(pairs, 40)
    for _ in range(100 if thorough else 30):
        seqs.append([r.choice(CHUNKS) for _ in range(r.randint(3, 7))])
    out = []
    for seq in seqs:
        sums = set()
        acc = 0
        for s in seq:
            acc += enc_len(s)
            sums.add(acc)
        lims = set()
        for x in sums:
            lims |= {x - 1, x, x + 1}
        lims |= {acc - 2, acc + 2, 0}
        lims = sorted(x for x in lims if x >= 0)
        if not thorough and len(lims) > 5:
            lims = sorted(set(r.sample(lims, 3)) | {acc - 1 if acc else 0, acc})
        elif thorough and len(lims) > 8:
            lims = sorted(set(r.sample(lims, 6)) | {acc - 1 if acc else 0, acc})
        for lim in lims:
            for nl_none in (False, True):
                if nl_none and not thorough and r.random() < 0.5:
                    continue
                out.append((lim, nl_none, seq))
    return out


# ---------------------------------------------------------------- A2: buffer stack


def snap_buf(b: Any) -> tuple:
    from liquid2.output import LimitedStringIO, NullIO

    from io import StringIO

    if isinstance(b, LimitedStringIO):
        return ("L", b.limit, b.size, "NlKeep", StringIO.getvalue(b))
    if isinstance(b, NullIO):
        return ("N",)
    return ("P", StringIO.getvalue(b))


def run_bufops(limit: int | None, ops: list[tuple]) -> list[tuple]:
    from liquid2.context import RenderContext
    from liquid2.output import NullIO

    env = make_env(output=limit)
    t = env.from_string("")
    ctx = RenderContext(t)
    stack = [t._get_buffer()]
    obs = []
    for op in ops:
        o = "ok"
        try:
            if op[0] == "W":
                stack[-1].write(op[1])
            elif op[0] == "OC":
                stack.append(ctx.get_output_buffer(stack[-1 - op[1]]))
            elif op[0] == "ON":
                stack.append(NullIO())
            elif op[0] == "C":
                stack.pop().getvalue()
            elif op[0] == "CW":
                v = stack.pop().getvalue()
                stack[-1].write(v)
        except Exception as e:  # noqa: BLE001
            o = type(e).__name__
        obs.append((o, [snap_buf(b) for b in reversed(stack)]))
    return obs


def gen_bufops(chk: C.Check) -> list[tuple[int | None, list[tuple]]]:
    r = C.rng("c06", "bufops")
    thorough = chk.tier == "thorough"
    out: list[tuple[int | None, list[tuple]]] = []
    for _ in range(300 if thorough else 45):
        n = r.randint(3, 14)
        ops: list[tuple] = []
        depth = 1
        for _ in range(n):
            x = r.random()
            if x < 0.5:
                ops.append(("W", r.choice(CHUNKS[:9]) if r.random() < 0.8 else r.choice(CHUNKS)))
            elif x < 0.68:
                ops.append(("OC", 0 if r.random() < 0.7 else r.randrange(depth)))
                depth += 1
            elif x < 0.76:
                ops.append(("ON",))
                depth += 1
            elif depth > 1:
                ops.append(("CW",) if r.random() < 0.5 else ("C",))
                depth -= 1
            else:
                ops.append(("W", r.choice(CHUNKS[:9])))
        # consumption without a limit: largest (carry + size) a limited buffer would need
        big = 10 ** 6
        ob = run_bufops(big, ops)
        need = 0
        for _, st in ob:
            for b in st:
                if b[0] == "L":
                    need = max(need, big - b[1] + b[2])
        final = enc_len(ob[-1][1][-1][4]) if ob[-1][1][-1][0] == "L" else 0
        lims = {need + d for d in (-2, -1, 0, 1, 2)} | {final - 1, final, 0}
        lims_l: list[int | None] = sorted(x for x in lims if x >= 0)
        if not thorough:
            lims_l = sorted({x for x in (need - 1, need, final - 1) if x >= 0})
        for lim in lims_l + [None]:
            out.append((lim, ops))
    return out


def bufops_oracle(limit: int | None, ops: list[tuple], obs: list[tuple], unl: list[tuple]) -> str | None:
    """The property on the real objects: hard bound, carry, transparency."""
    if limit is None:
        return None
    first_fail = next((i for i, (o, _) in enumerate(obs) if o != "ok"), None)
    upto = len(obs) if first_fail is None else first_fail
    for i in range(upto):
        st = obs[i][1]
        for j, b in enumerate(st):
            if b[0] != "L":
                continue
            if b[2] > b[1]:
                return f"step {i}: buffer holds {b[2]} bytes, its limit is {b[1]}"
            if enc_len(b[4]) != b[2]:
                return f"step {i}: size {b[2]} but getvalue has {enc_len(b[4])} bytes"
            if b[2] + (limit - b[1]) > limit:
                return f"step {i}: child {b[2]} + carried {limit - b[1]} bytes > limit {limit}"
        # transparency: same texts as the unlimited run
        ust = unl[i][1]
        if [x[-1] if x[0] != "N" else "" for x in st] != [x[-1] if x[0] != "N" else "" for x in ust]:
            return f"step {i}: text differs from the unlimited run"
    if first_fail is not None and obs[first_fail][0] != "OutputStreamLimitError":
        return f"step {first_fail}: raised {obs[first_fail][0]}"
    if first_fail is None and unl:
        root = unl[-1][1][-1]
        if enc_len(root[1]) > limit:
            return f"unrestricted output has {enc_len(root[1])} bytes, accepted under limit {limit}"
    return None


# ---------------------------------------------------------------- A3: limits


def snap_ctx(ctx: Any) -> tuple:
    return (ctx._copy_depth, ctx.loop_iteration_carry, ctx.local_namespace_carry,
            [lp.length for lp in reversed(ctx.loops)], ctx.scope.size(),
            [(k, sys.getsizeof(v, 1)) for k, v in ctx.locals.items()],
            # a block-scoped copy continues the loop list of the context it was copied from
            ctx.parent is not None and ctx.loops is ctx.parent.loops)


def run_limops(cfg: tuple, ops: list[tuple]) -> list[tuple]:
    """Drive the real RenderContext. ops: ('F',n) ('K',n) ('E',) ('C',bool) ('X',)
    ('A',key,size,value) ('L',n) ('S',k)."""
    from liquid2.builtin.tags.for_tag import ForLoop
    from liquid2.context import RenderContext

    env = make_env(depth=cfg[0], loop=cfg[1], ns=cfg[2])
    t = env.from_string("")
    cur = RenderContext(t)
    chain = [cur]
    stack: list[tuple] = []
    obs = []
    for op in ops:
        o = "ok"
        try:
            k = op[0]
            if k == "F":
                cm = cur.loop({}, ForLoop(name="x", it=iter(()), length=op[1], parentloop=None))
                cm.__enter__()
                stack.append(("cm", cm))
            elif k == "K":
                cm = cur.carry_loop(op[1])
                cm.__enter__()
                stack.append(("cm", cm))
            elif k == "E":
                cm = cur.extend({})
                cm.__enter__()
                stack.append(("cm", cm))
            elif k == "C":
                new = cur.copy(None, namespace={}, carry_loop_iterations=op[1], block_scope=op[2])
                stack.append(("copy", cur))
                chain.append(new)
                cur = new
            elif k == "X":
                b = stack.pop()
                if b[0] == "cm":
                    b[1].__exit__(None, None, None)
                elif b[0] == "copy":
                    chain.pop()
                    cur = b[1]
                else:
                    b[1].__exit__(None, None, None)
                    chain.extend(b[2])
                    cur = chain[-1]
            elif k == "A":
                cur.assign(op[1], op[3])
            elif k == "L":
                cur.raise_for_loop_limit(op[1])
            elif k == "S":
                idx = len(chain) - 2 - op[1]
                target = chain[idx]
                cm = target.extend({})
                cm.__enter__()
                stack.append(("super", cm, chain[idx + 1:]))
                del chain[idx + 1:]
                cur = target
        except Exception as e:  # noqa: BLE001
            o = type(e).__name__
        obs.append((o, [snap_ctx(c) for c in reversed(chain)]))
    return obs


VALUES = ["", "xxxx", "y" * 20, 7, [1, 2, 3]]


def _valid_limops(r: Any, n: int, alphabet: list[tuple] | None = None) -> list[tuple]:
    ops: list[tuple] = []
    kinds: list[str] = []  # open brackets
    copies = 0
    for _ in range(n):
        x = r.random()
        if x < 0.2 and kinds:
            b = kinds.pop()
            if b == "C":
                copies -= 1
            elif b.startswith("S"):
                copies += int(b[1:]) + 1
            ops.append(("X",))
        elif x < 0.36:
            ops.append(("F", r.choice([0, 1, 2, 2, 3, 5])))
            kinds.append("F")
        elif x < 0.46:
            ops.append(("K", r.choice([0, 1, 2, 3, 4])))
            kinds.append("K")
        elif x < 0.6:
            ops.append(("E",))
            kinds.append("E")
        elif x < 0.76:
            ops.append(("C", r.random() < 0.85, r.random() < 0.35))
            kinds.append("C")
            copies += 1
        elif x < 0.9:
            v = r.choice(VALUES)
            ops.append(("A", r.choice("abc"), sys.getsizeof(v, 1), v))
        elif x < 0.95 or copies == 0:
            ops.append(("L", r.choice([0, 1, 2, 3])))
        else:
            k = r.randrange(copies)
            ops.append(("S", k))
            kinds.append(f"S{k}")
            copies -= k + 1
    return ops


def _limops_need(ops: list[tuple]) -> tuple[int, int, int]:
    """Consumption of an op sequence with the limits off: depth, loop product, locals."""
    ob = run_limops((10 ** 6, None, 10 ** 9), ops)
    depth = prod = loc = 0
    for _, frames in ob:
        f = frames[0]
        depth = max(depth, f[0] - 1, f[4] - 1)
        p = f[1]
        for x in f[3]:
            p *= x
        prod = max(prod, p)
        loc = max(loc, sum(v for _, v in f[5]) + f[2])
    return depth, prod, loc


def gen_limops(chk: C.Check) -> list[tuple[tuple, list[tuple]]]:
    r = C.rng("c06", "limops")
    thorough = chk.tier == "thorough"
    out: list[tuple[tuple, list[tuple]]] = []
    # exhaustive short sequences over a small alphabet
    v = "xxxx"
    alpha = [("F", 2), ("F", 3), ("K", 2), ("E",), ("C", True, False), ("C", False, False),
             ("C", True, True), ("X",),
             ("A", "a", sys.getsizeof(v), v), ("L", 2), ("S", 0)]
    cfgs = [(5, 4, 60), (4, None, None), (6, 6, sys.getsizeof(v))]

    def valid(seq: tuple) -> bool:
        depth = 0
        copies = 0
        st: list[str] = []
        for o in seq:
            if o[0] == "X":
                if not st:
                    return False
                b = st.pop()
                if b == "C":
                    copies -= 1
                elif b == "S":
                    copies += 1
            elif o[0] in "FKE":
                st.append(o[0])
            elif o[0] == "C":
                st.append("C")
                copies += 1
            elif o[0] == "S":
                if copies < 1:
                    return False
                st.append("S")
                copies -= 1
            depth = max(depth, len(st))
        return True

    import itertools
    maxlen = 4 if thorough else 3
    for n in range(1, maxlen + 1):
        for seq in itertools.product(alpha, repeat=n):
            if not valid(seq):
                continue
            if n == 4 and r.random() > 0.1:
                continue
            if not thorough and n == 3 and r.random() > 0.5:
                continue
            for cfg in (cfgs if (thorough or n < 3) else [cfgs[r.randrange(3)]]):
                out.append((cfg, settle(cfg, list(seq))))
    # random longer sequences, limits swept around their consumption
    for _ in range(250 if thorough else 60):
        ops = _valid_limops(r, r.randint(6, 40 if thorough else 24))
        d, p, l = _limops_need(ops)
        sweeps = []
        for dd in ((-1, 0, 1) if not thorough else (-2, -1, 0, 1, 2)):
            sweeps.append((max(d + dd, 0), None, None))
            sweeps.append((10 ** 3, max(p + dd, 0), None))
            sweeps.append((10 ** 3, None, max(l + dd, 0)))
        sweeps.append((d, p or None, l or None))
        if not thorough:
            sweeps = r.sample(sweeps, 4) + [sweeps[-1]]
        for cfg in sweeps:
            out.append((cfg, settle(cfg, ops)))
    return out


def settle(cfg: tuple, ops: list[tuple]) -> list[tuple]:
    """Cut a sequence after its first failing step under cfg and close what is
    open (so that every later Exit / EnterSuper is meaningful on both sides)."""
    obs = run_limops(cfg, ops)
    opened = 0
    for i, (op, (o, _)) in enumerate(zip(ops, obs)):
        if o != "ok":
            return ops[: i + 1] + [("X",)] * opened
        if op[0] in "FKECS":
            opened += 1
        elif op[0] == "X":
            opened -= 1
    return ops


def limops_oracle(cfg: tuple, ops: list[tuple], obs: list[tuple]) -> str | None:
    """The inequalities on the real RenderContext objects, while nothing has raised.
    (Sequences with block.super are judged by the model only.)"""
    d, lp, ns = cfg
    has_super = any(o[0] == "S" for o in ops)
    loops: list[int] = []   # lengths of all open loops of any kind
    st: list[str] = []
    for i, (op, (o, frames)) in enumerate(zip(ops, obs)):
        if o != "ok":
            if o not in LIMIT_ERRORS:
                return f"step {i}: {op[:2]} raised {o}"
            return None
        f = frames[0]
        if f[0] != len(frames) - 1:
            return f"step {i}: copy depth {f[0]} with {len(frames) - 1} contexts below"
        if f[0] > d + 1 or f[4] > max(4, d + 1):
            return f"step {i}: depth {f[0]} / scope {f[4]} beyond depth limit {d}"
        if op[0] in "FK":
            st.append("L")
            loops.append(op[1])
        elif op[0] in "ECS":
            st.append("-")
        elif op[0] == "X":
            if st.pop() == "L":
                loops.pop()
        if has_super or any(o2[0] == "C" and not o2[1] and not o2[2] for o2 in ops[: i + 1]):
            continue
        prod = 1
        for x in loops:
            prod *= x
        if lp is not None and loops and prod > lp:
            return f"step {i}: {prod} iterations of nested loops under limit {lp}"
        if ns is not None:
            tot = sum(sum(v for _, v in fr[5]) for fr in frames)
            if tot > ns:
                return f"step {i}: {tot} bytes of locals under limit {ns}"
    return None


# ---------------------------------------------------------------- B: tracing real renders

TR: "Tracer | None" = None
_INSTALLED: dict[str, Any] = {}


class RenderTimeout(BaseException):
    """Raised by the watchdog: a render that does not end is a finding, not a hang."""


class deadline:
    def __init__(self, seconds: float) -> None:
        self.seconds = seconds

    def __enter__(self) -> None:
        import signal

        def on_alarm(signum: int, frame: Any) -> None:
            raise RenderTimeout()

        self.old = signal.signal(signal.SIGALRM, on_alarm)
        signal.setitimer(signal.ITIMER_REAL, self.seconds)

    def __exit__(self, *exc: Any) -> None:
        import signal
        signal.setitimer(signal.ITIMER_REAL, 0)
        signal.signal(signal.SIGALRM, self.old)


class Tracer:
    """Records the operation sequence a real render performs on its contexts
    and on its output buffers, with the observable state after each step."""

    def __init__(self, root_ctx: Any, root_buf: Any, trace_buffers: bool) -> None:
        self.chain = [root_ctx]
        self.brackets: list[tuple] = []
        self.suspended: list[Any] = []
        self.ops: list[tuple] = []        # (op, outcome, (frame, n_below))
        self.super_target: Any = None
        self.problems: list[str] = []
        self.need_depth = 0
        self.max_open = 0
        self.max_locals_chain = 0         # what get_size_of_locals would see
        self.max_locals_all = 0           # ... plus contexts suspended by block.super
        self.super_outer_loops = False    # block.super evaluated inside a loop of the overriding block
        self.super_assign = False         # assign while contexts are suspended by block.super
        self.depth_mismatch = False
        # buffers
        self.trace_buffers = trace_buffers
        self.bufstack = [root_buf]
        self.bufops: list[tuple] = []     # (op, outcome, [stripped buffers])
        self.closed: list[str] = []
        self.need_bytes = 0

    # -- contexts
    def sync(self, ctx: Any) -> None:
        while self.chain[-1] is not ctx:
            if not self.brackets or self.brackets[-1][0] != "copy" or len(self.chain) < 2:
                self.problems.append("operation on a context that is not the current one")
                return
            self.brackets.pop()
            self.chain.pop()
            self.log(("X",), "ok")

    def log(self, op: tuple, outcome: str) -> None:
        cur = self.chain[-1]
        self.ops.append((op, outcome, (snap_ctx(cur), len(self.chain) - 1)))
        self.max_open = max(self.max_open, sum(1 for b in self.brackets if b[0] != "carry"))
        if cur._copy_depth != len(self.chain) - 1:
            self.depth_mismatch = True

    def finish(self) -> None:
        """The render returned or raised: drop the copies that are still live."""
        while self.brackets and self.brackets[-1][0] == "copy":
            self.brackets.pop()
            self.chain.pop()
            self.log(("X",), "ok")

    # -- buffers
    def bsnap(self) -> list[tuple]:
        out = []
        for b in reversed(self.bufstack):
            s = snap_buf(b)
            out.append(s[:-1] + ("",) if s[0] != "N" else s)
        return out

    def blog(self, op: tuple, outcome: str) -> None:
        self.bufops.append((op, outcome, self.bsnap()))
        top = self.bufstack[-1]
        s = snap_buf(top)
        if s[0] == "L" and outcome == "ok":
            root_limit = snap_buf(self.bufstack[0])[1]
            self.need_bytes = max(self.need_bytes, root_limit - s[1] + s[2])

    def bsync(self, buf: Any) -> None:
        if not any(b is buf for b in self.bufstack):
            self.problems.append("write to a buffer that is not on the stack")
            return
        while self.bufstack[-1] is not buf:
            b = self.bufstack.pop()
            self.closed.insert(0, "" if snap_buf(b)[0] == "N" else _raw_getvalue(b))
            self.blog(("C",), "ok")


def _raw_getvalue(b: Any) -> str:
    from io import StringIO
    return StringIO.getvalue(b)


class _CM:
    def __init__(self, ctx: Any, op: tuple, factory: Any, *, quiet: bool = False,
                 super_idx: int | None = None, kind: str = "cm") -> None:
        self.ctx, self.op, self.factory = ctx, op, factory
        self.quiet, self.super_idx, self.kind = quiet, super_idx, kind
        self.inner: Any = None

    def __enter__(self) -> Any:
        tr, ctx = TR, self.ctx
        assert tr is not None
        if self.super_idx is None:
            tr.sync(ctx)
        if self.op[0] in "EFS":
            tr.need_depth = max(tr.need_depth, ctx.scope.size())
        if self.quiet:
            ctx._quiet += 1
        try:
            self.inner = self.factory()
            r = self.inner.__enter__()
        except Exception as e:
            if self.super_idx is not None:
                pass
            tr.log(self.op, type(e).__name__)
            raise
        finally:
            if self.quiet:
                ctx._quiet -= 1
        if self.super_idx is not None:
            saved = tr.chain[self.super_idx + 1:]
            del tr.chain[self.super_idx + 1:]
            tr.suspended.extend(saved)
            tr.brackets.append(("super", saved))
            if any(_uncounted_by_parent(c) for c in saved):
                tr.super_outer_loops = True
        else:
            tr.brackets.append((self.kind,))
        tr.log(self.op, "ok")
        return r

    def __exit__(self, et: Any, ev: Any, tb: Any) -> Any:
        tr, ctx = TR, self.ctx
        assert tr is not None
        tr.sync(ctx)
        if self.quiet:
            ctx._quiet += 1
        try:
            r = self.inner.__exit__(et, ev, tb)
        finally:
            if self.quiet:
                ctx._quiet -= 1
        b = tr.brackets.pop()
        if b[0] == "super":
            tr.chain.extend(b[1])
            del tr.suspended[len(tr.suspended) - len(b[1]):]
        tr.log(("X",), "ok")
        return r


def _uncounted_by_parent(c: Any) -> bool:
    """Does context `c` run loops that the context it was copied from does not
    see? (A carry_loop in c, or loops on a list of its own.)"""
    p = c.parent
    if p is None:
        return False
    shared = c.loops is p.loops
    base = p.loop_iteration_carry
    if not shared:
        for lp in p.loops:
            base *= lp.length
    return c.loop_iteration_carry != base or (not shared and len(c.loops) > 0)


def install() -> None:
    """Instrument from outside: a RenderContext subclass, buffer subclasses, and
    a wrapper around BlockDrop.__getitem__ that announces block.super."""
    if _INSTALLED:
        return
    import liquid2.ast as ast_mod
    from liquid2.builtin.tags import extends_tag
    from liquid2.context import RenderContext
    from liquid2.output import LimitedStringIO, NullIO

    has_carry = hasattr(RenderContext, "carry_loop")

    class TracedContext(RenderContext):
        _quiet = 0

        def extend(self, namespace, template=None):  # type: ignore[no-untyped-def,override]
            tr = TR
            if self._quiet or tr is None:
                return RenderContext.extend(self, namespace, template)
            fac = lambda: RenderContext.extend(self, namespace, template)  # noqa: E731
            if tr.super_target is self:
                tr.super_target = None
                idx = next((i for i, c in enumerate(tr.chain) if c is self), None)
                if idx is None:
                    tr.problems.append("block.super on a context that is not live")
                elif idx != len(tr.chain) - 1:
                    return _CM(self, ("S", len(tr.chain) - 2 - idx), fac, super_idx=idx)
            return _CM(self, ("E",), fac)

        def loop(self, namespace, forloop):  # type: ignore[no-untyped-def,override]
            if TR is None:
                return RenderContext.loop(self, namespace, forloop)
            return _CM(self, ("F", forloop.length),
                       lambda: RenderContext.loop(self, namespace, forloop), quiet=True)

        if has_carry:
            def carry_loop(self, length):  # type: ignore[no-untyped-def]
                if TR is None:
                    return RenderContext.carry_loop(self, length)
                return _CM(self, ("K", length),
                           lambda: RenderContext.carry_loop(self, length), quiet=True, kind="carry")

        def copy(self, token, **kw):  # type: ignore[no-untyped-def,override]
            tr = TR
            if tr is None:
                return RenderContext.copy(self, token, **kw)
            tr.sync(self)
            tr.need_depth = max(tr.need_depth, self._copy_depth)
            op = ("C", bool(kw.get("carry_loop_iterations", False)), bool(kw.get("block_scope", False)))
            try:
                new = RenderContext.copy(self, token, **kw)
            except Exception as e:
                tr.log(op, type(e).__name__)
                raise
            tr.brackets.append(("copy",))
            tr.chain.append(new)
            tr.log(op, "ok")
            return new

        def assign(self, key, val):  # type: ignore[no-untyped-def,override]
            tr = TR
            if tr is None:
                return RenderContext.assign(self, key, val)
            tr.sync(self)
            op = ("A", key, sys.getsizeof(val, 1))
            try:
                RenderContext.assign(self, key, val)
            except Exception as e:
                tr.log(op, type(e).__name__)
                raise
            tr.log(op, "ok")
            chain_sum = sum(sum(sys.getsizeof(v, 1) for v in c.locals.values()) for c in tr.chain)
            susp = sum(sum(sys.getsizeof(v, 1) for v in c.locals.values()) for c in tr.suspended)
            tr.max_locals_chain = max(tr.max_locals_chain, chain_sum)
            tr.max_locals_all = max(tr.max_locals_all, chain_sum + susp)
            if tr.suspended:
                # an assign by a parent block rendered through block.super: it goes to the
                # outer context, and the suspended copies keep carrying the old total
                tr.super_assign = True

        def raise_for_loop_limit(self, length=1):  # type: ignore[no-untyped-def,override]
            tr = TR
            if self._quiet or tr is None:
                return RenderContext.raise_for_loop_limit(self, length)
            tr.sync(self)
            try:
                RenderContext.raise_for_loop_limit(self, length)
            except Exception as e:
                tr.log(("L", length), type(e).__name__)
                raise
            tr.log(("L", length), "ok")

        def get_output_buffer(self, parent_buffer):  # type: ignore[no-untyped-def,override]
            buf = RenderContext.get_output_buffer(self, parent_buffer)
            tr = TR
            if tr is not None and tr.trace_buffers and type(buf) is LimitedStringIO:
                buf.__class__ = TLimited
                k = next((i for i, b in enumerate(reversed(tr.bufstack)) if b is parent_buffer), None)
                if k is None:
                    tr.problems.append("child buffer opened on a buffer that is not on the stack")
                    k = 0
                tr.bufstack.append(buf)
                tr.blog(("OC", k), "ok")
            return buf

    class TLimited(LimitedStringIO):
        def write(self, s):  # type: ignore[no-untyped-def,override]
            tr = TR
            if tr is None or not tr.trace_buffers:
                return LimitedStringIO.write(self, s)
            tr.bsync(self)
            try:
                r = LimitedStringIO.write(self, s)
            except Exception as e:
                tr.blog(("W", str(s)), type(e).__name__)
                raise
            tr.blog(("W", str(s)), "ok")
            return r

        def getvalue(self):  # type: ignore[no-untyped-def,override]
            v = LimitedStringIO.getvalue(self)
            tr = TR
            if (tr is not None and tr.trace_buffers and self is not tr.bufstack[0]
                    and any(b is self for b in tr.bufstack)):
                tr.bsync(self)
                tr.bufstack.pop()
                tr.closed.insert(0, v)
                tr.blog(("C",), "ok")
            return v

    class TNull(NullIO):
        def __init__(self, *a, **kw):  # type: ignore[no-untyped-def]
            super().__init__(*a, **kw)
            tr = TR
            if tr is not None and tr.trace_buffers:
                tr.bufstack.append(self)
                tr.blog(("ON",), "ok")

        def write(self, s):  # type: ignore[no-untyped-def,override]
            tr = TR
            if tr is not None and tr.trace_buffers:
                tr.bsync(self)
                tr.blog(("W", str(s)), "ok")
            return 0

    ast_mod.NullIO = TNull  # BlockNode.render_to_output looks the name up in its module
    orig_getitem = extends_tag.BlockDrop.__getitem__

    def traced_getitem(self, key):  # type: ignore[no-untyped-def]
        if TR is not None and key == "super" and self.parent:
            TR.super_target = self.context
        return orig_getitem(self, key)

    extends_tag.BlockDrop.__getitem__ = traced_getitem
    _INSTALLED.update(ctx=TracedContext, limited=TLimited, null=TNull)


def traced_render(env: Any, name: str, data: dict, *, trace_buffers: bool) -> dict[str, Any]:
    """Render template `name` with an instrumented context. Returns outcome,
    output, the derived operation sequences and the measured consumption."""
    global TR
    install()
    from liquid2.output import LimitedStringIO

    TICKS.clear()
    TICK_LOG.clear()
    res: dict[str, Any] = {}
    try:
        t = env.get_template(name)
    except Exception as e:  # noqa: BLE001
        return {"outcome": type(e).__name__, "out": None, "tr": None, "ticks": {}, "nest": 0, "root_ctx": (0, 4),
                "final_bufs": None}
    buf = t._get_buffer()
    tb = trace_buffers and type(buf) is LimitedStringIO
    if tb:
        buf.__class__ = _INSTALLED["limited"]
    ctx = _INSTALLED["ctx"](t, global_data=t.make_globals(data))
    tr = Tracer(ctx, buf, tb)
    TR = tr
    try:
        with deadline(5):
            t.render_with_context(ctx, buf)
        res["outcome"] = "ok"
    except RecursionError:
        res["outcome"] = "RecursionError"
    except RenderTimeout:
        res["outcome"] = "DoesNotTerminate"
    except Exception as e:  # noqa: BLE001
        res["outcome"] = type(e).__name__
    finally:
        try:
            tr.finish()
        finally:
            TR = None
    res["out"] = _raw_getvalue(buf) if res["outcome"] == "ok" else None
    res["tr"] = tr
    res["ticks"] = dict(TICKS)
    res["nest"] = largest_nest(list(TICK_LOG))
    res["final_bufs"] = [snap_buf(b) for b in reversed(tr.bufstack)] if tb else None
    res["root_ctx"] = (len(ctx.loops), ctx.scope.size())
    return res


def plain_render(env: Any, name: str, data: dict, use_async: bool = False) -> tuple[str, str | None]:
    """The public API path, uninstrumented."""
    try:
        t = env.get_template(name)
        with deadline(5):
            if use_async:
                loop = asyncio.new_event_loop()
                try:
                    return "ok", loop.run_until_complete(t.render_async(**data))
                finally:
                    loop.close()
            return "ok", t.render(**data)
    except RecursionError:
        return "RecursionError", None
    except RenderTimeout:
        return "DoesNotTerminate", None
    except Exception as e:  # noqa: BLE001
        return type(e).__name__, None


# ---------------------------------------------------------------- B: programs

PIECES = ["a", "b", "é", "€", "\U0001f600", "\r\n", "\r", "\n", " ", "-"]
DATA = {"u1": "é€", "u2": "x\r\ny\rz", "u3": "\U0001f600", "a1": [1], "a2": [1, 2], "a3": [1, 2, 3],
        "sg": "\ud800", "rows4": [1, 2, 3, 4], "c2": 2, "c0": 0, "c7": 7,
        "a5": [1, 2, 3, 4, 5]}


class PG:
    """Generator of acyclic programs: loop nests (depth <= 4) through for,
    tablerow, include-for, render-for, across include / render / macro / block
    boundaries, with captures, blank blocks, unicode text."""

    def __init__(self, r: Any, shopify: bool) -> None:
        self.r, self.shopify = r, shopify
        self.t: dict[str, str] = {}
        self.n_loop = self.n_var = self.n_tpl = self.n_macro = 0
        self.static: dict[int, int] = {}

    def text(self) -> str:
        return "".join(self.r.choice(PIECES) for _ in range(self.r.randint(1, 3)))

    def tick(self, prod: int) -> str:
        k = self.n_loop
        self.n_loop += 1
        self.static[k] = prod
        self.last = k
        return "{%% assign t = %d | tick %%}" % k

    @staticmethod
    def tock(k: int) -> str:
        return "{%% assign t = %d | tock %%}" % k

    def partial(self, src: str) -> str:
        name = f"p{self.n_tpl}"
        self.n_tpl += 1
        self.t[name] = src
        return name

    def body(self, nest: int, prod: int, flags: frozenset, size: int) -> str:
        return "".join(self.item(nest, prod, flags, max(size - 1, 1))
                       for _ in range(self.r.randint(1, size)))

    def item(self, nest: int, prod: int, flags: frozenset, size: int) -> str:
        r = self.r
        blank = "blank" in flags
        kinds = ["assign", "for", "for", "capture", "if"]
        if not blank:
            kinds += ["text", "text", "out", "with", "forarr"]
            if self.shopify and "tr" not in flags:   # a tablerow inside a tablerow does not parse
                kinds += ["tablerow"]
            if self.n_tpl < 4:
                kinds += ["render", "renderfor", "macro"]
                if not (flags & {"render", "call"}):
                    kinds += ["include", "includefor"]
            if "block" in flags and "super" in flags:
                kinds += ["super", "super"]
        k = r.choice(kinds)
        n = r.choice([0, 1, 2, 2, 3, 3, 4])
        loopy = k in ("for", "forarr", "tablerow", "includefor", "renderfor")
        if loopy and (nest >= 4 or prod * max(n, 1) > 100):
            k = "assign" if blank else "text"
        if k == "text":
            return self.text()
        if k == "out":
            return "{{ %s }}" % r.choice(["u1", "u2", "u3", "u1", "u2", "sg"])
        if k == "super":
            return "{{ block.super }}"
        if k == "assign":
            self.n_var += 1
            return '{%% assign v%d = "%s" %%}' % (self.n_var % 3, "x" * r.randint(0, 12))
        if k == "for":
            tk = self.tick(prod * n)
            lk = self.last
            return ("{%% for i in (1..%d) %%}" % n + tk
                    + self.body(nest + 1, prod * n, flags, size) + "{% endfor %}" + self.tock(lk))
        if k == "forarr":
            n = r.choice([1, 2, 3])
            tk = self.tick(prod * n)
            lk = self.last
            return ("{%% for i in a%d %%}" % n + tk
                    + self.body(nest + 1, prod * n, flags, size) + "{% endfor %}" + self.tock(lk))
        if k == "tablerow":
            tk = self.tick(prod * n)
            lk = self.last
            return ("{%% tablerow i in (1..%d) cols: 2 %%}" % n + tk
                    + self.body(nest + 1, prod * n, flags | {"tr"}, size) + "{% endtablerow %}"
                    + self.tock(lk))
        if k == "if":
            inner = flags | {"blank"} if (blank or r.random() < 0.6) else flags
            return "{% if true %}" + self.body(nest, prod, inner, size) + "{% endif %}"
        if k == "capture":
            self.n_var += 1
            v = f"c{self.n_var}"
            src = "{%% capture %s %%}" % v + self.body(nest, prod, flags - {"blank"}, size) + "{% endcapture %}"
            if not blank and r.random() < 0.6:
                src += "{{ %s }}" % v
            return src
        if k == "with":
            return "{% with w: 1 %}" + self.body(nest, prod, flags, size) + "{% endwith %}"
        inner_flags = flags - {"block", "super", "tr"}
        if k == "include":
            p = self.partial("")
            self.t[p] = self.body(nest, prod, inner_flags, size)
            return "{%% include '%s' %%}" % p
        if k == "includefor":
            n = r.choice([0, 1, 2, 3])
            p = self.partial("")
            tk = self.tick(prod * n)
            lk = self.last
            self.t[p] = tk + self.body(nest + 1, prod * n, inner_flags, size)
            return ("{%% include '%s' for (1..%d) %%}" % (p, n) if (n == 0 or r.random() < 0.5)
                    else "{%% include '%s' for a%d %%}" % (p, n)) + self.tock(lk)
        if k == "render":
            p = self.partial("")
            self.t[p] = self.body(nest, prod, inner_flags | {"render"}, size)
            return "{%% render '%s' %%}" % p
        if k == "renderfor":
            n = r.choice([0, 1, 2, 3])
            p = self.partial("")
            tk = self.tick(prod * n)
            lk = self.last
            self.t[p] = tk + self.body(nest + 1, prod * n, inner_flags | {"render"}, size)
            return ("{%% render '%s' for (1..%d) %%}" % (p, n) if (n == 0 or r.random() < 0.5)
                    else "{%% render '%s' for a%d as q %%}" % (p, n)) + self.tock(lk)
        if k == "macro":
            self.n_macro += 1
            m = f"m{self.n_macro}"
            return ("{%% macro %s x %%}" % m + self.body(nest, prod, inner_flags | {"call"}, size)
                    + "{%% endmacro %%}{%% call %s 1 %%}" % m)
        raise AssertionError(k)


def gen_program(r: Any, idx: int) -> dict[str, Any]:
    shopify = r.random() < 0.35
    g = PG(r, shopify)
    if r.random() < 0.3:
        # template inheritance: base <- (mid) <- leaf, overriding with block.super
        base = "B" + "{% block one %}" + g.body(0, 1, frozenset({"block"}), 2) + "{% endblock %}|" \
               + "{% block two %}" + g.text() + "{% endblock %}" + g.text()
        g.t["base"] = base
        parent = "base"
        if r.random() < 0.4:
            g.t["mid"] = "{% extends 'base' %}{% block one %}(" \
                         + g.body(0, 1, frozenset({"block", "super"}), 2) + "){% endblock %}"
            parent = "mid"
        g.t["main"] = ("{%% extends '%s' %%}" % parent + "{% block one %}<"
                       + g.body(0, 1, frozenset({"block", "super"}), 3) + ">{% endblock %}"
                       + ("{% block two %}2{{ block.super }}{% endblock %}" if r.random() < 0.5 else ""))
    else:
        g.t["main"] = g.body(0, 1, frozenset(), 4)
    return {"id": f"gen{idx}", "templates": g.t, "data": DATA, "shopify": shopify, "kind": "acyclic"}


def cyclic_programs(r: Any, thorough: bool) -> list[dict[str, Any]]:
    """Cyclic include / render / macro / extends graphs of up to 4 templates:
    unguarded (must end in ContextDepthError / TemplateInheritanceError at every
    depth limit) and guarded by a counter (finite recursion of known depth)."""
    out: list[dict[str, Any]] = []

    def add(name: str, tpls: dict[str, str], expect: str, **kw: Any) -> None:
        out.append({"id": name, "templates": tpls, "data": dict(DATA, **kw.get("data", {})),
                    "shopify": kw.get("shopify", False), "kind": kw.get("kind", "cyclic"),
                    "expect": expect})

    wrap = ["%s", "{%% with w: 1 %%}%s{%% endwith %%}", "{%% for i in (1..1) %%}%s{%% endfor %%}",
            "x{%% if true %%}%s{%% endif %%}", "{%% capture c %%}%s{%% endcapture %%}"]
    edges_free = ["{% include 'T' %}", "{% render 'T' %}", "{% include 'T' for a2 %}",
                  "{% render 'T' for a2 %}", "{% render 'T' with 1 as z %}"]
    edges_iso = ["{% render 'T' %}", "{% render 'T' for (1..2) %}"]
    n = 0
    for k in (1, 2, 3, 4):
        reps = 6 if thorough else 3
        for _ in range(reps):
            names = ["main"] + [f"q{i}" for i in range(1, k)]
            tpls = {}
            # a cycle that contains a render is entered isolated on the second
            # round, where include is refused: such cycles use render edges only
            iso = r.random() < 0.5
            for i, nm in enumerate(names):
                nxt = names[(i + 1) % k]
                e = r.choice(edges_iso if iso else edges_free[0:1] + edges_free[2:3]).replace("T", nxt)
                tpls[nm] = r.choice(PIECES) + (r.choice(wrap) % e)
            n += 1
            add(f"cyc{n}", tpls, "ContextDepthError")
    add("cyc-macro", {"main": "{% macro m %}a{% render 'main' %}{% endmacro %}{% call m %}"},
        "ContextDepthError")
    add("cyc-macro2", {"main": "{% render 'q1' %}",
                       "q1": "{% macro m %}{% macro k %}{% endmacro %}{% render 'main' %}{% endmacro %}b{% call m %}"},
        "ContextDepthError")
    add("cyc-tablerow", {"main": "{% tablerow i in (1..2) %}{% include 'main' %}{% endtablerow %}"},
        "ContextDepthError", shopify=True)
    for k in (1, 2, 3, 4):
        names = ["main"] + [f"q{i}" for i in range(1, k)]
        tpls = {nm: "{%% extends '%s' %%}{%% block b %%}%s{%% endblock %%}" % (names[(i + 1) % k], nm)
                for i, nm in enumerate(names)}
        add(f"cyc-extends{k}", tpls, "TemplateInheritanceError")
    add("cyc-extends-tail", {"main": "{% extends 'q1' %}", "q1": "{% extends 'q2' %}",
                             "q2": "{% extends 'q1' %}"}, "TemplateInheritanceError")
    def blocks(levels: int, inner: str) -> str:
        return ("".join("{%% for v%d in (1..1) %%}{%% if true %%}" % i for i in range(levels)) + inner
                + "{% endif %}{% endfor %}" * levels)
    # under the default limit of 30 these need more interpreter frames than CPython has
    add("cyc-deep-blocks3", {"main": blocks(3, "{% render 'main' %}")}, "ContextDepthError")
    add("cyc-deep-blocks4", {"main": blocks(4, "{% render 'q1' %}"), "q1": blocks(3, "{% render 'main' %}")},
        "ContextDepthError")
    add("cyc-deep-macro", {"main": blocks(5, "{% macro m %}{% render 'main' %}{% endmacro %}{% call m %}")},
        "ContextDepthError")
    add("cyc-block-render", {"main": "{% extends 'q1' %}{% block b %}{% render 'main' %}{% endblock %}",
                             "q1": "A{% block b %}{% endblock %}"}, "ContextDepthError")
    # guarded recursion: depth decided by data
    for depth in ((2, 7) if not thorough else (1, 2, 3, 5, 8)):
        add(f"guard-render{depth}",
            {"main": "{% assign m = n | minus: 1 %}r{% if m > 0 %}{% render 'main', n: m %}{% endif %}"},
            "ok", kind="guarded", data={"n": depth})
        add(f"guard-include{depth}",
            {"main": "{% assign n = n | minus: 1 %}i{% if n > 0 %}{% include 'main' %}{% endif %}"},
            "ok", kind="guarded", data={"n": depth})
        add(f"guard-mixed{depth}",
            {"main": "{% assign n = n | minus: 1 %}{% if n > 0 %}{% include 'q1' %}{% endif %}",
             "q1": "{% for i in (1..1) %}{% render 'q2', n: n %}{% endfor %}",
             "q2": "{% assign m = n | minus: 1 %}{% if m > 0 %}{% with w: 1 %}{% render 'q2', n: m %}{% endwith %}{% endif %}"},
            "ok", kind="guarded", data={"n": depth})
    return out


CORPUS = [
    # the witnesses of the defects this property had (fixed or known), run first
    {"id": "d10-newline", "templates": {"main": "a\r\nb\rc{{ u2 }}"}, "data": DATA, "shopify": False,
     "kind": "acyclic"},
    {"id": "d22-render-for", "templates": {"main": "{% render 'p' for (1..5) %}{% assign t = 0 | tock %}",
                                           "p": "{% assign t = 0 | tick %}{% for j in (1..5) %}{% assign t = 1 | tick %}x{% endfor %}{% assign t = 1 | tock %}"},
     "data": DATA, "shopify": False, "kind": "acyclic"},
    {"id": "d22-include-for", "templates": {"main": "{% include 'p' for a3 %}{% assign t = 0 | tock %}",
                                            "p": "{% assign t = 0 | tick %}{% for j in (1..4) %}{% assign t = 1 | tick %}x{% endfor %}{% assign t = 1 | tock %}"},
     "data": DATA, "shopify": False, "kind": "acyclic"},
    {"id": "d22-tablerow", "templates": {"main": "{% tablerow i in (1..4) %}{% assign t = 0 | tick %}{% for j in (1..3) %}{% assign t = 1 | tick %}x{% endfor %}{% assign t = 1 | tock %}{% endtablerow %}{% assign t = 0 | tock %}"},
     "data": DATA, "shopify": True, "kind": "acyclic"},
    {"id": "surrogate", "templates": {"main": "a{{ sg }}b"}, "data": DATA, "shopify": False, "kind": "acyclic"},
    {"id": "nested-capture", "templates": {"main": "ab{% capture x %}cd{% capture y %}éé{% endcapture %}{{ y }}{% endcapture %}{{ x }}"},
     "data": DATA, "shopify": False, "kind": "acyclic"},
    # the shopify tablerow tag as a loop construct: the carry is the number of ROWS, whatever cols is
    {"id": 'tr-cols2', "templates": {'main': '{% tablerow r in rows4 cols: c2 %}{% assign t = 0 | tick %}{% for j in (1..3) %}{% assign t = 1 | tick %}{{ r }}{{ j }}{% endfor %}{% assign t = 1 | tock %}{% endtablerow %}{% assign t = 0 | tock %}'},
     "data": DATA, "shopify": True, "kind": "acyclic"},
    {"id": 'tr-cols0', "templates": {'main': '{% tablerow r in rows4 cols: c0 %}{% assign t = 0 | tick %}{% for j in (1..3) %}{% assign t = 1 | tick %}{{ r }}{{ j }}{% endfor %}{% assign t = 1 | tock %}{% endtablerow %}{% assign t = 0 | tock %}'},
     "data": DATA, "shopify": True, "kind": "acyclic"},
    {"id": 'tr-cols-undefined', "templates": {'main': '{% tablerow r in rows4 cols: nope %}{% assign t = 0 | tick %}{% for j in (1..3) %}{% assign t = 1 | tick %}{{ r }}{{ j }}{% endfor %}{% assign t = 1 | tock %}{% endtablerow %}{% assign t = 0 | tock %}'},
     "data": DATA, "shopify": True, "kind": "acyclic"},
    {"id": 'tr-cols7', "templates": {'main': '{% tablerow r in rows4 cols: c7 %}{% assign t = 0 | tick %}{% for j in (1..3) %}{% assign t = 1 | tick %}{{ r }}{{ j }}{% endfor %}{% assign t = 1 | tock %}{% endtablerow %}{% assign t = 0 | tock %}'},
     "data": DATA, "shopify": True, "kind": "acyclic"},
    {"id": 'tr-render', "templates": {'main': "{% tablerow r in rows4 cols: c2 %}{% assign t = 0 | tick %}{% render 'p', r: r %}{% endtablerow %}{% assign t = 0 | tock %}", 'p': '{% for j in (1..3) %}{% assign t = 1 | tick %}{{ r }}{{ j }}{% endfor %}{% assign t = 1 | tock %}'},
     "data": DATA, "shopify": True, "kind": "acyclic"},
    {"id": 'tr-include', "templates": {'main': "{% tablerow r in rows4 cols: c2 %}{% assign t = 0 | tick %}{% include 'p' %}{% endtablerow %}{% assign t = 0 | tock %}", 'p': '{% for j in (1..3) %}{% assign t = 1 | tick %}{{ r }}{{ j }}{% endfor %}{% assign t = 1 | tock %}'},
     "data": DATA, "shopify": True, "kind": "acyclic"},
    {"id": 'tr-in-for', "templates": {'main': "{% for i in (1..2) %}{% assign t = 2 | tick %}{% tablerow r in a3 cols: c2 %}{% assign t = 0 | tick %}{% render 'p' for a2 as r %}{% assign t = 1 | tock %}{% endtablerow %}{% assign t = 0 | tock %}{% endfor %}{% assign t = 2 | tock %}", 'p': '{% assign t = 1 | tick %}{{ r }}'},
     "data": DATA, "shopify": True, "kind": "acyclic"},
    {"id": 'tr-output', "templates": {'main': 'é{% tablerow r in rows4 cols: c2 %}{% assign t = 0 | tick %}€{% capture x %}😀\r\n{{ r }}{% endcapture %}{{ x }}{% if true %}{% capture y %}{{ x }}{{ x }}{% endcapture %}{% endif %}{% endtablerow %}{% assign t = 0 | tock %}'},
     "data": DATA, "shopify": True, "kind": "acyclic"},
    {"id": 'tr-namespace', "templates": {'main': "{% assign v0 = 'xxxx' %}{% tablerow r in rows4 cols: c2 %}{% assign t = 0 | tick %}{% assign v1 = 'yyyyyyyy' | append: r %}{% render 'q' %}{% endtablerow %}{% assign t = 0 | tock %}{% assign v1 = 'a much longer value than before, assigned again' %}", 'q': "{% assign w = 'zzzzzzzzzzzz' %}{% assign w = 'zzzzzzzzzzzzzzzzzzzzzzzz' %}"},
     "data": DATA, "shopify": True, "kind": "acyclic"},
    # `include ... with <array>` renders the partial once per item, like `include ... for`
    {"id": 'inc-with-array', "templates": {'main': "{% include 'p' with a3 %}{% assign t = 0 | tock %}", 'p': '{% assign t = 0 | tick %}{{ p }}'},
     "data": DATA, "shopify": False, "kind": "acyclic"},
    {"id": 'inc-with-array-loop', "templates": {'main': "{% include 'p' with rows4 %}{% assign t = 0 | tock %}", 'p': '{% assign t = 0 | tick %}{% for j in (1..3) %}{% assign t = 1 | tick %}{{ p }}{{ j }}{% endfor %}{% assign t = 1 | tock %}'},
     "data": DATA, "shopify": False, "kind": "acyclic"},
    {"id": 'inc-with-array-in-for', "templates": {'main': "{% for i in (1..2) %}{% assign t = 2 | tick %}{% include 'p' with a3 as x %}{% assign t = 0 | tock %}{% endfor %}{% assign t = 2 | tock %}", 'p': '{% assign t = 0 | tick %}{% for j in (1..2) %}{% assign t = 1 | tick %}{{ x }}{% endfor %}{% assign t = 1 | tock %}'},
     "data": DATA, "shopify": False, "kind": "acyclic"},
    {"id": 'inc-with-range', "templates": {'main': "{% include 'p' with (1..4) %}{% assign t = 0 | tock %}", 'p': "{% assign t = 0 | tick %}{% render 'q' for a2 %}{% assign t = 1 | tock %}", 'q': '{% assign t = 1 | tick %}x'},
     "data": DATA, "shopify": False, "kind": "acyclic"},
    # loops across the extends / block / block.super boundary
    {"id": 'ext-block-in-for', "templates": {'base': 'B{% for i in (1..3) %}{% assign t = 0 | tick %}{% block one %}b{% endblock %}{% endfor %}{% assign t = 0 | tock %}', 'main': "{% extends 'base' %}{% block one %}{% for k in (1..3) %}{% assign t = 1 | tick %}x{% endfor %}{% assign t = 1 | tock %}{% endblock %}"},
     "data": DATA, "shopify": False, "kind": "acyclic"},
    {"id": 'ext-super-sequential', "templates": {'base': '{% block one %}{% for i in (1..4) %}{% assign t = 0 | tick %}b{% endfor %}{% assign t = 0 | tock %}{% endblock %}', 'main': "{% extends 'base' %}{% block one %}<{{ block.super }}{{ block.super }}>{% endblock %}"},
     "data": DATA, "shopify": False, "kind": "acyclic"},
    {"id": 'ext-super-3x3x3', "templates": {'base': '{% for i in (1..3) %}{% assign t = 0 | tick %}{% block one %}{% for p in (1..3) %}{% assign t = 2 | tick %}b{% endfor %}{% assign t = 2 | tock %}{% endblock %}{% endfor %}{% assign t = 0 | tock %}', 'main': "{% extends 'base' %}{% block one %}{% for k in (1..3) %}{% assign t = 1 | tick %}{{ block.super }}{% endfor %}{% assign t = 1 | tock %}{% endblock %}"},
     "data": DATA, "shopify": False, "kind": "acyclic"},
    # loops that are counted in the carry (include-for, tablerow) around block.super: known finding
    {"id": 'ext-super-in-includefor', "templates": {'base': '{% block one %}{% for i in (1..3) %}{% assign t = 1 | tick %}b{% endfor %}{% assign t = 1 | tock %}{% endblock %}', 'main': "{% extends 'base' %}{% block one %}{% include 'p' for a3 %}{% assign t = 0 | tock %}{% endblock %}", 'p': '{% assign t = 0 | tick %}{{ block.super }}'},
     "data": DATA, "shopify": False, "kind": "acyclic"},
    {"id": 'ext-super-in-tablerow', "templates": {'base': '{% block one %}{% for i in (1..3) %}{% assign t = 1 | tick %}b{% endfor %}{% assign t = 1 | tock %}{% endblock %}', 'main': "{% extends 'base' %}{% block one %}{% tablerow r in a3 cols: c2 %}{% assign t = 0 | tick %}{{ block.super }}{% endtablerow %}{% assign t = 0 | tock %}{% endblock %}"},
     "data": DATA, "shopify": True, "kind": "acyclic"},
]

# known findings: block.super renders the parent block with the outer context
SUPER_LOOP = {"id": "block-super-loop", "templates": {
    "base": "{% block one %}{% for i in (1..5) %}{% assign t = 1 | tick %}b{% endfor %}{% assign t = 1 | tock %}|{% endblock %}",
    "main": "{% extends 'base' %}{% block one %}{% include 'p' for a5 %}{% assign t = 0 | tock %}{% endblock %}",
    "p": "{% assign t = 0 | tick %}{{ block.super }}"},
    "data": DATA, "shopify": False, "kind": "acyclic"}
SUPER_NS = {"id": "block-super-namespace", "templates": {
    "base": "{% block one %}{% assign z = 'zzzzzzzzzzzzzzzzzzzzzzzzzzzzzzzzzzzzzzzz' %}{% endblock %}",
    "main": "{% assign x = 'xxxxxxxxxxxxxxxxxxxxxxxxxxxxxxxxxxxxxxxx' %}{% extends 'base' %}{% block one %}{% assign y = 'yyyyyyyyyyyyyyyyyyyyyyyyyyyyyyyyyyyyyyyy' %}{{ block.super }}{% endblock %}"},
    "data": DATA, "shopify": False, "kind": "acyclic"}


def env_for(prog: dict[str, Any], **limits: Any) -> Any:
    from liquid2 import DictLoader
    return make_env(shopify=prog["shopify"], loader=DictLoader(prog["templates"]), **limits)


BIG = 10 ** 9


def measure(prog: dict[str, Any]) -> dict[str, Any]:
    """Actual consumption with the limits off (or far away)."""
    free = traced_render(env_for(prog), "main", prog["data"], trace_buffers=False)
    far = traced_render(env_for(prog, output=BIG, loop=BIG, ns=BIG, depth=30), "main", prog["data"],
                        trace_buffers=True)
    m: dict[str, Any] = {"outcome": free["outcome"], "out": free["out"], "ticks": free["ticks"]}
    if free["outcome"] == "ok":
        m["bytes_out"] = enc_len(free["out"])
        m["bytes_need"] = far["tr"].need_bytes
        m["loop_need"] = free["nest"]
        m["depth_need"] = free["tr"].need_depth
        m["ns_need"] = far["tr"].max_locals_chain
        m["ns_all"] = far["tr"].max_locals_all
        m["super_outer_loops"] = free["tr"].super_outer_loops
        m["super_assign"] = far["tr"].super_assign
        m["far_same"] = (far["outcome"], far["out"]) == (free["outcome"], free["out"])
        m["nops"] = len(free["tr"].ops)
    return m


# ---------------------------------------------------------------- B: sweeps and oracle

KIND_ERR = {"output": "OutputStreamLimitError", "loop": "LoopIterationLimitError",
            "depth": "ContextDepthError", "ns": "LocalNamespaceLimitError"}


def limits_for(kind: str, L: int) -> dict[str, Any]:
    return {"output": {"output": L}, "loop": {"loop": L}, "depth": {"depth": L}, "ns": {"ns": L}}[kind]


def cfg_of(limits: dict[str, Any]) -> tuple:
    return (limits.get("depth", 30), limits.get("loop"), limits.get("ns"))


def sweep_values(kind: str, m: dict[str, Any], thorough: bool) -> list[int]:
    ds = (-2, -1, 0, 1, 2)
    if kind == "output":
        vals = {m["bytes_need"] + d for d in ds} | {m["bytes_out"] + d for d in ds}
    else:
        vals = {m[kind + "_need"] + d for d in ds}
        if kind in ("loop", "ns"):
            vals.add(0)          # a limit of 0 is enforced, it does not mean "unlimited"
    return sorted(v for v in vals if v >= 0)


def judge(prog: dict[str, Any], m: dict[str, Any], kind: str, L: int, res: dict[str, Any]) -> tuple[str, str] | None:
    """The property on one limited run. Returns (signature, description) of a failure."""
    o, out = res["outcome"], res["out"]
    err = KIND_ERR[kind]
    pid = prog["id"]
    if o not in ("ok", err):
        return (f"{kind}:unexpected-exception", f"{pid}: {kind} limit {L}: raised {o}")
    active = True   # 0 is a limit like any other (fix 0006); only None switches a limit off
    if res["root_ctx"] != (0, 4):
        return ("stale-context-state",
                f"{pid}: after the render the root context has {res['root_ctx'][0]} loops, scope size {res['root_ctx'][1]}")
    tr = res["tr"]
    if tr is not None and tr.depth_mismatch:
        return ("depth:copy-depth-invariant", f"{pid}: _copy_depth differs from the number of copies below")
    if o == "ok":
        if out != m["out"]:
            return (f"{kind}:output-differs-from-unlimited",
                    f"{pid}: {kind} limit {L} not exceeded but output {out!r} != {m['out']!r} without limits")
        if kind == "output" and enc_len(out) > L:
            return ("output:over-limit", f"{pid}: {enc_len(out)} bytes returned under limit {L}")
    if not active:
        if o != "ok":
            return (f"{kind}:zero-limit-raises", f"{pid}: {kind} limit 0 (off) raised {o}")
        return None
    if kind == "output":
        if o == "ok" and L < m["bytes_need"]:
            what = "output" if L < m["bytes_out"] else "a capture / block.super buffer plus its parent"
            return ("output:over-limit", f"{pid}: {what} needs {m['bytes_need']} bytes, accepted under limit {L}")
        if o != "ok" and L >= m["bytes_need"]:
            return ("output:unexceeded-limit-raises", f"{pid}: needs {m['bytes_need']} bytes, limit {L} raised")
    elif kind == "loop":
        if o == "ok" and m["loop_need"] > L:
            sig = "block-super-loop-escape" if m["super_outer_loops"] else "loop:nest-over-limit"
            return (sig, f"{pid}: a nest of loops ran {m['loop_need']} iterations under loop limit {L}")
        if o != "ok" and m["loop_need"] <= L:
            return ("loop:unexceeded-limit-raises", f"{pid}: largest nest {m['loop_need']}, limit {L} raised")
    elif kind == "depth":
        if o == "ok" and m["depth_need"] > L:
            return ("depth:over-limit", f"{pid}: needs depth {m['depth_need']}, accepted under {L}")
        if o != "ok" and m["depth_need"] <= L:
            return ("depth:unexceeded-limit-raises", f"{pid}: needs depth {m['depth_need']}, limit {L} raised")
    elif kind == "ns":
        if o == "ok" and tr is not None and tr.max_locals_all > L:
            sig = "block-super-namespace-escape" if tr.super_assign else "ns:over-limit"
            return (sig, f"{pid}: {tr.max_locals_all} bytes of local variables under namespace limit {L}")
        if not m["super_assign"]:
            if o == "ok" and m["ns_need"] > L:
                return ("ns:over-limit", f"{pid}: needs {m['ns_need']} bytes of locals, accepted under {L}")
            if o != "ok" and m["ns_need"] <= L:
                return ("ns:unexceeded-limit-raises", f"{pid}: needs {m['ns_need']}, limit {L} raised")
    return None


def lim_item(cfg: tuple, tr: Tracer, replay: dict[str, Any]) -> dict[str, Any]:
    ops = C.clist((c_lop(op) for op, _, _ in tr.ops), "op")
    exp = C.clist((C.cpair(c_outcome(o), C.cpair(c_frame(f), C.cnat(n))) for _, o, (f, n) in tr.ops), "lobs")
    return {"case": f"ltrace_eqb (ltrace {c_cfg(cfg)} init {ops}) {exp}",
            "model": f"ltrace {c_cfg(cfg)} init {ops}",
            "replay": replay}


def buf_item(L: int, tr: Tracer, final: list[tuple], replay: dict[str, Any]) -> dict[str, Any]:
    ops = C.clist((c_bop(op) for op, _, _ in tr.bufops), "bop")
    exp = C.clist((C.cpair(c_outcome(o), C.clist((c_buffer(b) for b in st), "buffer"))
                   for _, o, st in tr.bufops), "bobs")
    fin = C.clist((c_buffer(b) for b in final), "buffer")
    cl = C.clist((C.cstr(s) for s in tr.closed), "str")
    return {"case": f"bcheck (Some {L}) {ops} {exp} {fin} {cl}",
            "model": f"blight (Some {L}) (binit (Some {L})) {ops}",
            "replay": replay}


# ---------------------------------------------------------------- main


def main(chk: C.Check, build: C.Build) -> None:
    warnings.simplefilter("ignore")
    sys.setrecursionlimit(max(sys.getrecursionlimit(), 1000))
    proofs_ok = C.proof_stage(chk, build, NEEDED)
    thorough = chk.tier == "thorough"
    evaluations = 0
    dist: dict[str, int] = {}

    def bump(k: str, n: int = 1) -> None:
        dist[k] = dist.get(k, 0) + n

    # ---- A1: LimitedStringIO.write
    w_items = []
    for lim, nl_none, seq in gen_writes(chk):
        obs = run_writes(lim, nl_none, seq)
        evaluations += 1
        bump("A1 boundary writes" if any(o != "ok" for o, _ in obs) else "A1 accepted writes")
        fail = writes_oracle(lim, nl_none, seq, obs)
        if fail:
            chk.finding("output:LimitedStringIO.write", f"limit {lim}, chunks {seq!r}: {fail}",
                        {"limit": lim, "newline_none": nl_none, "chunks": seq, "observed": obs,
                         "how": "harness/c06.py run_writes"})
        nl = "NlNone" if nl_none else "NlKeep"
        exp = C.clist((C.cpair(c_outcome(o), c_buffer(b)) for o, b in obs), "(res unit * buffer)")
        init = f"(Limited {C.cZ(lim)} 0 {nl} [])"
        chunks = C.clist((C.cstr(s) for s in seq), "str")
        w_items.append({"case": f"wtrace_eqb (wtrace {init} {chunks}) {exp}",
                        "model": f"wtrace {init} {chunks}",
                        "replay": {"limit": lim, "newline_none": nl_none, "chunks": seq, "implementation": obs}})

    # ---- A2: buffer stack
    b_items = []
    for lim, ops in gen_bufops(chk):
        obs = run_bufops(lim, ops)
        unl = run_bufops(None, ops)
        evaluations += 1
        bump("A2 limit hit" if any(o != "ok" for o, _ in obs) else "A2 within limit")
        fail = bufops_oracle(lim, ops, obs, unl)
        if fail:
            chk.finding("output:buffer-stack", f"limit {lim}: {fail}",
                        {"limit": lim, "ops": ops, "observed": obs, "how": "harness/c06.py run_bufops"})
        cops = C.clist((c_bop(o) for o in ops), "bop")
        exp = C.clist((C.cpair(c_outcome(o), C.clist((c_buffer(b) for b in st), "buffer")) for o, st in obs), "bobs")
        ol = c_optN(lim)
        b_items.append({"case": f"btrace_eqb (btrace {ol} (binit {ol}) {cops}) {exp}",
                        "model": f"btrace {ol} (binit {ol}) {cops}",
                        "replay": {"limit": lim, "ops": ops, "implementation": obs}})

    # ---- A3: RenderContext methods
    l_items = []
    for cfg, ops in gen_limops(chk):
        obs = run_limops(cfg, ops)
        evaluations += 1
        bump("A3 limit hit" if any(o != "ok" for o, _ in obs) else "A3 within limits")
        fail = limops_oracle(cfg, ops, obs)
        if fail:
            chk.finding("limits:RenderContext-methods", f"limits {cfg}: {fail}",
                        {"cfg": cfg, "ops": [o[:3] for o in ops], "observed": obs,
                         "how": "harness/c06.py run_limops"})
        cops = C.clist((c_lop(o) for o in ops), "op")
        exp = C.clist((C.cpair(c_outcome(o), C.clist((c_frame(f) for f in fr), "frame")) for o, fr in obs), "obs")
        l_items.append({"case": f"trace_eqb (trace {c_cfg(cfg)} init {cops}) {exp}",
                        "model": f"trace {c_cfg(cfg)} init {cops}",
                        "replay": {"cfg": cfg, "ops": [o[:3] for o in ops], "implementation": obs}})

    # ---- B: programs
    r = C.rng("c06", "programs")
    progs = list(CORPUS) + [gen_program(r, i) for i in range(120 if thorough else 22)]
    cyc = cyclic_programs(r, thorough)
    rl_items: list[dict[str, Any]] = []
    rb_items: list[dict[str, Any]] = []
    flips: set[tuple[str, str]] = set()
    samples: list[dict[str, Any]] = []
    budget = [1_500_000 if thorough else 140_000]   # numerals for derived traces

    def add_traces(prog: dict[str, Any], kind: str, limits: dict[str, Any], res: dict[str, Any]) -> None:
        tr = res["tr"]
        if tr is None:
            return
        for p in tr.problems[:1]:
            chk.notes.append(f"tracer: {prog['id']}: {p}")
        rep = {"program": prog["id"], "templates": prog["templates"], "limits": limits,
               "outcome": res["outcome"]}
        cost = 14 * len(tr.ops)
        if tr.ops and cost < budget[0]:
            budget[0] -= cost
            rl_items.append(lim_item(cfg_of(limits), tr, rep))
        if tr.trace_buffers and tr.bufops:
            cost = sum(6 + 4 * len(st) + (len(op[1]) if op[0] == "W" else 0) for op, _, st in tr.bufops)
            if cost < budget[0]:
                budget[0] -= cost
                rb_items.append(buf_item(limits["output"], tr, res["final_bufs"], rep))

    for prog in progs:
        m = measure(prog)
        evaluations += 2
        if m["outcome"] != "ok":
            chk.notes.append(f"program {prog['id']} does not render without limits: {m['outcome']}")
            bump("B programs not rendering")
            continue
        if not m["far_same"]:
            chk.finding("all:far-limits-visible", f"{prog['id']}: limits of 10^9 change the outcome",
                        {"templates": prog["templates"], "data": "harness/c06.py DATA"})
        bump("B programs")
        if len(samples) < 3 and prog["id"].startswith("gen"):
            samples.append({"program": prog["templates"], "consumption": {k: m[k] for k in (
                "bytes_out", "bytes_need", "loop_need", "depth_need", "ns_need")}})
        for kind in ("output", "loop", "depth", "ns"):
            need = m["bytes_need"] if kind == "output" else m[kind + "_need"]
            outcomes: dict[int, str] = {}
            for L in sweep_values(kind, m, thorough):
                limits = limits_for(kind, L)
                res = traced_render(env_for(prog, **limits), "main", prog["data"],
                                    trace_buffers=(kind == "output"))
                evaluations += 1
                outcomes[L] = res["outcome"]
                bump(f"B {kind}: " + ("ok" if res["outcome"] == "ok" else "limit error"))
                bad = judge(prog, m, kind, L, res)
                if bad:
                    chk.finding(bad[0], bad[1], {"templates": prog["templates"], "shopify": prog["shopify"],
                                                 "data": "harness/c06.py DATA", "limit": {kind: L},
                                                 "consumption": {k: v for k, v in m.items() if k.endswith(("need", "_out"))},
                                                 "outcome": res["outcome"], "output": res["out"]})
                if L in (need - 1, need) or (kind == "output" and L == m["bytes_out"] - 1):
                    add_traces(prog, kind, limits, res)
                    # the public API path, sync and async, gives the same
                    for use_async in (False, True):
                        po, pout = plain_render(env_for(prog, **limits), "main", prog["data"], use_async)
                        evaluations += 1
                        if (po, pout) != (res["outcome"], res["out"]):
                            chk.finding(f"{kind}:api-path-differs",
                                        f"{prog['id']}: Template.render{'_async' if use_async else ''} gives {po}, "
                                        f"render_with_context gives {res['outcome']}",
                                        {"templates": prog["templates"], "limit": {kind: L}, "async": use_async})
            if need >= 1 and outcomes.get(need) == "ok" and outcomes.get(need - 1) == KIND_ERR[kind] \
                    and need >= 1:
                flips.add((prog["id"], kind))
        # all limits at exactly the consumption: invisible
        limits = {"output": m["bytes_need"], "loop": m["loop_need"], "depth": m["depth_need"],
                  "ns": m["ns_need"]}
        if not (m["super_outer_loops"] or m["super_assign"]):
            res = traced_render(env_for(prog, **limits), "main", prog["data"], trace_buffers=True)
            evaluations += 1
            if (res["outcome"], res["out"]) != ("ok", m["out"]):
                chk.finding("all:exact-limits-visible",
                            f"{prog['id']}: every limit set to the measured consumption: {res['outcome']}",
                            {"templates": prog["templates"], "limits": limits, "output": res["out"],
                             "expected": m["out"]})
            add_traces(prog, "all", limits, res)

    # cyclic graphs
    for prog in cyc:
        depths = (0, 1, 2, 3, 5, 8, 13, 30) if thorough else (0, 2, 5, 30)
        if prog["kind"] == "guarded":
            m = measure(prog)
            evaluations += 2
            if m["outcome"] != "ok":
                chk.finding("depth:guarded-recursion-fails", f"{prog['id']}: {m['outcome']} at depth limit 30",
                            {"templates": prog["templates"], "data": prog["data"].get("n")})
                continue
            depths = tuple(sorted({max(m["depth_need"] + d, 0) for d in (-2, -1, 0, 1, 2)}))
        hung = False
        for L in depths:
            if hung:
                break
            res = traced_render(env_for(prog, depth=L), "main", prog["data"], trace_buffers=False)
            hung = res["outcome"] == "DoesNotTerminate"
            evaluations += 1
            bump("B cyclic/guarded runs")
            tr = res["tr"]
            if prog["kind"] == "guarded":
                bad = judge(prog, m, "depth", L, res)
                if L == m["depth_need"] and res["outcome"] == "ok":
                    flips.add((prog["id"], "depth"))
            else:
                bad = None
                # with a depth limit below 4 the first extend() of the render already
                # raises ContextDepthError, before any extends tag is looked at
                allowed = {prog["expect"]} | ({"ContextDepthError"} if L < 4 else set())
                if res["outcome"] not in allowed:
                    sig = ("depth:interpreter-exhausted" if res["outcome"] == "RecursionError"
                           else "depth:does-not-terminate" if res["outcome"] == "DoesNotTerminate"
                           else "depth:cycle-not-stopped")
                    bad = (sig, f"{prog['id']}: cyclic graph under depth limit {L} ended with {res['outcome']}, "
                                f"expected {prog['expect']}")
                elif tr is not None and tr.max_open > (L + 2) ** 2:
                    bad = ("depth:descent-bound", f"{prog['id']}: {tr.max_open} nested blocks under depth limit {L}")
                elif res["root_ctx"] != (0, 4):
                    bad = ("stale-context-state", f"{prog['id']}: root context left with {res['root_ctx']}")
            if bad:
                chk.finding(bad[0], bad[1], {"templates": prog["templates"], "depth_limit": L,
                                             "outcome": res["outcome"]})
            if L in (2, 5) or prog["kind"] == "guarded":
                add_traces(prog, "depth", {"depth": L}, res)
            if hung:
                continue
            po, _ = plain_render(env_for(prog, depth=L), "main", prog["data"], use_async=(L % 2 == 1))
            evaluations += 1
            if L == 30 and po == res["outcome"]:
                po, _ = plain_render(env_for(prog, depth=L), "main", prog["data"], use_async=True)
                evaluations += 1
            if po != res["outcome"]:
                chk.finding("depth:api-path-differs", f"{prog['id']}: Template.render gives {po}, traced {res['outcome']}",
                            {"templates": prog["templates"], "depth_limit": L})

    # ---- known findings: re-observe the recorded witnesses
    res = traced_render(env_for(SUPER_LOOP, loop=10), "main", DATA, trace_buffers=False)
    evaluations += 1
    if res["outcome"] == "ok" and res["nest"] > 10:
        chk.finding("block-super-loop-escape",
                    f"include-for (5) around {{{{ block.super }}}} whose parent block loops 5 times: "
                    f"{res['nest']} iterations under loop_iteration_limit 10, no error "
                    "(Coq witness c06_loop_nest_bounded_refuted)",
                    {"templates": SUPER_LOOP["templates"], "loop_iteration_limit": 10, "ticks": res["ticks"]})
        add_traces(SUPER_LOOP, "loop", {"loop": 10}, res)
    res = traced_render(env_for(SUPER_NS, ns=200), "main", DATA, trace_buffers=False)
    evaluations += 1
    if res["outcome"] == "ok" and res["tr"].max_locals_all > 200:
        chk.finding("block-super-namespace-escape",
                    f"assign in a parent block rendered through block.super: {res['tr'].max_locals_all} bytes of "
                    "locals under local_namespace_limit 200, no error (Coq witness c06_locals_le_limit_refuted)",
                    {"templates": SUPER_NS["templates"], "local_namespace_limit": 200})
        add_traces(SUPER_NS, "ns", {"ns": 200}, res)

    # ---- correspondence
    C.correspond(chk, "c06w", IMP_BUF, "", w_items, what="Buffer.write")
    C.correspond(chk, "c06b", IMP_BUF, "", b_items, what="Buffer.bstep", shard=120)
    C.correspond(chk, "c06l", IMP_LIM, "", l_items, what="Limits.step", shard=150)
    C.correspond(chk, "c06rl", IMP_LIM, "", rl_items, what="Limits.step on real renders", shard=12)
    C.correspond(chk, "c06rb", IMP_BUF, "", rb_items, what="Buffer.bstep on real renders", shard=12)
    C.proofs_verdict(chk, proofs_ok)

    chk.coverage.update({
        "evaluations": evaluations,
        "distinct_nontrivial": len(flips),
        "rule": ("A1: every 1-chunk, (quick: 40 sampled) 2-chunk and random 3-7-chunk write sequence over "
                 f"{len(CHUNKS)} chunks (1-4 byte code points, CR, LF, CRLF, lone surrogate, empty) x limits at every "
                 "prefix sum -1/0/+1 x both newline modes; A2: random Write/OpenChild/OpenNull/Close/CloseWrite "
                 "sequences x limits around the measured need; A3: all valid sequences up to length 3 (4 thorough) over "
                 "10 operations x 3 configurations + random sequences of 6-40 operations with each limit swept around "
                 "the sequence's consumption; B: generated programs (loop nests <= 4 deep through for / tablerow / "
                 "include-for / render-for across include, render, macro, block, block.super; captures; blank blocks) "
                 "x each of the 4 limits at consumption + {-2..2}, cyclic graphs of 1-4 templates x depth limits; "
                 "non-trivial = (program, limit kind) pairs where the render succeeded at the measured consumption and "
                 "raised the matching error one below it"),
        "samples": samples,
        "distribution": dist,
        "derived_traces": {"limits": len(rl_items), "buffers": len(rb_items)},
        "direct_drive_cases": {"writes": len(w_items), "buffer_stack": len(b_items), "context_ops": len(l_items)},
        "exhaustive": False,
        "tier_proved": "kernel (buffer stack machine; context limit state machine; tree interpreter for termination)",
    })
    chk.assumptions += [
        "limits are non-negative ints; only None switches a limit off (0 is enforced, fix 0006)",
        "ContextDepthError is also what an exhausted CPython stack is reported as (fix 0005); the model covers the depth counters, not the frame count",
        "sys.getsizeof(value) is a parameter of Assign (measured per case); it is not modelled",
        "LimitedStringIO's initial_value argument (never used by liquid2) is not modelled",
        "counted/plain guards: theorems about loop nests, local sizes and depth quantify over operation sequences without block.super (known findings block-super-loop-escape, block-super-namespace-escape)",
        "recursion_terminates is about the model's tree interpreter (exec): the CPython stack (about 1000 frames) is outside the model",
    ]
