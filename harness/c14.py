"""C14 — caching loaders are transparent.

Tie: histories of {Load, Modify, Delete, FailNext} are run on the real caching
loaders of /repo (CachingDictLoader, CachingFileSystemLoader,
CachingChoiceLoader and namespace-aware subclasses of the first two) and on
the Coq model Kernels/CacheLoader.v (`run`), comparing per step the rendered
content, the globals the template rendered with, and the cache contents in LRU
order.  Oracle (failing-input search): the non-caching twin loader run on the
same history.
"""

from __future__ import annotations

import asyncio
import itertools
import os
import shutil
import tempfile
import warnings
from pathlib import Path
from typing import Any

from . import common as C

IMPORTS = "From LQ Require Import Kernels.LRU Kernels.CacheLoader."
NEEDED = ["theories/Base/Str.v", "theories/Kernels/LRU.v", "theories/Kernels/CacheLoader.v",
          "theories/Proofs/LRU_proofs.v", "theories/Proofs/CacheLoader_proofs.v"]

KINDS = {
    # kind: (ns_aware, fresh)
    "dict": (False, False),
    "nsdict": (True, False),
    "fs": (False, True),
    "nsfs": (True, True),
    "choice": (False, False),
    "choicefs": (False, True),
    # a file system loader over TWO search paths (p before q): a name is served from
    # the first directory that has it; store keys are "p/<name>" and "q/<name>"
    "fs2": (False, True),
}
SEARCH2 = ("p", "q")
EXT2 = ".lq"


def _mk_loaders(kind: str, cap: int, auto_reload: bool, ns_key: bool, root: Path):
    """Return (caching loader, uncached twin, store-ops object)."""
    import liquid2
    from liquid2 import (CachingChoiceLoader, CachingDictLoader, CachingFileSystemLoader,
                         ChoiceLoader, DictLoader, FileSystemLoader)
    from liquid2.exceptions import TemplateNotFoundError

    nsk = "uid" if ns_key else ""

    class Fail:
        fail_next = False

        def _maybe_fail(self, name: str) -> None:
            if self.fail_next:
                raise TemplateNotFoundError(name)

    def wrap(base: type, ns_aware: bool) -> type:
        class K(Fail, base):  # type: ignore[misc,valid-type]
            _in_async = False

            @staticmethod
            def _uid(context, kwargs):  # type: ignore[no-untyped-def]
                uid = kwargs.get("uid")
                if uid is None and context is not None:
                    uid = context.globals.get("uid")
                return uid

            def get_source(self, env, template_name, *, context=None, **kwargs):  # type: ignore[no-untyped-def]
                if not self._in_async:
                    self._maybe_fail(template_name)
                    if ns_aware and self._uid(context, kwargs) is not None:
                        template_name = f"{self._uid(context, kwargs)}/{template_name}"
                return super().get_source(env, template_name, context=context, **kwargs)

            async def get_source_async(self, env, template_name, *, context=None, **kwargs):  # type: ignore[no-untyped-def]
                self._maybe_fail(template_name)
                if ns_aware and self._uid(context, kwargs) is not None:
                    template_name = f"{self._uid(context, kwargs)}/{template_name}"
                # BaseLoader.get_source_async delegates to self.get_source
                self._in_async = True
                try:
                    return await super().get_source_async(env, template_name, context=context, **kwargs)
                finally:
                    self._in_async = False
        K.__name__ = "V" + base.__name__
        return K

    ns_aware, fresh = KINDS[kind]
    ck = dict(auto_reload=auto_reload, namespace_key=nsk, capacity=cap)
    if kind in ("dict", "nsdict"):
        d1: dict[str, str] = {}
        d2: dict[str, str] = {}
        cached = wrap(CachingDictLoader, ns_aware)(d1, **ck)
        twin = wrap(DictLoader, ns_aware)(d2)
        stores = [("dict", d1), ("dict", d2)]
    elif kind in ("fs", "nsfs"):
        (root / "c").mkdir()
        (root / "u").mkdir()
        cached = wrap(CachingFileSystemLoader, ns_aware)(root / "c", **ck)
        twin = wrap(FileSystemLoader, ns_aware)(root / "u")
        stores = [("fs", root / "c"), ("fs", root / "u")]
    elif kind == "fs2":
        for side in ("c", "u"):
            for sp in SEARCH2:
                (root / side / sp).mkdir(parents=True)
        # names are given without a suffix: the default extension is applied by the loader
        cached = wrap(CachingFileSystemLoader, False)([root / "c" / sp for sp in SEARCH2], ext=EXT2, **ck)
        twin = wrap(FileSystemLoader, False)([root / "u" / sp for sp in SEARCH2], ext=EXT2)
        stores = [("fs", root / "c"), ("fs", root / "u")]
    elif kind == "choice":
        d1, d2 = {}, {}
        cached = wrap(CachingChoiceLoader, False)([DictLoader({}), DictLoader(d1)], **ck)
        twin = wrap(ChoiceLoader, False)([DictLoader({}), DictLoader(d2)])
        stores = [("dict", d1), ("dict", d2)]
    elif kind == "choicefs":
        (root / "c").mkdir()
        (root / "u").mkdir()
        cached = wrap(CachingChoiceLoader, False)([DictLoader({}), FileSystemLoader(root / "c")], **ck)
        twin = wrap(ChoiceLoader, False)([DictLoader({}), FileSystemLoader(root / "u")])
        stores = [("fs", root / "c"), ("fs", root / "u")]
    else:
        raise ValueError(kind)
    return cached, twin, stores


def _src(content: int) -> str:
    # content | the per-load template global | the Environment's own global
    return f"{content}|{{{{ g }}}}|{{{{ e }}}}"


def _parse(text: str) -> tuple:
    c, g, e = text.split("|")
    if e != "E":
        # the Environment's own globals must reach every template however it was loaded
        raise EnvGlobalsLost(text)
    return int(c), GCODE[g]


class EnvGlobalsLost(Exception):
    pass


# per-load template globals by code; 3, 4 and 5 are equal under Python's == and render differently
GVALS: dict[int, Any] = {1: "G1", 2: "G2", 3: 1, 4: True, 5: 1.0}
GCODE = {"": 0, "G1": 1, "G2": 2, "1": 3, "true": 4, "1.0": 5}


def run_history(kind: str, cap: int, auto_reload: bool, ns_key: bool, ops: list[tuple]) -> dict[str, Any]:
    """Run a history on the implementation. ops: ('L', name, ns|None, g, async) |
    ('M', key, content) | ('D', key) | ('F',)."""
    from liquid2 import Environment
    from liquid2.exceptions import TemplateNotFoundError

    root = Path(tempfile.mkdtemp(prefix="c14_", dir=os.environ.get("VERIF_SCRATCH", "/var/tmp")))
    loop = asyncio.new_event_loop()
    try:
        cached, twin, stores = _mk_loaders(kind, cap, auto_reload, ns_key, root)
        env_c = Environment(loader=cached, globals={"e": "E"})
        env_u = Environment(loader=twin, globals={"e": "E"})
        wrappers: dict[tuple, Any] = {}
        ver = 1
        steps = []
        for op in ops:
            if op[0] == "M":
                for sk, st in stores:
                    if sk == "dict":
                        st[op[1]] = _src(op[2])
                    else:
                        p = st / (op[1] + (EXT2 if kind == "fs2" else ""))
                        p.parent.mkdir(parents=True, exist_ok=True)
                        p.write_text(_src(op[2]))
                        # distinct mtimes that move backwards as often as forwards
                        # (restore from backup, cp -p): freshness is mtime equality
                        mt = 1_000_000 + (ver if ver % 2 else -ver)
                        os.utime(p, (mt, mt))
                ver += 1
                obs_c = obs_u = ("Q",)
            elif op[0] == "D":
                for sk, st in stores:
                    if sk == "dict":
                        st.pop(op[1], None)
                    else:
                        (st / (op[1] + (EXT2 if kind == "fs2" else ""))).unlink(missing_ok=True)
                obs_c = obs_u = ("Q",)
            elif op[0] == "F":
                cached.fail_next = True
                twin.fail_next = True
                obs_c = obs_u = ("Q",)
            else:
                _, name, ns, g, is_async = op[:5]
                via = len(op) > 5 and op[5]
                kw: dict[str, Any] = {}
                if ns is not None:
                    kw["uid"] = ns
                gl = {"g": GVALS[g]} if g else None
                out = []
                for env in (env_c, env_u):
                    try:
                        if via == "ctx":
                            # a direct load that passes a render context AND globals of its own
                            # (what a custom tag does): served bound to these globals, while the
                            # cached object other callers hold is left alone
                            from liquid2 import RenderContext
                            ck_ = (id(env), "ctx")
                            if ck_ not in wrappers:
                                wrappers[ck_] = RenderContext(env.from_string(""))
                            if is_async:
                                t = loop.run_until_complete(env.get_template_async(name, globals=gl, context=wrappers[ck_], **kw))
                            else:
                                t = env.get_template(name, globals=gl, context=wrappers[ck_], **kw)
                            out.append(("L",) + _parse(t.render()))
                        elif via:
                            # loaded from inside a render: the loader is called with the render context
                            tag = via if isinstance(via, str) else "include"
                            # the wrapping template is parsed once per (environment, tag, name) and
                            # rendered again and again: nothing may be remembered on its nodes
                            wk = (id(env), tag, name)
                            if wk not in wrappers:
                                wrappers[wk] = env.from_string("{% " + tag + " '" + name + "' %}")
                            wrapper = wrappers[wk]
                            if is_async:
                                text = loop.run_until_complete(wrapper.render_async(**kw))
                            else:
                                text = wrapper.render(**kw)
                            out.append(("L",) + _parse(text))
                        else:
                            if is_async:
                                t = loop.run_until_complete(env.get_template_async(name, globals=gl, **kw))
                            else:
                                t = env.get_template(name, globals=gl, **kw)
                            out.append(("L",) + _parse(t.render()))
                    except TemplateNotFoundError:
                        out.append(("N",))
                    except Exception as e:  # noqa: BLE001
                        out.append(("X", type(e).__name__))
                obs_c, obs_u = out
                faulted = twin.fail_next
                cached.fail_next = False
                twin.fail_next = False
                if faulted:
                    # what the non-caching loader gives once the fault has passed
                    try:
                        t = env_u.get_template(name, globals=None if (via and via != "ctx") else gl, **kw)
                        obs_u = obs_u + (("L",) + _parse(t.render()),)
                    except TemplateNotFoundError:
                        obs_u = obs_u + (("N",),)
            snap = []
            for k in list(cached.cache):
                t = cached.cache._cache[k]
                try:
                    snap.append((k,) + _parse(t.render()))
                except EnvGlobalsLost:
                    snap.append((k, -1, -1))       # never equal to the model's snapshot
            steps.append({"c": obs_c, "u": obs_u, "snap": snap, "len": len(cached.cache)})
        return {"steps": steps}
    finally:
        loop.close()
        shutil.rmtree(root, ignore_errors=True)


def shared_loader_history(kind: str, ops: list[tuple]) -> str | None:
    """ONE loader object used by TWO environments (different environment globals, different
    auto_escape): every load-and-render must give what the same sequence gives on a
    non-caching loader shared the same way.  ops: ('L', env 0|1, name, async, via) |
    ('M', name, content).  Returns a description of the first difference, or None."""
    from liquid2 import (CachingChoiceLoader, CachingDictLoader, CachingFileSystemLoader,
                         ChoiceLoader, DictLoader, Environment, FileSystemLoader)
    from liquid2.exceptions import TemplateNotFoundError

    root = Path(tempfile.mkdtemp(prefix="c14s_", dir=os.environ.get("VERIF_SCRATCH", "/var/tmp")))
    loop = asyncio.new_event_loop()
    try:
        d1: dict[str, str] = {}
        d2: dict[str, str] = {}
        (root / "c").mkdir()
        (root / "u").mkdir()
        if kind == "dict":
            cached, twin = CachingDictLoader(d1), DictLoader(d2)
        elif kind == "fs":
            cached, twin = CachingFileSystemLoader(root / "c"), FileSystemLoader(root / "u")
        else:
            cached = CachingChoiceLoader([DictLoader({}), FileSystemLoader(root / "c")])
            twin = ChoiceLoader([DictLoader({}), FileSystemLoader(root / "u")])
        envs = []
        for ld in (cached, twin):
            envs.append((Environment(loader=ld, globals={"e": "A<"}, auto_escape=False),
                         Environment(loader=ld, globals={"e": "B<"}, auto_escape=True)))
        ver = 1
        for i, op in enumerate(ops):
            if op[0] == "M":
                text = f"{op[2]}|{{{{ e }}}}|{{{{ '<' | append: x }}}}"
                d1[op[1]] = d2[op[1]] = text
                for side in ("c", "u"):
                    f = root / side / op[1]
                    f.write_text(text)
                    os.utime(f, (1_000_000 + ver, 1_000_000 + ver))
                ver += 1
                continue
            _, which, name, is_async, via = op
            outs = []
            for pair in envs:
                env = pair[which]
                try:
                    if via:
                        t = env.from_string("{% " + via + " '" + name + "' %}")
                        outs.append(loop.run_until_complete(t.render_async(x="<")) if is_async else t.render(x="<"))
                    else:
                        t = (loop.run_until_complete(env.get_template_async(name)) if is_async else env.get_template(name))
                        outs.append(t.render(x="<"))
                except TemplateNotFoundError:
                    outs.append("NOTFOUND")
            if outs[0] != outs[1]:
                return (f"step {i}: environment {'AB'[which]} got {outs[0]!r} through the shared caching loader, "
                        f"{outs[1]!r} through the shared non-caching loader")
        return None
    finally:
        loop.close()
        shutil.rmtree(root, ignore_errors=True)


def choice_shadow_witness() -> str | None:
    """Known finding: a CachingChoiceLoader keeps the freshness test of the delegate that
    supplied the source; a template added LATER to an EARLIER delegate is not picked up
    (the same situation as /repo e2f7d6d, one level up).  Returns the difference observed."""
    from liquid2 import CachingChoiceLoader, ChoiceLoader, Environment, FileSystemLoader

    root = Path(tempfile.mkdtemp(prefix="c14w_", dir=os.environ.get("VERIF_SCRATCH", "/var/tmp")))
    try:
        for side in ("c", "u"):
            for sp in SEARCH2:
                (root / side / sp).mkdir(parents=True)
        cached = Environment(loader=CachingChoiceLoader([FileSystemLoader(root / "c" / sp) for sp in SEARCH2], auto_reload=True))
        plain = Environment(loader=ChoiceLoader([FileSystemLoader(root / "u" / sp) for sp in SEARCH2]))
        for side in ("c", "u"):
            (root / side / "q" / "t").write_text("base")
        first = (cached.get_template("t").render(), plain.get_template("t").render())
        for side in ("c", "u"):
            (root / side / "p" / "t").write_text("override")
        second = (cached.get_template("t").render(), plain.get_template("t").render())
        if first[0] != first[1]:
            return f"first load: caching {first[0]!r}, non-caching {first[1]!r}"
        if second[0] != second[1]:
            return f"after a same-named template was added to the earlier delegate: caching loader gives {second[0]!r}, non-caching loader gives {second[1]!r}"
        return None
    finally:
        shutil.rmtree(root, ignore_errors=True)


# ---------------------------------------------------------------- Coq terms


def c_op(op: tuple) -> str:
    if op[0] == "L":
        _, name, ns, g, a = op[:5]
        via = len(op) > 5 and bool(op[5])
        return f"Load {C.cstr(name)} {C.copt(C.cstr(str(ns)) if ns is not None else None, 'str')} {g} {C.cbool(a)} {C.cbool(via)}"
    if op[0] == "M":
        return f"Modify {C.cstr(op[1])} {op[2]}"
    if op[0] == "D":
        return f"Delete {C.cstr(op[1])}"
    return "FailNext"


def c_obs(o: tuple) -> str:
    if o[0] == "L":
        return f"Loaded {o[1]} {o[2]}"
    if o[0] == "N":
        return "NotFound"
    if o[0] == "Q":
        return "Quiet"
    return "Quiet"  # an unexpected exception never equals a Load observation


def effective_ops(ops: list[tuple]) -> list[tuple]:
    """Two search paths, seen as ONE store: a name holds what the first directory
    that has it holds.  Every Modify / Delete of "p/<name>" or "q/<name>" becomes
    the Modify / Delete of <name> that a loader over the merged view would see
    (one model op per implementation op, so the steps stay aligned)."""
    files: dict[str, int] = {}
    eff: dict[str, int | None] = {}
    out = []
    for op in ops:
        if op[0] in ("M", "D"):
            name = op[1].split("/", 1)[1]
            if op[0] == "M":
                files[op[1]] = op[2]
            else:
                files.pop(op[1], None)
            before = eff.get(name)
            now = next((files[f"{sp}/{name}"] for sp in SEARCH2 if f"{sp}/{name}" in files), None)
            if now == before:
                # a shadowed file changed, or a file that was not there was deleted: the merged
                # view is untouched (deleting a name no one has is the model's no-op)
                out.append(("D", "no-such-template"))
            else:
                out.append(("M", name, now) if now is not None else ("D", name))
            eff[name] = now
        else:
            out.append(op)
    return out


def c_parts(kind: str, cap: int, ar: bool, nsk: bool, ops: list[tuple], res: dict[str, Any]) -> tuple[str, str, str]:
    ns_aware, fresh = KINDS[kind]
    if kind == "fs2":
        ops = effective_ops(ops)
    cfg = (f"{{| c_cap := {cap}%nat; c_auto_reload := {C.cbool(ar)}; c_ns_key := {C.cbool(nsk)};"
           f" c_ns_aware := {C.cbool(ns_aware)}; c_fresh := {C.cbool(fresh)} |}}")
    exp = C.clist(
        (C.cpair(c_obs(s["c"]),
                 C.clist((C.cpair(C.cstr(k), C.cpair(str(c), str(g))) for k, c, g in s["snap"]),
                         "(str * (N * N))"))
         for s in res["steps"]), "(obs * list (str * (N * N)))")
    return cfg, C.clist(map(c_op, ops), "op"), exp


def c_case(parts: tuple[str, str, str]) -> str:
    cfg, ops, exp = parts
    return f"(let c := {cfg} in run_eqb (run c (init c) {ops}) {exp})"


def c_model_run(parts: tuple[str, str, str]) -> str:
    cfg, ops, _ = parts
    return f"let c := {cfg} in run c (init c) {ops}"


# ---------------------------------------------------------------- oracle


def oracle(kind: str, cap: int, ar: bool, nsk: bool, ops: list[tuple], res: dict[str, Any]) -> str | None:
    """The property, evaluated directly on the implementation outcomes.
    Returns a description of the first failure, or None."""
    _, fresh = KINDS[kind]
    earlier: dict[tuple, set[int]] = {}
    for i, (op, s) in enumerate(zip(ops, res["steps"])):
        if s["len"] > cap:
            return f"step {i}: cache holds {s['len']} entries, capacity {cap}"
        if op[0] != "L":
            continue
        key = (op[1], op[2])
        c, u = s["c"], s["u"]
        if c[0] == "X":
            return f"step {i}: caching loader raised {c[1]}"
        want_g = 0 if (len(op) > 5 and op[5] and op[5] != "ctx") else op[3]
        if c[0] == "L" and c[2] != want_g:
            return f"step {i}: rendered with globals G{c[2]}, caller passed G{want_g}"
        if len(u) == 2:
            # the source loader was failing during this step: an up-to-date
            # cache hit may still be served
            u, after = ("N",), u[1]
            if c == after:
                u = after
        if c != u:
            stale_ok = (not (ar and fresh)) and c[0] == "L" and c[1] in earlier.get(key, set())
            if not stale_ok:
                return f"step {i}: caching loader gave {c}, non-caching loader gives {u}"
        if u[0] == "L":
            earlier.setdefault(key, set()).add(u[1])
    return None


# ---------------------------------------------------------------- generators

NAMES = ["a", "b"]
NSS = ["u", "v"]


def alphabet(kind: str, nsk: bool) -> list[tuple]:
    ns_aware, _ = KINDS[kind]
    nss: list[str | None] = list(NSS) if nsk else [None]
    loads = [("L", n, ns, g, a) for n in NAMES for ns in nss for g in (0, 1) for a in (False, True)]
    # the same template reached through include / render inside another template
    loads += [("L", n, ns, 0, a, tag) for n in NAMES for ns in nss for a in (False, True) for tag in ("include", "render")]
    # a direct get_template / get_template_async that passes a render context and its own globals
    loads += [("L", n, ns, g, a, "ctx") for n in NAMES for ns in nss for g in (0, 1) for a in (False, True)]
    keys = [f"{ns}/{n}" for ns in NSS for n in NAMES] if ns_aware else list(NAMES)
    if kind == "fs2":
        keys = [f"{sp}/{n}" for sp in SEARCH2 for n in NAMES]
    mods = [("M", k, 0) for k in keys]
    dels = [("D", k) for k in keys]
    return loads + mods + dels + [("F",)]


def prefix(kind: str) -> list[tuple]:
    ns_aware, _ = KINDS[kind]
    keys = [f"{ns}/{n}" for ns in NSS for n in NAMES] if ns_aware else list(NAMES)
    if kind == "fs2":
        # only the LATER directory is populated at first: adding to the earlier one shadows
        keys = [f"{SEARCH2[1]}/{n}" for n in NAMES]
    return [("M", k, 10 + i) for i, k in enumerate(keys)]


def number_contents(ops: list[tuple]) -> list[tuple]:
    out, n = [], 100
    for op in ops:
        if op[0] == "M" and op[2] == 0:
            n += 1
            out.append(("M", op[1], n))
        else:
            out.append(op)
    return out


def configs(tier: str) -> list[tuple[str, int, bool, bool]]:
    out = []
    for kind in KINDS:
        ns_aware, _ = KINDS[kind]
        for cap in (1, 2, 3):
            for ar in (True, False):
                for nsk in ((True,) if ns_aware else (False, True)):
                    if kind == "fs2" and (nsk or cap == 3):
                        continue
                    out.append((kind, cap, ar, nsk))
    return out


CORPUS = [
    # (kind, cap, auto_reload, ns_key, ops) — past disagreements / defects, run first
    ("dict", 2, True, False, [("M", "t", 1), ("L", "t", None, 1, False), ("L", "t", None, 0, False)]),
    # globals that are equal under Python's == but render differently: every hit re-binds them
    ("dict", 2, True, False, [("M", "t", 1), ("L", "t", None, 3, False), ("L", "t", None, 4, False), ("L", "t", None, 5, True), ("L", "t", None, 3, True)]),
    ("fs", 2, True, False, [("M", "t", 1), ("L", "t", None, 4, True), ("L", "t", None, 3, True), ("L", "t", None, 5, False), ("L", "t", None, 4, False)]),
    ("choice", 2, True, False, [("M", "t", 1), ("L", "t", None, 5, False), ("L", "t", None, 4, True), ("L", "t", None, 3, False)]),
    ("nsdict", 2, True, True, [("M", "u/t", 1), ("M", "v/t", 2), ("L", "t", "u", 0, True), ("L", "t", "v", 0, True)]),
    ("fs", 2, True, False, [("M", "t", 1), ("L", "t", None, 0, False), ("D", "t"), ("L", "t", None, 0, False)]),
    ("fs", 2, True, False, [("M", "t", 1), ("L", "t", None, 0, True), ("D", "t"), ("L", "t", None, 0, True)]),
    ("fs", 1, True, False, [("M", "t", 1), ("L", "t", None, 0, True), ("L", "t", None, 1, False), ("M", "t", 2), ("L", "t", None, 0, False)]),
    # a partial reached through include is revalidated against the file like any other load
    ("fs", 2, True, False, [("M", "t", 1), ("L", "t", None, 0, False, "include"), ("M", "t", 2), ("L", "t", None, 0, False, "include"),
                            ("M", "t", 3), ("L", "t", None, 0, True, "render")]),
    # get_template with a context argument and globals: the caller gets its own globals, the
    # template someone else holds keeps its own
    ("dict", 2, True, False, [("M", "t", 1), ("L", "t", None, 1, False), ("L", "t", None, 2, False, "ctx"), ("L", "t", None, 0, True, "ctx"),
                              ("L", "t", None, 3, False, "ctx"), ("L", "t", None, 0, False, "include"), ("L", "t", None, 4, True)]),
    ("fs", 2, True, False, [("M", "t", 1), ("L", "t", None, 2, True, "ctx"), ("L", "t", None, 1, False, "ctx"), ("M", "t", 2),
                            ("L", "t", None, 0, False, "ctx"), ("L", "t", None, 5, True, "ctx")]),
    # a load from inside a render must not re-bind the globals of the cached object (fixed in /repo 65f8ab3)
    ("dict", 2, True, False, [("M", "t", 1), ("L", "t", None, 1, False), ("L", "t", None, 0, False, "include"), ("L", "t", None, 0, True, "render")]),
]

# shadowing over two search paths (the defect fixed in /repo e2f7d6d): a file added to an
# earlier directory, or removed from it again, is what every later load must serve
for _a1 in (False, True):
    for _a2 in (False, True):
        CORPUS.append(("fs2", 2, True, False,
                       [("M", "q/t", 1), ("L", "t", None, 0, _a1), ("M", "p/t", 2), ("L", "t", None, 0, _a2),
                        ("L", "t", None, 1, _a1), ("D", "p/t"), ("L", "t", None, 0, _a2), ("M", "q/t", 3),
                        ("L", "t", None, 0, _a1), ("M", "p/t", 4), ("L", "t", None, 0, _a1, "include"),
                        ("D", "p/t"), ("L", "t", None, 0, _a2, "render")]))

# Known finding C14-cache-key-collision: the cache key is "<ns>/<name>", so a
# namespace or an un-namespaced name that contains "/" collides.
COLLISION = ("dict", 3, True, True,
             [("M", "c", 1), ("M", "b/c", 2), ("L", "c", "a/b", 0, False), ("L", "b/c", "a", 0, False)])


def main(chk: C.Check, build: C.Build) -> None:
    warnings.simplefilter("ignore")
    proofs_ok = C.proof_stage(chk, build, NEEDED)
    thorough = chk.tier == "thorough"
    r = C.rng("c14")
    hist: list[tuple[str, int, bool, bool, list[tuple]]] = list(CORPUS)
    exhaustive_len = 2 if not thorough else 3
    for cfg in configs(chk.tier):
        kind = cfg[0]
        al = alphabet(kind, cfg[3])
        pre = prefix(kind)
        if not thorough and kind == "fs2" and cfg[1] == 2:
            lens = [1, 2]     # shadowing needs two steps after the prefix: sampled like the dict kinds
        elif not thorough and (kind not in ("dict", "nsdict") or cfg[1] == 3):
            lens = [1]
        else:
            lens = range(1, exhaustive_len + 1)
        for n in lens:
            for body in itertools.product(al, repeat=n):
                if not any(o[0] == "L" for o in body):
                    continue
                if not thorough and n == 2 and r.random() > 0.2:
                    continue
                if thorough and n == 3 and r.random() > (0.04 if kind in ("dict", "nsdict") else 0.01):
                    continue
                hist.append(cfg + (number_contents(pre + list(body)),))
        nrand = 40 if not thorough else 250
        for _ in range(nrand):
            n = r.randint(3, 9 if not thorough else 30)
            body = [r.choice(al) if r.random() > 0.5 else r.choice([o for o in al if o[0] == "L"]) for _ in range(n)]
            hist.append(cfg + (number_contents(pre + body),))
        # namespaces that are falsy in Python ("" and 0) are namespaces like any other
        if cfg[3] and kind in ("dict", "nsdict", "choice"):
            ns_aware = KINDS[kind][0]
            for _ in range(12 if not thorough else 120):
                falsy = r.choice(["", 0])
                pre2 = list(pre)
                if ns_aware:
                    pre2 += [("M", f"{falsy}/{n_}", 20 + i) for i, n_ in enumerate(NAMES)]
                body = []
                for _ in range(r.randint(3, 8)):
                    k = r.random()
                    if k < 0.7:
                        body.append(("L", r.choice(NAMES), r.choice([falsy, falsy, "u"]), r.choice([0, 1, 3, 4]), r.random() < 0.5))
                    elif k < 0.9:
                        keys = ([f"{x}/{n_}" for x in (falsy, "u") for n_ in NAMES] if ns_aware else list(NAMES))
                        body.append(("M", r.choice(keys), 0))
                    else:
                        body.append(("F",))
                hist.append(cfg + (number_contents(pre2 + body),))

    parts: list[tuple[str, str, str]] = []
    results = []
    nontrivial = set()
    dist = {"hit": 0, "evict": 0, "reload": 0, "notfound": 0, "steps": 0}
    for kind, cap, ar, nsk, ops in hist:
        res = run_history(kind, cap, ar, nsk, ops)
        results.append(res)
        parts.append(c_parts(kind, cap, ar, nsk, ops, res))
        # non-trivial: at least one Load that found its key already cached
        seen_keys: set[str] = set()
        hit = False
        for op, s in zip(ops, res["steps"]):
            dist["steps"] += 1
            if op[0] == "L":
                ck = f"{op[2]}/{op[1]}" if (nsk and op[2] is not None) else op[1]  # f-string: 0 -> "0", "" -> ""
                if ck in seen_keys and s["c"][0] == "L":
                    hit = True
                    dist["hit"] += 1
                if s["c"][0] == "N":
                    dist["notfound"] += 1
                seen_keys = {k for k, _, _ in s["snap"]}
        if hit:
            nontrivial.add(repr((kind, cap, ar, nsk, ops)))
        fail = oracle(kind, cap, ar, nsk, ops, res)
        if fail:
            chk.finding("oracle:" + fail.split(":")[1].strip()[:40], fail,
                        {"kind": kind, "capacity": cap, "auto_reload": ar, "namespace_key": nsk,
                         "ops": ops, "steps": res["steps"], "how": "harness/c14.py run_history"})

    # one loader shared by two environments (fixed in /repo: an entry parsed by another
    # environment is not served)
    shared_runs = 0
    for kind in ("dict", "fs", "choicefs"):
        fixed = [("M", "t", 1), ("L", 0, "t", False, None), ("L", 1, "t", False, None), ("L", 0, "t", True, None),
                 ("L", 1, "t", True, "include"), ("L", 0, "t", False, "render"), ("M", "t", 2), ("L", 1, "t", False, None),
                 ("L", 0, "t", True, "include")]
        if kind == "dict":
            # a dict loader gives no freshness information: a later edit may be served stale
            fixed = [o for o in fixed if o != ("M", "t", 2)]
        seqs = [fixed]
        for _ in range(6 if not thorough else 60):
            seq: list[tuple] = [("M", "t", 1), ("M", "u", 2)]
            for _ in range(r.randint(3, 9)):
                if r.random() < 0.2 and kind != "dict":
                    seq.append(("M", r.choice(["t", "u"]), r.randint(3, 99)))
                else:
                    seq.append(("L", r.randint(0, 1), r.choice(["t", "u"]), r.random() < 0.5, r.choice([None, None, "include", "render"])))
            seqs.append(seq)
        for seq in seqs:
            shared_runs += 1
            fail = shared_loader_history(kind, seq)
            if fail:
                chk.finding("oracle:shared-loader-serves-other-environment", fail,
                            {"kind": kind, "ops": seq, "how": "harness/c14.py shared_loader_history"})

    # known finding: re-observe the recorded collision history
    res = run_history(*COLLISION)
    fail = oracle(*COLLISION, res)
    if fail:
        chk.finding("cache-key-collision", "namespace 'a/b' + name 'c' and namespace 'a' + name 'b/c' share the cache key 'a/b/c': " + fail,
                    {"history": COLLISION, "steps": res["steps"]})

    fail = choice_shadow_witness()
    if fail:
        chk.finding("choice-loader-earlier-delegate-shadowing", fail,
                    {"how": "harness/c14.py choice_shadow_witness", "loader": "CachingChoiceLoader([FileSystemLoader(p), FileSystemLoader(q)], auto_reload=True)"})

    items = [{"case": c_case(p), "model": c_model_run(p),
              "replay": {"kind": h[0], "capacity": h[1], "auto_reload": h[2], "namespace_key": h[3],
                         "ops": h[4], "implementation": res["steps"]}}
             for p, h, res in zip(parts, hist, results)]
    C.correspond(chk, "c14", IMPORTS, "", items, what="CacheLoader.run")
    C.proofs_verdict(chk, proofs_ok)

    chk.coverage.update({
        "evaluations": len(hist),
        "distinct_nontrivial": len(nontrivial),
        "rule": ("histories over {Load(name in a,b; namespace in u,v; globals in none,G1; sync|async), Modify, Delete, FailNext} "
                 f"after a prefix that creates every source: exhaustive up to body length {exhaustive_len} "
                 "(quick: a seeded 20% of length 2 and only for the dict-backed loaders with capacity 1-2, length 1 elsewhere) for every "
                 "(loader kind x capacity 1..3 x auto_reload x namespace_key) (thorough: all of length 2, a seeded 4% / 1% of length 3) plus seeded random longer ones; "
                 "non-trivial = some Load found its key already cached and was answered from / revalidated against the cache"),
        "samples": [{"kind": h[0], "capacity": h[1], "auto_reload": h[2], "namespace_key": h[3], "ops": h[4],
                     "observed": [s["c"] for s in results[i]["steps"]]}
                    for i, h in list(enumerate(hist))[:: max(1, len(hist) // 4)][:4]],
        "distribution": dist,
        "shared_loader_histories": shared_runs,
        "exhaustive": False,
        "tier_proved": "kernel (LRU + caching loader state machine)",
    })
    chk.assumptions += [
        "a template is abstracted to (content, version, freshness callback kind, store key, bound globals)",
        "mtime granularity and ThreadSafeLRUCache locking under real threads are outside the model",
        "wf_call guard: the theorem's calls pass a namespace without '/' whenever namespace_key is set (else known finding cache-key-collision)",
    ]
