"""Generators for the C02 direct oracle over the UNMODELLED parser and renderer:

* cyclic template graphs (extends / block / include / render / macro+call /
  block.super over 1-4 templates) - recursion must end in a LiquidError
  (ContextDepthError ...), never RecursionError;
* every expression form in every argument position of every tag;
* type-confused subscripts (a[x], a[x].y, a.b[x]) with x from data or from a
  filter result.

Only sources and data are produced here; harness/c02.py runs them."""

from __future__ import annotations

import itertools
import random
from typing import Any

# ---------------------------------------------------------------- expression forms

# paths that start with a bracketed name and/or end in a shorthand index (env.shorthand_indexes)
SHORTHAND_FORMS = [
    "['some thing'].0", '["a"].0', "a['b'].0.1", "['a'].0.b", "[a].0", "['a'][0].1", "a.0", "a.0.1[b.0]", "['a'].-1", "['a'].0 | upcase",
    '"${ [\'a\'].0 }"', "['a'] .0", "['a'].0 ", "[ 'a' ].0", "['a'].0[1]", "a[b.0].1", "['a']. 0", "['a'].0.", "['a'].00", "items.0.a", "['items'].1.b",
]

EXPR_FORMS = SHORTHAND_FORMS + [
    "x", "a.b", "a.b[c.d]['e'][0]", "a[b]", "a['k']", "a[0]", "a[-1]", "items",
    "'s'", '"s"', "''", '"\\u12\ud8004"', "'\\uD8\udc00a'", 'a["\\u\ud800abc"]', '"\\uDC00"', '"a${x}b"', "'${ x | upcase }'", '"${ a.b }${ 1 }"', '"${ \'n${x}\' }"',
    "x | upcase", "x | default: 1", "x | default: 'd', allow_false: true", "items | map: 'a' | first",
    "a if b else c", "a if b", "x | upcase if b else y | downcase", "a if b else c || upcase",
    "(1..3)", "(a..b)", "(1..x)", "('1'..\"3\")", "(x..y) | first",
    "1", "-1", "0", "1.5", "-0.5", "1e3", "1E+3", "2e-3", "007", "9007199254740993",
    "true", "false", "nil", "null", "empty", "blank",
    "not a", "a and b", "a or b", "a == b", "a != b", "a <> b", "a < b", "a >= 1", "a contains 'x'", "x in items",
    "a and b or c", "not a and not b", "(a or b) and c", "a == empty", "a == blank",
    "k: 1 => 2", "k: i => i.a", "k: (i) => i", "k: (1) => 2", "k: 'a' => b", "k: => 1", "k: i =>", "1 => 2", "'a' => 'b'", "(i => i", "i => => i",
    "a: x, b: y => y", "items | map: k: 1 => 2", "items | where: k: i => i", "items | sort: key: i => i.a",
    "i => i.a", "(i, n) => n", "x => x", "() => x", "(i) => i", "(i, n, z) => z", "(i,) => i", "i => ", "(i n) => i", "items | map: i => i.a", "items | where: i => i.a == 1",
    "items | sort: 'a' | first", "a, b", "a: 1", "x y", "-", "", "[1, 2]", "a.b.", "a[", "'unclosed", "1..3", "(1..", "=>",
    "x | nosuchfilter", "x | upcase: 1", "x | slice", "x | slice: 'a', {}", "x | date", "x | t: y: 1",
]

# tag templates with one hole {E}; the other positions hold a plain name
TAG_HOLES = [
    "{{ {E} }}", "{{- {E} -}}", "{% echo {E} %}", "{% assign v = {E} %}{{ v }}", "{% assign {E} = 1 %}",
    "{% capture {E} %}a{% endcapture %}", "{% increment {E} %}", "{% decrement {E} %}",
    "{% if {E} %}a{% endif %}", "{% if x %}a{% elsif {E} %}b{% else %}c{% endif %}", "{% unless {E} %}a{% endunless %}",
    "{% case {E} %}{% when 1 %}a{% else %}b{% endcase %}", "{% case x %}{% when {E} %}a{% endcase %}",
    "{% case x %}{% when 1, {E} %}a{% when {E} or 2 %}b{% endcase %}",
    "{% cycle {E} %}", "{% cycle {E}, 'b' %}", "{% cycle 'a', {E} %}", "{% cycle {E}: 'a', 'b' %}", "{% cycle 'g': {E}, {E} %}",
    "{% for i in (1..3) %}{% cycle {E}, x %}{% endfor %}",
    "{% for i in {E} %}{{ i }}{% endfor %}", "{% for i in items limit: {E} %}{{ i }}{% endfor %}",
    "{% for i in items offset: {E} %}{{ i }}{% endfor %}", "{% for i in items limit: 1 offset: {E} reversed %}{{ i }}{% endfor %}",
    "{% for {E} in items %}a{% endfor %}", "{% for i in items %}{% break %}{% else %}{{ {E} }}{% endfor %}",
    "{% with v: {E} %}{{ v }}{% endwith %}", "{% with {E} %}a{% endwith %}", "{% with a: 1, b: {E} %}{{ b }}{% endwith %}",
    "{% include {E} %}", "{% include 'p' with {E} %}", "{% include 'p' with {E} as v %}", "{% include 'p' for {E} as v %}",
    "{% include 'p', v: {E} %}", "{% include 'p' v: {E}, w: {E} %}",
    "{% render {E} %}", "{% render 'p' with {E} %}", "{% render 'p' with {E} as v %}", "{% render 'p' for {E} as v %}",
    "{% render 'p', v: {E} %}",
    "{% macro m a, b: {E} %}{{ a }}{{ b }}{% endmacro %}{% call m 1 %}", "{% macro m {E} %}x{% endmacro %}{% call m %}",
    "{% macro m a, b %}{{ a }}{{ b }}{% endmacro %}{% call m {E} %}", "{% macro m a, b %}{{ a }}{{ b }}{% endmacro %}{% call m 1, b: {E} %}",
    "{% macro m a %}{{ a }}{% endmacro %}{% call {E} 1 %}", "{% call nosuch {E} %}",
    "{% translate v: {E} %}Hello {{ v }}{% endtranslate %}", "{% translate count: {E} %}a{% plural %}b{% endtranslate %}",
    "{% translate context: {E} %}a{% endtranslate %}", "{% translate {E} %}a{% endtranslate %}",
    "{% tablerow i in {E} %}{{ i }}{% endtablerow %}", "{% tablerow i in items cols: {E} %}{{ i }}{% endtablerow %}",
    "{% tablerow i in items limit: {E} offset: {E} %}{{ tablerowloop.col }}{% endtablerow %}",
    "{% if true %}{% extends {E} %}{% endif %}", "{% for i in (1..2) %}{% extends {E} %}{% endfor %}",
    "{% macro m %}{% extends {E} %}{% endmacro %}{% call m %}", "{% capture c %}{% extends {E} %}{% endcapture %}", "a{% extends {E} %}b{% extends 'base' %}",
    "{% extends {E} %}", "{% block {E} %}a{% endblock %}", "{% block b required {E} %}a{% endblock %}",
    "{% liquid assign v = {E}\n echo v %}", "{% liquid\nif {E}\n echo 'a'\nendif %}", "{% liquid for i in {E}\n echo i\nendfor %}",
    "{% liquid cycle {E}, 'b' %}", "{% liquid case {E}\nwhen {E}\n echo 1\nendcase %}",
    "{{ x | default: {E} }}", "{{ items | where: {E} }}", "{{ items | where: 'a', {E} }}", "{{ items | map: {E} }}",
    "{{ x | slice: {E} }}", "{{ x | slice: 0, {E} }}", "{{ x | truncate: {E}, {E} }}", "{{ items | sort: {E} }}",
    "{{ items | join: {E} }}", "{{ x | append: {E} }}", "{{ 1 | plus: {E} }}", "{{ x | date: {E} }}", "{{ x | t: v: {E} }}",
    "{{ items | sum: {E} }}", "{{ items | find: {E}, {E} }}", "{{ items | compact: {E} }}", "{{ x | replace: {E}, {E} }}",
    "{{ a if {E} else b }}", "{{ {E} if a else b }}", "{{ a if b else {E} }}", "{{ \"${ {E} }\" }}", "{{ ({E}..3) }}", "{{ (1..{E}) }}",
    "{{ a[{E}] }}", "{{ a[{E}].b }}",
]

EXPR_TEMPLATES = {"p": "[{{ v }}{{ p }}]", "base": "{% block b %}B{% endblock %}",
                  "callm": "{% call m %}", "extmacro": "{% macro m %}{% extends 'base' %}{% endmacro %}{% include 'callm' %}"}
EXPR_DATA = {
    "x": "hello", "y": "World", "a": {"b": {"c": 1}, "k": [1, 2], "e": 2}, "b": 1, "c": {"d": "k"}, "items": [{"a": 1}, {"a": 2}, {"b": 3}],
    "v": 3, "i": 0, "n": 2,
}


def expression_cases(r: random.Random, tier: str) -> list[tuple[str, dict[str, str], dict[str, Any]]]:
    """(source, templates, data): every form in every hole; quick samples the product."""
    out = []
    # the full product is cheap (about 7 000 sources, a few seconds): both tiers run all of it
    pairs = list(itertools.product(TAG_HOLES, EXPR_FORMS))
    for hole, e in pairs:
        out.append((hole.replace("{E}", e), EXPR_TEMPLATES, EXPR_DATA))
    return out


# ---------------------------------------------------------------- cyclic template graphs

def _body(r: random.Random, names: list[str], depth: int = 0) -> str:
    """A template fragment that refers to other templates of the graph."""
    k = r.random()
    t = r.choice(names)
    if k < 0.22:
        return f"{{% include '{t}' %}}"
    if k < 0.44:
        return f"{{% render '{t}' %}}"
    if k < 0.54:
        return "{{ block.super }}"
    if k < 0.66:
        return f"{{% macro m{depth} %}}{{% include '{t}' %}}{{% endmacro %}}{{% call m{depth} %}}"
    if k < 0.74:
        return f"{{% macro m{depth} a %}}{{% render '{t}' %}}{{{{ a }}}}{{% endmacro %}}{{% call m{depth} 1 %}}"
    if k < 0.82:
        return f"{{% for i in (1..2) %}}{{% include '{t}' %}}{{% endfor %}}"
    if k < 0.9:
        return f"{{% if true %}}{{% render '{t}', v: 1 %}}{{% endif %}}"
    return "x"


def graph(r: random.Random, n: int) -> dict[str, str]:
    names = [f"t{i}" for i in range(n)]
    out = {}
    for i, name in enumerate(names):
        parts = []
        ext = r.random() < 0.6
        if ext:
            parts.append(f"{{% extends '{r.choice(names)}' %}}")
        for b in range(r.randint(1, 2)):
            bn = r.choice(["a", "b"])
            parts.append(f"{{% block {bn} %}}{_body(r, names, b)}{_body(r, names, b + 2) if r.random() < 0.4 else ''}{{% endblock %}}")
        if not ext and r.random() < 0.5:
            parts.append(_body(r, names, 5))
        out[name] = "".join(parts)
    return out


# the minimal cycles, always run
FIXED_GRAPHS: list[dict[str, str]] = [
    {"t0": "{% include 't0' %}"},
    {"t0": "{% render 't0' %}"},
    {"t0": "{% extends 't0' %}"},
    {"t0": "{% extends 't1' %}{% block a %}x{% endblock %}", "t1": "{% extends 't0' %}{% block a %}y{% endblock %}"},
    {"t0": "{% extends 't1' %}{% block a %}{% include 't0' %}{% endblock %}", "t1": "{% block a %}B{% endblock %}"},
    {"t0": "{% extends 't1' %}{% block a %}{% render 't0' %}{% endblock %}", "t1": "{% block a %}B{% endblock %}"},
    {"t0": "{% extends 't1' %}{% block a %}{{ block.super }}{% include 't0' %}{% endblock %}", "t1": "{% block a %}B{% endblock %}"},
    {"t0": "{% extends 't1' %}{% block a %}{% macro m %}{% include 't0' %}{% endmacro %}{% call m %}{% endblock %}",
     "t1": "{% block a %}B{% endblock %}"},
    {"t0": "{% extends 't1' %}{% block a %}{% macro m %}{% render 't0' %}{% endmacro %}{% call m %}{% endblock %}",
     "t1": "{% block a %}B{% endblock %}"},
    {"t0": "{% extends 't1' %}{% block a %}{% include 't2' %}{% endblock %}", "t1": "{% block a %}B{% endblock %}{% block b %}{% endblock %}",
     "t2": "{% extends 't1' %}{% block b %}{% include 't0' %}{% endblock %}{% block a %}{% render 't0' %}{% endblock %}"},
    {"t0": "{% macro m %}{% call m %}{% endmacro %}{% call m %}"},
    {"t0": "{% macro m a %}{% include 't0' %}{% endmacro %}{% call m 1 %}"},
    {"t0": "{% block a %}{% include 't0' %}{% endblock %}"},
    {"t0": "{% block a %}{{ block.super }}{% endblock %}"},
    {"t0": "{% extends 't1' %}{% block a %}{{ block.super }}{% endblock %}", "t1": "{% extends 't2' %}{% block a %}{{ block.super }}{% include 't0' %}{% endblock %}",
     "t2": "{% block a %}{% render 't1' %}{% endblock %}"},
    {"t0": "{% for i in (1..3) %}{% include 't1' %}{% endfor %}", "t1": "{% for j in (1..3) %}{% render 't0' %}{% endfor %}"},
    {"t0": "{% liquid include 't0' %}"},
    {"t0": "{% with a: 1 %}{% include 't0' %}{% endwith %}"},
    {"t0": "{% capture c %}{% render 't0' %}{% endcapture %}{{ c }}"},
]


def graph_cases(r: random.Random, tier: str) -> list[dict[str, str]]:
    out = list(FIXED_GRAPHS)
    for _ in range(600 if tier == "thorough" else 150):
        out.append(graph(r, r.randint(1, 4)))
    return out


# ---------------------------------------------------------------- type-confused subscripts

def deep(n: int) -> Any:
    x: Any = 1
    for _ in range(n):
        x = [x]
    return x


SUBSCRIPT_SHAPES = ["{{ a[x] }}", "{{ a[x].y }}", "{{ a.b[x] }}", "{{ a[x][x] }}", "{{ a[x] | size }}",
                    "{% if a[x] %}t{% endif %}", "{% for i in a[x] %}{{ i }}{% endfor %}", "{% assign v = a[x] %}{{ v }}",
                    "{{ a[b[x]] }}", "{{ \"${ a[x] }\" }}"]
CONTAINERS: list[Any] = [[1, 2, 3], "hello", {"b": [1, 2, 3], "y": 1, "1": "one", "true": "t"}, {"b": "str", "2.0": 1}, (1, 2),
                         range(1, 6), [], "", {}, None, 5, 2.5, [[1, 2], {"y": 3}], {"b": {"1": 2}}]
INDEXES: list[Any] = [float("nan"), float("inf"), float("-inf"), 1e308, -1e308, 2.0, -1.0, 0.0, -0.0, 1.5, True, False,
                      10 ** 400, -(10 ** 400), 2 ** 63, -(2 ** 63) - 1, [], [1], {}, {"a": 1}, None, "", "1", "-1", "b", "y",
                      "first", "last", "size", 1, -1, 0, 3, -4, (1, 2), "inf", "nan"]
# the index computed by a filter inside the template
FILTER_INDEXES = ["'inf' | plus: 0", "'nan' | times: 1", "1e308 | times: 10", "'-inf' | plus: 0", "2 | times: 1.0",
                  "5 | divided_by: 2.0", "1 | minus: 2.0", "'1' | plus: 0", "true", "nil", "'9999999999999999999999' | plus: 0",
                  "1.5 | floor", "x | default: 1.0", "'' | size", "(1..3)", "a | first", "a | size | times: 1.0"]


def subscript_cases(r: random.Random, tier: str) -> list[tuple[str, dict[str, Any]]]:
    out: list[tuple[str, dict[str, Any]]] = []
    combos = list(itertools.product(SUBSCRIPT_SHAPES, range(len(CONTAINERS)), range(len(INDEXES))))
    if tier != "thorough":
        combos = [c for n, c in enumerate(combos) if n % 2 == 0] + \
                 [(s, ci, xi) for s in SUBSCRIPT_SHAPES[:3] for ci in range(6) for xi in range(len(INDEXES))]
    for shape, ci, xi in combos:
        out.append((shape, {"a": CONTAINERS[ci], "b": [0, 1, 2], "x": INDEXES[xi]}))
    fcombos = list(itertools.product(SUBSCRIPT_SHAPES[:4] + SUBSCRIPT_SHAPES[7:9], FILTER_INDEXES, range(len(CONTAINERS))))
    if tier != "thorough":
        fcombos = [c for n, c in enumerate(fcombos) if n % 2 == 0]
    for shape, f, ci in fcombos:
        src = "{% assign x = " + f + " %}" + shape
        out.append((src, {"a": CONTAINERS[ci], "b": [0, 1, 2]}))
    return out


# ---------------------------------------------------------------- environment configurations

# (resource limits on, suppress_blank_control_flow_blocks, auto_escape, shorthand_indexes)
# ... and env.shorthand_indexes (`a.0`, `['a b'].0`): a lexer/parser configuration bit
CONFIGS: list[tuple[bool, bool, bool, bool]] = [(lim, sup, esc, sh) for sh in (False, True) for lim in (True, False)
                                                for sup in (True, False) for esc in (False, True)]


# ---------------------------------------------------------------- blank blocks x buffer-using tags

BLANK_WRAPPERS = [
    "{S}", "{% if true %}{S}{% endif %}", "{% if false %}{% else %}{S}{% endif %}", "{% if false %}{% elsif true %}{S}{% endif %}",
    "{% unless false %}{S}{% endunless %}", "{% for i in (1..2) %}{S}{% endfor %}", "{% for i in nothing %}{% else %}{S}{% endfor %}",
    "{% case 1 %}{% when 1 %}{S}{% endcase %}", "{% case 2 %}{% when 1 %}{% else %}{S}{% endcase %}",
    "{% if true %}{% if true %}{S}{% endif %}{% endif %}", "{% for i in (1..2) %}{% if true %}{S}{% endif %}{% endfor %}",
    "{% if true %}{% for i in (1..2) %}{S}{% endfor %}{% endif %}", "{% with w: 1 %}{S}{% endwith %}",
    "{% if true %}\n  {S}\n{% endif %}", "{% if true %}{% comment %}c{% endcomment %}{S}{% endif %}",
    "{% capture outer %}{% if true %}{S}{% endif %}{% endcapture %}", "{% macro mm %}{% if true %}{S}{% endif %}{% endmacro %}{% call mm %}",
]
BUFFER_TAGS = [
    "{% capture c %}x{{ a }}{% endcapture %}", "{% capture c %}{% endcapture %}", "{% capture c %} {% endcapture %}",
    "{% capture c %}{% capture d %}y{% endcapture %}{{ d }}{% endcapture %}",
    "{% capture c %}{% for j in (1..3) %}{{ j }}{% endfor %}{% endcapture %}",
    "{% capture c %}{% if true %}{% capture d %}z{% endcapture %}{% endif %}{% endcapture %}",
    "{% assign v = 1 %}", "{% assign v = 'x' | append: a %}", "{% include 'cap' %}", "{% render 'cap' %}", "{% include 'blankcap' %}",
    "{% macro m %}{% capture c %}z{% endcapture %}{{ c }}{% endmacro %}{% call m %}", "{% increment n %}", "{% decrement n %}",
    "{% cycle 'a', 'b' %}", "{% echo '' %}", "{% echo a %}", "{{ a }}", "{{ '' }}", "{% liquid capture c\n echo 'q'\n endcapture %}",
    "{% liquid if true\n capture c\n echo 'q'\n endcapture\n endif %}", "{% translate %}Hi{% endtranslate %}",
    "{% capture c %}{% translate %}Hi {{ a }}{% endtranslate %}{% endcapture %}", "{% break %}", "{% continue %}",
    "{% capture c %}" + "0123456789" * 40 + "{% endcapture %}",
]
BUFFER_TEMPLATES = {
    "cap": "{% capture pc %}p{{ a }}{% endcapture %}", "blankcap": "{% if true %}{% capture pc %}p{% endcapture %}{% endif %}",
    "base": "{% block b %}B{% endblock %}|{% block c %}{% if true %}{% capture bc %}q{% endcapture %}{% endif %}{% endblock %}",
}
# children of 'base' whose overridden block is blank except for a capture / block.super
INHERIT_CHILDREN = [
    "{% extends 'base' %}{% block b %}{% if true %}{% capture c %}{{ block.super }}{% endcapture %}{% endif %}{% endblock %}",
    "{% extends 'base' %}{% block b %}{% capture c %}{{ block.super }}{% endcapture %}{% endblock %}",
    "{% extends 'base' %}{% block b %}{% for i in (1..2) %}{% capture c %}{{ block.super }}{{ i }}{% endcapture %}{% endfor %}{{ c }}{% endblock %}",
    "{% extends 'base' %}{% block c %}{% if true %}{{ block.super }}{% endif %}{% endblock %}",
    "{% extends 'base' %}{% block c %}{% if true %}{% capture c %}{{ block.super }}{% endcapture %}{% endif %}{{ c }}{% endblock %}",
    "{% extends 'base' %}{% block b %}{% case 1 %}{% when 1 %}{% capture c %}x{% endcapture %}{% endcase %}{% endblock %}",
]


def buffer_cases() -> list[tuple[str, dict[str, str], dict[str, Any]]]:
    out = []
    data = {"a": "A<b>", "nothing": []}
    for w in BLANK_WRAPPERS:
        for t in BUFFER_TAGS:
            out.append((w.replace("{S}", t) + "[{{ c }}{{ v }}]", BUFFER_TEMPLATES, data))
    for c in INHERIT_CHILDREN:
        out.append((c, BUFFER_TEMPLATES, data))
    return out


# ---------------------------------------------------------------- stray break / continue

INTERRUPT_TEMPLATES = {
    "pb": "{% break %}x", "pc": "a{% continue %}b", "pib": "{% if true %}{% break %}{% endif %}", "plb": "{% liquid\n continue %}",
    "pfor": "{% for i in (1..2) %}{{ i }}{% endfor %}{% break %}",
}
INTERRUPT_SOURCES = [
    "{% break %}", "{% continue %}", "a{% break %}b", "a{% continue %}b", "{% if true %}{% break %}{% endif %}x",
    "{% if false %}{% else %}{% continue %}{% endif %}x", "{% unless false %}{% break %}{% endunless %}",
    "{% case 1 %}{% when 1 %}{% break %}{% endcase %}", "{% liquid\n break %}", "{% liquid if true\n continue\n endif %}",
    "{% for i in (1..2) %}{{ i }}{% endfor %}{% break %}z", "{% for i in (1..2) %}{% break %}{% endfor %}{% continue %}z",
    "{% for i in nothing %}{% else %}{% break %}{% endfor %}", "{% capture c %}{% break %}{% endcapture %}",
    "{% with a: 1 %}{% continue %}{% endwith %}", "{% macro m %}{% break %}{% endmacro %}{% call m %}",
    "{% for i in (1..2) %}{% call m %}{% endfor %}{% macro m %}{% break %}{% endmacro %}",
    "{% for i in (1..2) %}{% macro m %}{% continue %}{% endmacro %}{% call m %}{% endfor %}",
    "{% render 'pb' %}", "{% render 'pc' %}", "{% include 'pb' %}", "{% include 'pc' %}", "{% include 'pib' %}", "{% render 'pib' %}",
    "{% include 'plb' %}", "{% render 'plb' %}", "{% include 'pfor' %}", "{% render 'pfor' %}",
    "{% for i in (1..2) %}{% include 'pb' %}{% endfor %}", "{% for i in (1..2) %}{% include 'pc' %}{{ i }}{% endfor %}",
    "{% for i in (1..2) %}{% render 'pb' %}{% endfor %}", "{% for i in (1..2) %}{% render 'pc' %}{% endfor %}",
    "{% for i in (1..2) %}{% include 'pfor' %}{% endfor %}", "{% render 'pb' for (1..2) as v %}", "{% include 'pc' for (1..2) as v %}",
    "{% extends 'ibase' %}{% block b %}{% break %}{% endblock %}", "{% block b %}{% continue %}{% endblock %}",
    "{% if true %}{% for i in (1..2) %}{% endfor %}{% break %}{% endif %}", "{% translate %}a{% endtranslate %}{% break %}",
    "{% tablerow i in (1..2) %}{% break %}{% endtablerow %}{% break %}",
]


def interrupt_cases() -> list[tuple[str, dict[str, str], dict[str, Any]]]:
    tpl = dict(INTERRUPT_TEMPLATES, ibase="{% block b %}B{% endblock %}")
    return [(s, tpl, {"nothing": []}) for s in INTERRUPT_SOURCES]


# ---------------------------------------------------------------- data of every shape in every argument position

def shaped_values() -> list[Any]:
    """Values whose SHAPE (not their type name) breaks naive code: unhashable
    members, huge ints, infinities and nans as floats and as strings, empty
    items, mappings that are also iterators (a real ForLoop), nesting."""
    out: list[Any] = [
        10 ** 5000, -(10 ** 5000), 10 ** 400, 2 ** 63, float("inf"), float("-inf"), float("nan"), 1e308, -0.0, 2.0,
        "1e999", "-1e999", "inf", "nan", "", " ", "a", "50%", "9" * 5000,
        [float("inf"), float("-inf")], ["1e999", "-1e999"], [float("nan"), 1], ["", "a"], [[], [1]], [[1], [1], {"a": 1}],
        [{"a": [1]}, {"a": {"b": 1}}, {"a": None}, {}], [{"a": float("inf")}, {"a": float("-inf")}], [None, None], [True, 1, 1.0, "1"],
        {"a": [1]}, {"a": 1, "b": {"c": []}}, {}, [], [1], {"size": -1, "first": [], "last": {}}, (1, 2), range(3), range(0),
        None, True, False, 0, -1, 1.5, [10 ** 5000, 1], {"a": 10 ** 5000}, "\u00e9", ["b", "a", None, 2, 1.5, [1]],
    ]
    import collections
    from decimal import Decimal

    dd: Any = collections.defaultdict(list)
    dd["a"] = 1
    dd["b"] = [2]
    dd2: Any = collections.defaultdict(lambda: collections.defaultdict(int))
    dd2["k"]["n"] = 1
    out += [Decimal("NaN"), Decimal("sNaN"), Decimal("Infinity"), Decimal("-Infinity"), Decimal("1.5"), Decimal("1E+400"),
            [Decimal("NaN"), Decimal(1), 2], [Decimal("sNaN"), 1.5], {"a": Decimal("sNaN")}, dd, dd2,
            range(0, 0), range(5, 0, -1),
            collections.OrderedDict(a=1), collections.Counter("aab"), frozenset([1, 2]), {1, 2}]
    # markup that html.parser has no rule for, and date patterns / pattern letters Babel may not know
    out += ["<![foo[x]]>", "a<b>c</b><![if x]>d<![endif]><![bar[y]]>e", "<!x", "<?php x", "<![CDATA[x", "</", "<a b='", "<!--x", "<!DOCTYPE [<!x>]>",
            "g", "yyyy ggg RR", "EEEE, d MMMM y", "%Y-%m-%d", "short", "qqqqqq", "'", "{0}"]
    # timestamps around what the platform's C library can represent, and date / time objects
    import datetime

    out += [2 ** 62, -(2 ** 62), 10 ** 12, -(10 ** 12), 10 ** 17, 1e17, -1e17, 253402300800, -62135596801, str(2 ** 62),
            datetime.datetime(2020, 1, 2, 3, 4, 5), datetime.date(1, 1, 1), datetime.time(23, 59), datetime.datetime(9999, 12, 31, 23, 59, 59)]
    # (bytes, complex numbers and arbitrary objects are outside the property's "JSON-like data")
    try:
        from liquid2.builtin.tags.for_tag import ForLoop
        out.append(ForLoop(name="i-x", it=iter([1, 2, 3]), length=3, parentloop=None))
    except Exception:  # noqa: BLE001
        pass
    return out


FILTER_SHAPES = ["{{ x | F }}", "{{ x | F: y }}", "{{ x | F: y, z }}", "{{ x | F: 'a' }}", "{{ x | F: 'a', y }}", "{{ x | F: 0 }}",
                 "{{ x | F: i => i.a }}", "{% assign v = x | F: y %}{{ v | F }}",
                 "{% for q in (1..2) %}{{ forloop | F }}{{ forloop | F: y }}{{ x | F: forloop }}{% endfor %}"]
DATA_TAG_SHAPES = [
    "{% for i in x %}{{ i }}{% endfor %}", "{% for i in x limit: y offset: z %}{{ i }}{% endfor %}", "{% for i in x reversed %}{{ forloop.index }}{% endfor %}",
    "{% if x contains y %}t{% endif %}", "{% if x in y %}t{% endif %}", "{{ 1 if x in y }}", "{% if x == y %}t{% endif %}", "{% if x < y %}t{% endif %}",
    "{% if x >= y or x != z %}t{% endif %}", "{% if x %}t{% endif %}", "{% unless x %}t{% endunless %}", "{% case x %}{% when y %}a{% when z %}b{% endcase %}",
    "{{ x if y else z }}", "{% cycle x, y %}", "{% cycle x: y, z %}", "{{ (x..y) }}", "{% for i in (x..y) %}{% endfor %}", "{{ x }}", "{{ x }}{{ y }}{{ z }}",
    "{% echo x %}", "{% assign v = x %}{{ v }}", "{% capture c %}{{ x }}{% endcapture %}{{ c | size }}", "{{ x[y] }}", "{{ x[y][z] }}", "{{ x.size }}{{ x.first }}{{ x.last }}",
    "{% with a: x %}{{ a[y] }}{% endwith %}", "{% include 'p' with x as v %}", "{% include 'p' for x as v %}", "{% render 'p', v: x %}", "{% render 'p' for x as v %}",
    "{% translate count: x %}a{% plural %}b{% endtranslate %}", "{% translate v: x %}Hi {{ v }}{% endtranslate %}", "{{ \"a${x}b${ y }\" }}",
    "{% macro m a, b: x %}{{ a }}{{ b }}{% endmacro %}{% call m y, b: z %}", "{% increment x %}", "{% tablerow i in x cols: y limit: z %}{{ i }}{% endtablerow %}",
    "{% for k in x %}{{ x.zzz }}{{ x[k[0]] }}{{ x.q.r }}{% endfor %}", "{% for k in x %}{% for j in x %}{{ x[y] }}{% endfor %}{% endfor %}",
    "{{ x.size }}{{ x | size }}{{ x | first }}{{ x | last }}", "{% include x %}", "{% include 'p' with x %}{% render 'p' with x as v %}",
    "{% translate context: x %}a{% endtranslate %}", "{% translate context: x, count: y %}a{% plural %}b{% endtranslate %}", "{{ 'a' | t: x }}{{ 'a' | t: y, z: x }}",
    "{% tablerow i in x cols: y %}{% for q in tablerowloop %}{{ q }}{% endfor %}{% if tablerowloop == z %}{% endif %}{% endtablerow %}",
    "{% tablerow i in (1..3) cols: x limit: y offset: z %}{{ tablerowloop | json }}{{ tablerowloop | join }}{% endtablerow %}",
    "{% liquid assign v = x | default: y\n echo v %}", "{{ x | default: y | default: z }}", "{% for i in x %}{% for j in i %}{{ j }}{% endfor %}{% endfor %}",
]
# the same with the real forloop object standing for x / y
FORLOOP_WRAP = "{% for q in (1..2) %}{S}{% endfor %}"


KEYWORD_SHAPES = ["{{ x | F: K: y }}", "{{ x | F: z, K: y }}", "{{ 'now' | F: K: y }}{{ 1 | F: K: x }}"]


def data_argument_cases(r: random.Random, tier: str, filter_names: list[str],
                        filter_keywords: dict[str, list[str]] | None = None) -> list[tuple[str, dict[str, Any]]]:
    """filter_keywords: the keyword-only parameters of each filter (found by introspection in c02.py)."""
    vals = shaped_values()
    k = 30 if tier == "thorough" else 5
    out: list[tuple[str, dict[str, Any]]] = []

    def draw() -> dict[str, Any]:
        return {"x": r.choice(vals), "y": r.choice(vals), "z": r.choice(vals)}

    for f, kws in sorted((filter_keywords or {}).items()):
        for kw in kws:
            for shape in KEYWORD_SHAPES:
                src = shape.replace("F", f).replace("K", kw)
                for _ in range(k * 2):
                    out.append((src, draw()))

    for f in filter_names:
        for shape in FILTER_SHAPES:
            src = shape.replace("F", f)
            for _ in range(k):
                out.append((src, draw()))
    for shape in DATA_TAG_SHAPES:
        for _ in range(k * 6):
            out.append((shape, draw()))
        for var in ("x", "y"):
            wrapped = FORLOOP_WRAP.replace("{S}", shape)
            for _ in range(k):
                d = draw()
                # the loop variable named like the data variable shadows it with the ForLoop drop
                out.append(("{% for q in (1..2) %}{% assign " + var + " = forloop %}" + shape + "{% endfor %}", d))
            del wrapped
    return out


def shorthand_cases() -> list[tuple[str, dict[str, str], dict[str, Any]]]:
    """Every bracket-rooted / shorthand-index path form in every hole (run with shorthand_indexes on)."""
    data = dict(EXPR_DATA, **{"some thing": ["x", "y"], "a b": [[1, 2]]})
    return [(hole.replace("{E}", e), EXPR_TEMPLATES, data) for hole in TAG_HOLES for e in SHORTHAND_FORMS]


# ---------------------------------------------------------------- errors raised inside partials and inherited templates

ERROR_BODIES = {
    "div0": "{{ 1 | divided_by: 0 }}", "brk": "{% break %}", "cont": "x{% continue %}", "missing": "{% include 'nosuch/partial' %}",
    "rmissing": "{% render 'sub/none.liquid' %}", "notiter": "{% for i in 5 %}{% endfor %}", "syntax": "{% if %}", "lexerr": "{{ 'x }}",
    "nofilter": "{{ x | nosuchfilter }}", "badext": "{% extends 'nosuch/base' %}", "typeerr": "{{ 'a' | plus: nosuch | slice: 'z' }}",
    "argc": "{{ 1 | upcase: 1, 2 }}", "limit": "{% for i in (1..100000) %}{{ i }}{% endfor %}", "dupblock": "{% block b %}{% endblock %}{% block b %}{% endblock %}",
    "multi": "line1\nline2\n  {{ 1 | modulo: 0 }}\n", "eof": "{{",
}


def decoration_templates() -> tuple[dict[str, str], list[str]]:
    """(templates by name - names contain sub-directories -, entry names)."""
    t: dict[str, str] = {"sub/base.liquid": "B[{% block b %}base{% endblock %}]", "sub/deep/base2.liquid":
                         "{% extends 'sub/base.liquid' %}{% block b %}{{ block.super }}{% block c %}{% endblock %}{% endblock %}"}
    entries = []
    for k, body in ERROR_BODIES.items():
        t[f"sub/e_{k}.liquid"] = body
        t[f"sub/deep/b_{k}.liquid"] = "{% block b %}{% endblock %}\n" + body
        forms = {
            f"direct_{k}.liquid": body,
            f"inc_{k}.liquid": "a\n{% include 'sub/e_" + k + ".liquid' %}",
            f"ren_{k}.liquid": "a\n\n{% render 'sub/e_" + k + ".liquid' %}",
            f"top/for_inc_{k}.liquid": "{% for q in (1..2) %}{% include 'sub/e_" + k + ".liquid' %}{% endfor %}",
            f"top/child_{k}.liquid": "{% extends 'sub/base.liquid' %}{% block b %}\n{% include 'sub/e_" + k + ".liquid' %}{% endblock %}",
            f"top/child2_{k}.liquid": "{% extends 'sub/deep/base2.liquid' %}{% block c %}" + body + "{% endblock %}",
            f"top/childbase_{k}.liquid": "{% extends 'sub/deep/b_" + k + ".liquid' %}{% block b %}x{% endblock %}",
            f"top/macro_{k}.liquid": "{% macro m %}{% render 'sub/e_" + k + ".liquid' %}{% endmacro %}\n{% call m %}",
            f"top/capt_{k}.liquid": "{% capture c %}{% include 'sub/e_" + k + ".liquid' %}{% endcapture %}{{ c }}",
        }
        t.update(forms)
        entries += list(forms)
    return t, entries


# ---------------------------------------------------------------- `translations` bound to something else

TRANSLATION_SOURCES = ["{{ 'x' | t }}", "{{ 'x' | t: 'ctx' }}", "{{ 'x' | t: plural: 'xs', count: 2 }}", "{{ 'x' | gettext }}", "{{ 'x' | ngettext: 'y', 2 }}",
                       "{{ 'x' | pgettext: 'c' }}", "{{ 'x' | npgettext: 'c', 'y', 2 }}", "{% translate %}a{% endtranslate %}",
                       "{% translate count: 2 %}a{% plural %}b{% endtranslate %}", "{% translate context: 'c' %}a{% endtranslate %}",
                       "{% translate context: 'c', count: n %}a {{ n }}{% plural %}b{% endtranslate %}", "{{ 1.5 | decimal }}{{ 3 | currency }}{{ 'now' | datetime }}"]


def translation_cases() -> list[tuple[str, dict[str, Any]]]:
    vals = shaped_values()[:12] + [5, "s", [1], {}, {"gettext": 1}, None, True, object(), lambda m: m]
    out = []
    for src in TRANSLATION_SOURCES:
        for v in vals:
            out.append((src, {"translations": v, "n": 2}))
        for name in ("locale", "timezone", "currency_code", "datetime_format", "input_timezone", "unit_length"):
            for v in (5, [1], {}, "zz_ZZ", 10 ** 5000):
                out.append((src, {name: v}))
    return out


# ---------------------------------------------------------------- numeric literals whose VALUE is huge but whose text is short

def literal_cases(r: random.Random, tier: str) -> list[str]:
    mant = ["0", "-0", "000", "-000", "1", "-1", "5", "12", "0.0", "1.5", "-0.0", "00.00", "9" * 30]
    exps = ["e999999999", "E987654321", "e+99999999", "e-999999999", "e4301", "e4300", "e+4299", "e400", "e5000", "e99999", "E-0", "e00000000000000000001"]
    ctx = ["{{ L }}", "{% assign x = L %}{{ x }}", "{{ (L..2) }}", "{{ (1..L) }}", "{% for i in (L..L) %}{% endfor %}", "{{ 1 | plus: L }}",
           "{% if L == 0 %}t{% endif %}", "{% cycle L, 1 %}", "{{ a[L] }}", "{{ L | round }}", "{{ \"${ L }\" }}", "{% liquid assign y = L\n echo y %}",
           "{% case L %}{% when L %}{% endcase %}", "{{ x | default: L }}", "{% tablerow i in (1..2) cols: L %}{% endtablerow %}"]
    out = [c.replace("L", m + e) for m in mant for e in exps for c in ctx[:1]]
    pairs = [(m, e, c) for m in mant for e in exps for c in ctx[1:]]
    r.shuffle(pairs)
    out += [c.replace("L", m + e) for m, e, c in pairs[: (len(pairs) if tier == "thorough" else 150)]]
    # around the int->str digit limit: the VALUE has 4299..4302 digits, spelled with trailing / leading zeros and signs
    # in the mantissa; whatever passes the parser's digit count must survive str() wherever the value is printed
    printing = ["{{ L }}", "{% for x in (L..L) %}{{ forloop.name }}{% endfor %}", "{% for x in L %}{% endfor %}", "{% cycle 'a${L}', 1 %}",
                "{{ \"${L}\" }}", "{% assign y = L %}{{ y | json }}", "{% cycle L, 1 %}{% cycle L, 1 %}", "{{ (L..L) }}", "{{ (L..L) | json }}",
                "{% if 'a' contains L %}{% endif %}", "{{ 'x' | append: L }}", "{% for x in (1..2) limit: L %}{% endfor %}",
                "{% tablerow x in (L..L) %}{% endtablerow %}", "{{ L | times: 10 }}", "{% increment L %}" , "{{ a[L] }}", "{% liquid echo L %}"]
    bm = ["1", "10", "100", "1000", "-10", "-100", "-1000", "010", "0010", "-0100", "12", "120", "-1200", "9", "990", "99900", "1" + "0" * 40, "-7" + "0" * 9]
    core, more = [], []
    for m in bm:
        digits = m.lstrip("-")
        for total in (4299, 4300, 4301, 4302):
            for width in {len(digits), len(digits.lstrip("0"))}:
                lit = f"{m}e{total - width}"
                for c in printing:
                    (core if (m in ("10", "-100", "1000", "120", "010") and total >= 4300 and c in printing[:6]) else more).append(c.replace("L", lit))
    r.shuffle(more)
    out += core + more[: (len(more) if tier == "thorough" else 250)]
    out += ["{{ " + "9" * 5000 + " }}", "{{ " + "0" * 100000 + " }}", "{{ 1" + "0" * 10000 + ".5 }}", "{{ -" + "7" * 4301 + " }}", "{{ " + "7" * 4300 + " }}",
            "{{ 0." + "0" * 50000 + "1 }}", "{{ 1e" + "9" * 400 + " }}", "{{ 0e" + "9" * 400 + " }}", "{{ (0e999999999..0e999999999) }}"]
    return out


# ---------------------------------------------------------------- one cached template through both APIs

MIXED_TEMPLATES = {
    "main.liquid": "M[{% include 'sub/part.liquid' %}|{% render 'sub/part.liquid' %}]", "sub/part.liquid": "p{{ 1 | plus: 1 }}",
    "child.liquid": "{% extends 'sub/base.liquid' %}{% block b %}c{{ block.super }}{% include 'sub/part.liquid' %}{% endblock %}",
    "sub/base.liquid": "B{% block b %}b{% endblock %}", "err.liquid": "{% include 'sub/part.liquid' %}{{ 1 | divided_by: 0 }}",
    "miss.liquid": "{% include 'sub/nosuch.liquid' %}",
}
# operations: (how the template is obtained, how it is rendered, where the call is made)
MIXED_OPS = [("get_async", "render_async", "coroutine"), ("get", "render", "plain"), ("get", "render", "inside running loop"),
             ("get_async", "render", "inside running loop"), ("get", "render_async", "coroutine"), ("get_async", "render", "plain")]


def mixed_histories(r: random.Random, tier: str) -> list[list[tuple[str, tuple[str, str, str]]]]:
    names = ["main.liquid", "child.liquid", "err.liquid", "miss.liquid", "sub/part.liquid"]
    out = []
    # every ordered pair of operations on the same template, and on a partial then its includer
    for n in names:
        for a in MIXED_OPS:
            for b in MIXED_OPS:
                out.append([(n, a), (n, b)])
    for a in MIXED_OPS:
        for b in MIXED_OPS:
            out.append([("sub/part.liquid", a), ("main.liquid", b), ("child.liquid", a)])
    for _ in range(200 if tier == "thorough" else 30):
        out.append([(r.choice(names), r.choice(MIXED_OPS)) for _ in range(r.randint(3, 6))])
    return out
