"""Shared machinery of the /verif checks.

* Coq build (full .vo build through coq_makefile + make, under flock + timeout)
* audit (forbidden words, Print Assumptions, pinned theorem statements)
* the correspondence runner: cases.v + `Eval vm_compute`, sharded over cores
* evidence / VIOLATION / KNOWN-FINDING plumbing

Nothing here imports liquid2; the per-property runners do (from /repo's
working tree, PYTHONPATH is forced by ./check).
"""

from __future__ import annotations

import fcntl
import hashlib
import json
import os
import random
import re
import shlex
import shutil
import subprocess
import sys
import time
from concurrent.futures import ThreadPoolExecutor
from pathlib import Path
from typing import Any, Callable, Iterable, Sequence

VERIF = Path(__file__).resolve().parent.parent
COQ = VERIF / "coq"
THEORIES = COQ / "theories"
REPO = Path(os.environ.get("LIQUID2_REPO", "/repo"))
CASES_DIR = COQ / "_build_cases"
REPLAYS = VERIF / "replays"
EVIDENCE = VERIF / "evidence"
def _default_jobs() -> int:
    """All 16 cores on an idle machine; fewer when it is already loaded (many
    checks running side by side would otherwise exhaust memory)."""
    try:
        load = os.getloadavg()[0]
    except OSError:
        load = 0.0
    if load > 48:
        return 3
    if load > 24:
        return 6
    if load > 12:
        return 10
    return 16


JOBS = int(os.environ.get("VERIF_JOBS", "0")) or _default_jobs()

FORBIDDEN = re.compile(
    r"\b(Admitted|admit|Axiom|Axioms|Parameter|Parameters|Conjecture|Conjectures|"
    r"Admit\s+Obligations|bypass_check|native_compute)\b|Unset\s+Guard|"
    r"Unset\s+Positivity|Unset\s+Universe|type-in-type|impredicative-set"
)

# Axioms of the standard library a theorem may depend on (each named in DESIGN §8).
ALLOWED_AXIOMS: set[str] = set()


def seed() -> int:
    try:
        return int(os.environ.get("VERIF_SEED", "0"))
    except ValueError:
        return 0


def rng(*salt: object) -> random.Random:
    h = hashlib.sha256(repr((seed(),) + salt).encode()).digest()
    return random.Random(int.from_bytes(h[:8], "big"))


def sh(cmd: Sequence[str] | str, *, timeout: int = 600, cwd: Path | None = None,
       env: dict[str, str] | None = None) -> subprocess.CompletedProcess[str]:
    return subprocess.run(
        cmd, shell=isinstance(cmd, str), cwd=cwd, env=env, timeout=timeout,
        stdout=subprocess.PIPE, stderr=subprocess.STDOUT, text=True,
        errors="replace",
    )


# --------------------------------------------------------------------------
# Coq build


class Build:
    def __init__(self) -> None:
        self.ok_files: set[str] = set()
        self.failed: dict[str, str] = {}  # relative .v path -> error text
        self.log = ""
        self.wall = 0.0

    def built(self, rel: str) -> bool:
        vo = COQ / (rel[:-2] + ".vo")
        return rel not in self.failed and vo.exists()


def _v_files() -> list[str]:
    return sorted(str(p.relative_to(COQ)) for p in THEORIES.rglob("*.v"))


def coq_build(pre: Callable[[], None] | None = None,
              targets: Sequence[str] | None = None) -> Build:
    """Full .vo build (make -k, so that a broken proof file does not hide the
    state of the others) of `targets` (relative .v paths under coq/) and
    everything they depend on; of every theory file when targets is None."""
    b = Build()
    t0 = time.time()
    COQ.mkdir(exist_ok=True)
    lock = open(COQ / ".lock", "w")
    fcntl.flock(lock, fcntl.LOCK_EX)
    try:
        if pre:
            pre()
        files = _v_files()
        proj = (COQ / "_CoqProject").read_text().splitlines()
        proj = [l for l in proj if not l.strip().endswith(".v")]
        listing = "\n".join(proj + files) + "\n"
        lst = COQ / "_CoqProject.all"
        if not lst.exists() or lst.read_text() != listing or not (COQ / "Makefile").exists():
            lst.write_text(listing)
            r = sh(["coq_makefile", "-f", "_CoqProject.all", "-o", "Makefile"], cwd=COQ)
            b.log += r.stdout
        if targets is None:
            want = files
            goal = ""
        else:
            want = sorted({d for t in targets if (COQ / t).exists() for d in transitive_deps(t)})
            goal = " ".join(w[:-2] + ".vo" for w in want)
        # The global lock only protects the Makefile; the build itself takes a
        # lock per goal set, so checks of different properties do not queue
        # behind one long proof file.
        fcntl.flock(lock, fcntl.LOCK_UN)
        glock = open(COQ / (".lock." + hashlib.sha1(goal.encode()).hexdigest()[:12]), "w")
        fcntl.flock(glock, fcntl.LOCK_EX)
        try:
            r = sh(f"timeout 3000 make -k -j{JOBS} {goal} 2>&1", cwd=COQ, timeout=3100)
        finally:
            fcntl.flock(glock, fcntl.LOCK_UN)
            glock.close()
        b.log += r.stdout
        # which targets failed?
        for m in re.finditer(r"\*\*\* \[[^\]]*?:\s*(theories/\S+?)\.vo\] Error", r.stdout):
            b.failed[m.group(1) + ".v"] = ""
        for m in re.finditer(
            r'File "\./(theories/[^"]+\.v)", line (\d+), characters [^\n]*\n((?:.*\n){0,12}?)(?=File |make|COQC|\Z)',
            r.stdout,
        ):
            if "Error" in m.group(3):
                b.failed[m.group(1)] = f"line {m.group(2)}: " + m.group(3).strip()[:2000]
        for f in want:
            if f not in b.failed and (COQ / (f[:-2] + ".vo")).exists():
                b.ok_files.add(f)
            elif f not in b.failed:
                b.failed.setdefault(f, "not built (a dependency failed)")
    finally:
        fcntl.flock(lock, fcntl.LOCK_UN)
        lock.close()
    b.wall = time.time() - t0
    return b


def transitive_deps(rel: str) -> list[str]:
    """All theory files (relative to coq/) that `rel` depends on, by coqdep."""
    files = _v_files()
    r = sh(["coqdep", "-Q", "theories", "LQ"] + files, cwd=COQ)
    dep: dict[str, list[str]] = {}
    for line in r.stdout.splitlines():
        if ".vo" not in line or ":" not in line:
            continue
        lhs, rhs = line.split(":", 1)
        tgt = [t for t in lhs.split() if t.endswith(".vo")]
        if not tgt:
            continue
        key = tgt[0][:-3] + ".v"
        dep[key] = [d[:-3] + ".v" for d in rhs.split() if d.endswith(".vo") and d.startswith("theories/")]
    seen: list[str] = []
    todo = [rel]
    while todo:
        f = todo.pop()
        if f in seen:
            continue
        seen.append(f)
        todo += dep.get(f, [])
    return sorted(seen)


def forbidden_words(only: Sequence[str] | None = None) -> list[str]:
    hits = []
    paths = sorted(THEORIES.rglob("*.v")) if only is None else [COQ / f for f in only]
    for p in paths:
        if not p.exists():
            continue
        txt = p.read_text()
        # strip comments (non-nested is enough for an over-approximating grep:
        # we only *remove* text inside (* *), nested handled by a counter)
        out, depth, i = [], 0, 0
        while i < len(txt):
            if txt.startswith("(*", i):
                depth += 1
                i += 2
            elif txt.startswith("*)", i) and depth:
                depth -= 1
                i += 2
            else:
                if not depth:
                    out.append(txt[i])
                i += 1
        code = "".join(out)
        for n, line in enumerate(code.splitlines(), 1):
            if FORBIDDEN.search(line):
                hits.append(f"{p.relative_to(COQ)}: {line.strip()[:120]}")
    return hits


_THM = re.compile(r"^(Theorem|Lemma|Corollary|Example)\s+(\w+)\s*(.*?)\bProof\.", re.S | re.M)


def property_statements(prop: str) -> dict[str, str]:
    p = THEORIES / "Properties" / f"{prop}.v"
    txt = p.read_text()
    out = {}
    for m in _THM.finditer(txt):
        out[m.group(2)] = " ".join(m.group(3).split())
    return out


def audit_property(prop: str) -> dict[str, Any]:
    """Recompile Properties/<prop>.v alone to capture `Print Assumptions`,
    check the pinned statements and the forbidden-word list."""
    res: dict[str, Any] = {"theorems": {}, "problems": []}
    rel = f"theories/Properties/{prop}.v"
    r = sh(["timeout", "600", "coqc", "-Q", "theories", "LQ",
            "-w", "-notation-overridden,-deprecated-hint-without-locality,-deprecated-instance-without-locality",
            rel], cwd=COQ, timeout=700)
    if r.returncode != 0:
        res["problems"].append(f"coqc {rel} failed: {r.stdout[-1500:]}")
        return res
    out = r.stdout
    stmts = property_statements(prop)
    src = (THEORIES / "Properties" / f"{prop}.v").read_text()
    printed = re.findall(r"Print Assumptions\s+(\w+)\.", src)
    # split coqc output into one block per Print Assumptions, in order
    blocks = re.split(r"(?=Closed under the global context|Axioms:)", out)
    blocks = [b for b in blocks if b.startswith("Closed under") or b.startswith("Axioms:")]
    for name in stmts:
        if name not in printed:
            res["problems"].append(f"{prop}.{name}: no Print Assumptions")
    if len(blocks) != len(printed):
        res["problems"].append(
            f"{prop}: {len(printed)} Print Assumptions but {len(blocks)} answers")
    for name, blk in zip(printed, blocks):
        if blk.startswith("Closed under"):
            res["theorems"][name] = []
        else:
            ax = re.findall(r"^(\S+)\s*:", blk[len("Axioms:"):], re.M)
            res["theorems"][name] = ax
            bad = [a for a in ax if a not in ALLOWED_AXIOMS]
            if bad:
                res["problems"].append(f"{prop}.{name} depends on axioms {bad}")
    pinned_file = VERIF / "harness" / "statements.json"
    pinned = json.loads(pinned_file.read_text()).get(prop, {}) if pinned_file.exists() else {}
    for name, st in pinned.items():
        if name not in stmts:
            res["problems"].append(f"{prop}.{name}: pinned theorem missing")
        elif stmts[name] != st:
            res["problems"].append(f"{prop}.{name}: statement differs from the pinned one")
    for name in stmts:
        if name not in pinned:
            res["problems"].append(f"{prop}.{name}: statement not pinned (run ./check --pin)")
    # every theorem must be closed by `exact`
    for m in re.finditer(r"Proof\.(.*?)(Qed|Defined)\.", src, re.S):
        body = m.group(1).strip()
        if not re.fullmatch(r"(intros[^.;]*\.\s*)?exact\b[^;]*\.", body, re.S):
            res["problems"].append(f"{prop}: proof body is not a single exact/apply: {body[:60]!r}")
    return res


def pin_statements(only: Sequence[str] = ()) -> None:
    """Record the theorem statements of Properties/*.v (only the named ones when given)."""
    f = VERIF / "harness" / "statements.json"
    out = json.loads(f.read_text()) if (only and f.exists()) else {}
    for p in sorted((THEORIES / "Properties").glob("C*.v")):
        if not only or p.stem in only:
            out[p.stem] = property_statements(p.stem)
    (VERIF / "harness" / "statements.json").write_text(json.dumps(out, indent=1, sort_keys=True) + "\n")


# --------------------------------------------------------------------------
# Coq term printers


def cN(n: int) -> str:
    assert n >= 0
    return str(n)


def cZ(z: int) -> str:
    return f"({z})%Z"


def cnat(n: int) -> str:
    return f"{n}%nat"


def cbool(b: bool) -> str:
    return "true" if b else "false"


def cstr(s: str) -> str:
    if not s:
        return "([]:str)"
    return "[" + ";".join(str(ord(c)) for c in s) + "]"


def clist(xs: Iterable[str], ty: str | None = None) -> str:
    xs = list(xs)
    if not xs:
        return f"([]:list {ty})" if ty else "[]"
    return "[" + "; ".join(xs) + "]"


def copt(x: str | None, ty: str | None = None) -> str:
    if x is None:
        return f"(None:option {ty})" if ty else "None"
    return f"(Some {x})"


def cpair(a: str, b: str) -> str:
    return f"({a}, {b})"


# --------------------------------------------------------------------------
# Correspondence runner

CASE_HEADER = """From LQ Require Import Base.Str.
{imports}
Local Open Scope N_scope.
Local Open Scope list_scope.
{defs}
"""


def _coqc_cases(path: Path) -> tuple[int, str]:
    # large literal terms need a deep stack in coqc's parser / printer: lift the soft limit
    # (a shard must evaluate whatever VERIF_JOBS makes its size)
    cmd = ("ulimit -s unlimited 2>/dev/null || ulimit -s $(ulimit -H -s) 2>/dev/null; "
           "exec timeout 900 coqc -Q theories LQ -w none " + shlex.quote(str(path.relative_to(COQ))))
    r = sh(["bash", "-c", cmd], cwd=COQ, timeout=1000)
    return r.returncode, r.stdout


def run_cases(tag: str, imports: str, defs: str, cases: Sequence[str],
              *, shard: int = 250, flagged: bool = False) -> dict[str, Any]:
    """Each case is a Coq term of type bool that is `true` iff the model agrees
    with the implementation outcome embedded in it (with flagged=True: a pair
    (agrees, flag) : bool * bool; the cases whose flag is true are returned in
    "flag" - used for "outside the model" accounting). Returns the indexes of
    the cases that evaluate to false (and build errors, which are harness bugs)."""
    d = CASES_DIR / f"{tag}_{os.getpid()}"      # per process: concurrent runs of one check must not collide
    if d.exists():
        shutil.rmtree(d)
    d.mkdir(parents=True)
    files = []
    for si in range(0, len(cases), shard):
        chunk = cases[si:si + shard]
        body = [CASE_HEADER.format(imports=imports, defs=defs)]
        # indexes are binary N numerals (a `%nat` literal is unary: quadratic)
        if flagged:
            body.append("Definition cases0 : list (N * (bool * bool)) := [")
        else:
            body.append("Definition cases : list (N * bool) := [")
        body.append(";\n".join(f"({si + j}%N, {c})" for j, c in enumerate(chunk)))
        body.append("].")
        if flagged:
            body.append("Definition cases1 := Eval vm_compute in cases0.")
            body.append("Definition cases := map (fun p => (fst p, fst (snd p))) cases1.")
            body.append("Eval vm_compute in (map fst (filter (fun p => negb (snd p)) cases)).")
            body.append("Eval vm_compute in (map fst (filter (fun p => snd (snd p)) cases1)).")
        else:
            body.append("Eval vm_compute in (map fst (filter (fun p => negb (snd p)) cases)).")
        f = d / f"s{si // shard:04d}.v"
        f.write_text("\n".join(body) + "\n")
        files.append(f)
    t0 = time.time()
    bad: list[int] = []
    flag: list[int] = []
    errors: list[str] = []
    with ThreadPoolExecutor(max_workers=JOBS) as ex:
        for f, (rc, out) in zip(files, ex.map(_coqc_cases, files)):
            if rc != 0:
                errors.append(f"{f.name}: {out[-800:]}")
                continue
            ms = re.findall(r"=\s*(\[[^\]]*\]|nil)\s*:\s*list N", out, re.S)
            if len(ms) != (2 if flagged else 1):
                errors.append(f"{f.name}: unparsed output {out[-300:]}")
                continue
            bad += [int(x) for x in re.findall(r"\d+", ms[0])]
            if flagged:
                flag += [int(x) for x in re.findall(r"\d+", ms[1])]
    if not errors:
        shutil.rmtree(d, ignore_errors=True)
    return {"n": len(cases), "bad": sorted(bad), "flag": sorted(flag), "errors": errors,
            "wall": time.time() - t0}


def eval_terms(tag: str, imports: str, defs: str, terms: Sequence[str]) -> list[str]:
    """Evaluate terms with vm_compute and return Coq's printed answers (for
    replays of disagreeing cases)."""
    d = CASES_DIR / f"{tag}_eval_{os.getpid()}"
    if d.exists():
        shutil.rmtree(d)
    d.mkdir(parents=True)
    body = [CASE_HEADER.format(imports=imports, defs=defs)]
    for i, t in enumerate(terms):
        body.append(f'Eval vm_compute in ({i}%nat, ({t})).')
    f = d / "e.v"
    f.write_text("\n".join(body) + "\n")
    rc, out = _coqc_cases(f)
    shutil.rmtree(d, ignore_errors=True)
    if rc != 0:
        return [f"<coqc failed: {out[-500:]}>"] * len(terms)
    parts = re.split(r"^\s*=\s*", out, flags=re.M)[1:]
    parts = [" ".join(p.split()) for p in parts]
    return parts + ["<missing>"] * (len(terms) - len(parts))


# --------------------------------------------------------------------------
# Findings, violations, evidence


def known_findings(prop: str) -> list[dict[str, Any]]:
    """known_findings.json plus known_findings.d/*.json (same format), committed
    by hand, never written at run time."""
    out: list[dict[str, Any]] = []
    files = [VERIF / "known_findings.json"] + sorted((VERIF / "known_findings.d").glob("*.json"))
    for f in files:
        if f.exists():
            out += [e for e in json.loads(f.read_text())["findings"]
                    if e["property"] == prop and e["status"] == "known"]
    return out


class Check:
    """One run of one property's check."""

    def __init__(self, prop: str, tier: str) -> None:
        self.prop = prop
        self.tier = tier
        self.t0 = time.time()
        self.violations: list[str] = []
        self.known_seen: dict[str, str] = {}
        self.known = {e["signature"]: e for e in known_findings(prop)}
        self.coverage: dict[str, Any] = {
            "evaluations": 0, "distinct_nontrivial": 0, "rule": "", "samples": [],
            "obligations": 0, "discharged": 0, "checker_cmd": "", "trusted_base": [],
        }
        self.assumptions: list[str] = []
        self.notes: list[str] = []
        self._replay_n = 0
        REPLAYS.mkdir(exist_ok=True)
        # Replays of the registered run (default seed, /repo) are named <id>_<tier>_<n>.json
        # and the ones of an earlier such run are removed first, so a file that is there
        # after a run was written by it.  Runs with another seed or tree carry the process
        # id, so that concurrent runs do not overwrite each other's replays.
        default_run = "VERIF_SEED" not in os.environ and os.environ.get("LIQUID2_REPO", "/repo") == "/repo"
        self._replay_prefix = f"{prop}_{tier}_" if default_run else f"{prop}_{tier}_p{os.getpid()}_"
        now = time.time()
        for f in REPLAYS.glob(f"{prop}_{tier}_*.json"):
            try:
                own = default_run and re.fullmatch(rf"{prop}_{tier}_\d+\.json", f.name)
                if own or now - f.stat().st_mtime > 86400:
                    f.unlink()
            except OSError:
                pass
        EVIDENCE.mkdir(exist_ok=True)

    # -- reporting
    def finding(self, signature: str, what: str, replay: dict[str, Any],
                no_input: bool = False) -> None:
        """A property failure observed on the implementation (or a broken
        obligation). Known signatures print KNOWN-FINDING once; anything else
        is a VIOLATION."""
        if signature in self.known:
            if signature not in self.known_seen:
                self.known_seen[signature] = what
            return
        if len(self.violations) >= 5:
            self.violations.append("")
            return
        self._replay_n += 1
        path = REPLAYS / f"{self._replay_prefix}{self._replay_n}.json"
        replay = dict(replay)
        replay.update({"property": self.prop, "signature": signature, "what": what,
                       "seed": seed(), "tier": self.tier})
        path.write_text(json.dumps(replay, indent=1, default=str) + "\n")
        line = f"VIOLATION property={self.prop} replay={path}"
        if no_input:
            line += " no-failing-input-found"
        self.violations.append(line)

    def finish(self) -> int:
        for sig, what in self.known_seen.items():
            print(f"KNOWN-FINDING: property={self.prop} {sig}: {what}")
        for line in self.violations:
            if line:
                print(line)
        ev = {
            "property_id": self.prop,
            "tier": self.tier,
            "seed": seed(),
            "level": "proof",
            "coverage": self.coverage,
            "assumptions": self.assumptions,
            "wall_s": round(time.time() - self.t0, 2),
            "violations": len(self.violations),
            "known_findings_observed": sorted(self.known_seen),
            "notes": self.notes,
        }
        (EVIDENCE / f"{self.prop}.json").write_text(json.dumps(ev, indent=1, default=str) + "\n")
        sys.stdout.flush()
        return 1 if self.violations else 0


TRUSTED_BASE_COMMON = [
    "Coq 8.16.1 kernel (coqc), including its vm_compute evaluator; no native_compute",
    "correspondence harness in /verif/harness (generators, canonicalisation, comparison)",
    "CPython 3.12 and the libraries liquid2 calls are modelled, not verified",
]


def proof_stage(chk: Check, build: Build, needed: Sequence[str]) -> bool:
    """Record the proof obligations of a property. Returns False (after
    noting what broke) when an obligation no longer checks."""
    prop = chk.prop
    rel = f"theories/Properties/{prop}.v"
    chk.coverage["checker_cmd"] = (
        f"cd /verif/coq && coq_makefile -f _CoqProject.all -o Makefile && make -k -j{JOBS}"
        f" && coqc -Q theories LQ {rel}  (Print Assumptions under every theorem)")
    chk.coverage["trusted_base"] = list(TRUSTED_BASE_COMMON)
    stmts = property_statements(prop) if (COQ / rel).exists() else {}
    chk.coverage["obligations"] = len(stmts)
    chk.coverage["theorems"] = sorted(stmts)
    deps = transitive_deps(rel) if (COQ / rel).exists() else []
    needed = sorted(set(needed) | set(deps))
    chk.coverage["coq_files"] = needed
    broken = [f for f in needed + [rel] if not build.built(f)]
    fw = forbidden_words(needed)
    if fw:
        broken.append("forbidden words: " + "; ".join(fw[:5]))
    audit: dict[str, Any] = {"theorems": {}, "problems": []}
    if not broken:
        audit = audit_property(prop)
        broken += audit["problems"]
    chk.coverage["assumptions_per_theorem"] = audit["theorems"]
    if not broken and chk.tier == "thorough" and os.environ.get("VERIF_COQCHK", "1") != "0":
        # independent re-check of the compiled property file and everything it
        # depends on, with the list of axioms of every loaded library
        r = sh(["timeout", "1500", "coqchk", "-silent", "-o", "-Q", "theories", "LQ", f"LQ.Properties.{prop}"],
               cwd=COQ, timeout=1600)
        tail = r.stdout[-3000:]
        chk.coverage["coqchk"] = {"rc": r.returncode, "summary": tail[tail.find("CONTEXT SUMMARY"):][:2500] if "CONTEXT SUMMARY" in tail else tail[-800:]}
        if r.returncode != 0:
            broken.append("coqchk failed: " + tail[-400:])
    chk.coverage["discharged"] = 0 if broken else len(stmts)
    chk.coverage["broken_obligations"] = [
        (b + ": " + build.failed.get(b, ""))[:600] for b in broken]
    return not broken


def correspond(chk: Check, tag: str, imports: str, defs: str,
               items: Sequence[dict[str, Any]], *, what: str, shard: int = 250,
               flagged: bool = False) -> dict[str, Any]:
    """Run the model on the cases and report disagreements.

    items: dicts with
      "case"   Coq term : bool, true iff model outcome == implementation outcome
      "model"  Coq term printed with vm_compute into the replay of a disagreement
      "replay" JSON-able description of the input and the implementation outcome
    A disagreement by itself is reported as a VIOLATION ending in
    no-failing-input-found (the direct oracle of the caller has had its chance
    before: call this after the oracle loop), unless an oracle violation was
    already filed in this run."""
    rc = run_cases(tag, imports, defs, [it["case"] for it in items], shard=shard, flagged=flagged)
    if flagged:
        chk.coverage["outside_model_cases"] = chk.coverage.get("outside_model_cases", 0) + len(rc["flag"])
    for e in rc["errors"]:
        chk.notes.append("coq case error: " + e[:400])
    if rc["bad"]:
        idx = rc["bad"][:3]
        outs = eval_terms(tag, imports, defs, [items[i]["model"] for i in idx])
        for i, o in zip(idx, outs):
            chk.notes.append(f"{what}: model/implementation disagree on case #{i}: {json.dumps(items[i]['replay'], default=str)[:300]} model={o[:300]}")
        if not chk.violations:
            i, o = idx[0], outs[0]
            chk.finding("correspondence:" + what,
                        f"model and implementation disagree ({len(rc['bad'])} of {rc['n']} cases); no direct property failure found",
                        {"case": items[i]["replay"], "model": o, "broken": f"correspondence {what}",
                         "disagreeing_cases": rc["bad"][:50]}, no_input=True)
    elif rc["errors"] and not chk.violations:
        chk.finding("correspondence:" + what + ":build", "generated case files did not evaluate",
                    {"errors": rc["errors"][:3], "broken": f"correspondence {what} (coqc on generated cases)"},
                    no_input=True)
    chk.coverage["model_cases"] = chk.coverage.get("model_cases", 0) + rc["n"]
    chk.coverage["model_disagreements"] = chk.coverage.get("model_disagreements", 0) + len(rc["bad"])
    chk.coverage.setdefault("correspondence_wall_s", {})[what] = round(rc["wall"], 1)
    return rc


def proofs_verdict(chk: Check, proofs_ok: bool) -> None:
    """Call last: a broken proof obligation with no failing input found."""
    if not proofs_ok and not chk.violations:
        chk.finding("proof:" + chk.prop, "a proof obligation no longer checks",
                    {"broken": chk.coverage.get("broken_obligations")}, no_input=True)
