"""C19 — built-in filters obey their defining laws.

Tie: per filter, argument tuples of the documented types are applied to the
real filter twice -- through `RenderContext.filter(name)(left, *args)` (the
callable a render uses, with its context/environment keywords bound) and
through `render('{{ x | f: a0, a1 | cap19 }}')` (parser, argument evaluation,
exception translation of `Filter.evaluate`: TypeError, ValueError and ArithmeticError
become LiquidTypeError; `cap19` is a harness filter that
records the value it receives) -- and the Coq models
Kernels/FiltersSeq.v, FiltersStr.v, FiltersNum.v are evaluated on the same
arguments with vm_compute; outcomes (value with its Python types, or error
class) must be equal.  A computed float is compared through the exact
rounding interval of the binary64 result (the model returns an exact decimal).
Lambda forms exist only in templates and are tied through the render path.

Oracle (failing-input search, independent of the model): the laws themselves
evaluated on the implementation's results, relating several filters to each
other.
"""

from __future__ import annotations

import copy
import math
import re
import warnings
from collections import ChainMap, Counter, UserDict, UserList
from collections.abc import Mapping, Sequence
from decimal import Decimal
from fractions import Fraction
from types import MappingProxyType
from typing import Any, Callable

from . import common as C

IMPORTS = "From LQ Require Import Kernels.FVal Kernels.FiltersNum Kernels.FiltersSeq Kernels.FiltersStr."
NEEDED = [
    "theories/Base/Str.v", "theories/Kernels/FVal.v", "theories/Kernels/FiltersNum.v",
    "theories/Kernels/FiltersSeq.v", "theories/Kernels/FiltersStr.v",
    "theories/Proofs/FiltersSeq_proofs.v", "theories/Proofs/FiltersStr_proofs.v",
    "theories/Proofs/FiltersNum_proofs.v",
]

LCLASSES = {
    "LiquidSyntaxError", "LiquidTypeError", "LiquidNameError", "LiquidValueError", "UndefinedError",
    "TemplateNotFoundError", "TemplateInheritanceError", "RequiredBlockError", "DisabledTagError",
    "TranslationSyntaxError", "ResourceLimitError", "ContextDepthError", "LoopIterationLimitError",
    "OutputStreamLimitError", "LocalNamespaceLimitError", "UnknownFilterError", "LiquidIndexError",
}
PYKINDS = ["UnicodeError", "IndexError", "KeyError", "TypeError", "OverflowError", "ZeroDivisionError",
           "AssertionError", "OSError", "AttributeError", "RecursionError", "ValueError"]

MAX_CH = chr(0x10FFFF)


# ------------------------------------------------------------------ Coq terms


def float_dec(f: float) -> tuple[int, int]:
    """The decimal repr(f) prints, as (m, e)."""
    t = Decimal(repr(f)).as_tuple()
    m = int("".join(map(str, t.digits)) or "0")
    return (-m if t.sign else m, int(t.exponent))


def cv(v: Any) -> str:
    """Python value -> Coq term of type fval."""
    if v is None:
        return "FNil"
    if v is True:
        return "(FBool true)"
    if v is False:
        return "(FBool false)"
    if isinstance(v, int):
        return f"(FInt {C.cZ(v)})"
    if isinstance(v, float):
        m, e = float_dec(v)
        return f"(FDec {C.cZ(m)} {C.cZ(e)})"
    if isinstance(v, str):
        return f"(FStr {C.cstr(v)})"
    if isinstance(v, (list, tuple)):
        return "(FList " + C.clist(map(cv, v), "fval") + ")"
    if isinstance(v, dict):
        return "(FDict " + C.clist((C.cpair(C.cstr(k), cv(x)) for k, x in v.items()), "(str * fval)") + ")"
    raise TypeError(f"no model value for {type(v).__name__}")


def copt(v: Any, given: bool) -> str:
    return f"(Some {cv(v)})" if given else "(None : option fval)"


def frac_dec(q: Fraction) -> tuple[int, int]:
    """A dyadic rational as an exact decimal (m, e)."""
    d = q.denominator
    k = d.bit_length() - 1
    assert d == 1 << k
    return (q.numerator * 5 ** k, -k)


def float_interval(f: float) -> tuple[tuple[int, int], tuple[int, int], bool]:
    lo = (Fraction(math.nextafter(f, -math.inf)) + Fraction(f)) / 2
    hi = (Fraction(math.nextafter(f, math.inf)) + Fraction(f)) / 2
    mant = int(math.frexp(f)[0] * (1 << 53))
    return frac_dec(lo), frac_dec(hi), mant % 2 == 0


def c_outcome(o: tuple) -> str:
    if o[0] == "ok":
        return f"(Ok {cv(o[1])})"
    if o[0] == "lerr":
        return f"(LErr {o[1]} None)"
    return f"(PyExc {o[1]})"


def c_case(model: str, o: tuple, via_render: bool) -> str:
    m = f"(as_rendered ({model}))" if via_render else f"({model})"
    if o[0] == "ok" and isinstance(o[1], float) and o[1] != 0.0 and math.isfinite(o[1]):
        lo, hi, incl = float_interval(o[1])
        return (f"(float_matches {m} ({C.cZ(lo[0])}, {C.cZ(lo[1])}) ({C.cZ(hi[0])}, {C.cZ(hi[1])}) "
                f"{C.cbool(incl)})")
    try:
        return f"(rfval_eqb {m} {c_outcome(o)})"
    except TypeError:
        # a result outside the model's value universe equals no model outcome
        return "false"


# ------------------------------------------------------------------ running the implementation


def canon(v: Any) -> Any:
    """Plain data: every Mapping a dict, every non-string Sequence (tuple, range, UserList ...) a list."""
    if isinstance(v, str):
        return v if type(v) is str else str(v)
    if isinstance(v, Mapping):
        return {k: canon(x) for k, x in v.items()}
    if isinstance(v, Sequence):
        return [canon(x) for x in v]
    return v


class HMap(Mapping):                      # a user Mapping that is not a dict
    def __init__(self, d: dict) -> None:
        self._d = d

    def __getitem__(self, k: Any) -> Any:
        return self._d[k]

    def __iter__(self) -> Any:
        return iter(self._d)

    def __len__(self) -> int:
        return len(self._d)

    def __repr__(self) -> str:
        return f"HMap({self._d!r})"


class HSeq(Sequence):                     # a user Sequence that is not a list
    def __init__(self, l: list) -> None:
        self._l = list(l)

    def __getitem__(self, i: Any) -> Any:
        return HSeq(self._l[i]) if isinstance(i, slice) else self._l[i]

    def __len__(self) -> int:
        return len(self._l)

    def __repr__(self) -> str:
        return f"HSeq({self._l!r})"


MAP_KINDS: dict[str, Callable[[dict], Any]] = {
    "mappingproxy": MappingProxyType, "chainmap": ChainMap, "userdict": UserDict, "mapping": HMap}
SEQ_KINDS = ["tuple", "userlist", "sequence", "range", "list"]


def embed(left: Any, mk: str, sk: str) -> Any:
    """The same hash / array as other Python types: hashes (the left value, or the
    items of the array at any nesting) as non-dict Mappings, the array as a non-list Sequence,
    nested arrays as tuples (the only other type _flatten flattens)."""
    def item(v: Any) -> Any:
        if isinstance(v, dict):
            return MAP_KINDS[mk](v)
        if isinstance(v, list):
            return tuple(item(x) for x in v)
        return v
    if isinstance(left, dict):
        return MAP_KINDS[mk](left)
    if isinstance(left, list):
        if sk == "range" and left and all(type(x) is int for x in left) and \
                left == list(range(left[0], left[0] + len(left))):
            return range(left[0], left[0] + len(left))
        its = [item(v) for v in left]
        return {"tuple": tuple, "userlist": UserList, "sequence": HSeq}.get(sk, list)(its)
    return left


def has_containers(v: Any) -> bool:
    return isinstance(v, (dict, list))


def classify_exc(e: BaseException) -> tuple:
    import decimal
    from liquid2.exceptions import LiquidError
    if isinstance(e, LiquidError):
        n = type(e).__name__
        return ("lerr", n if n in LCLASSES else "OtherLiquidError")
    if isinstance(e, decimal.InvalidOperation):
        return ("pyexc", "DecimalInvalidOperation")
    for k in PYKINDS:
        if any(c.__name__ == k for c in type(e).__mro__):
            return ("pyexc", k)
    return ("pyexc", "OtherPyError")


def same(a: Any, b: Any) -> bool:
    """Equality that keeps bool / int / float / str apart, recursively."""
    if type(a) is not type(b):
        return False
    if isinstance(a, list):
        return len(a) == len(b) and all(same(x, y) for x, y in zip(a, b))
    if isinstance(a, dict):
        return list(a) == list(b) and all(same(a[k], b[k]) for k in a)
    if isinstance(a, float):
        return a == b or (a != a and b != b)
    return a == b


def same_outcome(a: tuple, b: tuple) -> bool:
    return a[0] == b[0] and (same(a[1], b[1]) if a[0] == "ok" else a[1] == b[1])


class Impl:
    """The two ways a filter is reached."""

    def __init__(self) -> None:
        from liquid2 import Environment, RenderContext
        from liquid2.shopify import Environment as ShopifyEnvironment
        self.captured: list[Any] = []

        def cap19(left: Any) -> str:
            self.captured.append(left)
            return ""

        self.env = ShopifyEnvironment()
        self.env.filters["cap19"] = cap19
        from liquid2 import StrictUndefined
        self.strict_env = ShopifyEnvironment(undefined=StrictUndefined)   # the undefined-policy axis
        self.strict_env.filters["cap19"] = cap19
        self.ctx = RenderContext(self.env.from_string(""))
        self.templates: dict[Any, Any] = {}
        self.plain = Environment()
        self.calls = 0

    def direct(self, name: str, left: Any, args: tuple) -> tuple:
        self.calls += 1
        try:
            f = self.ctx.filter(name, token=None)
            return ("ok", canon(f(left, *args)))
        except Exception as e:  # noqa: BLE001
            return classify_exc(e)

    def render(self, src: str, data: dict[str, Any], strict: bool = False) -> tuple:
        self.calls += 1
        self.captured.clear()
        try:
            t = self.templates.get((src, strict))
            if t is None:
                t = self.templates[(src, strict)] = (self.strict_env if strict else self.env).from_string(src)
            t.render(**data)
        except Exception as e:  # noqa: BLE001
            return classify_exc(e)
        if len(self.captured) != 1:
            return ("pyexc", "OtherPyError")
        return ("ok", canon(self.captured[0]))

    def call(self, name: str, left: Any, *args: Any) -> Any:
        """Filter result or the exception (for the oracle)."""
        f = self.ctx.filter(name, token=None)
        return f(left, *args)


def render_src(name: str, nargs: int) -> str:
    a = ", ".join(f"a{i}" for i in range(nargs))
    return "{{ x | " + name + (": " + a if nargs else "") + " | cap19 }}"


def lam_src(name: str, key: str, with_value: bool) -> str:
    body = f"i => i.{key} == v" if with_value else f"i => i.{key}"
    return "{{ x | " + name + ": " + body + " | cap19 }}"


def to_render(o: tuple) -> tuple:
    """What Filter.evaluate makes of a direct-call outcome."""
    converted = ("TypeError", "ValueError", "UnicodeError", "OverflowError", "ZeroDivisionError",
                 "DecimalInvalidOperation")
    return ("lerr", "LiquidTypeError") if o[0] == "pyexc" and o[1] in converted else o


# ------------------------------------------------------------------ generators


def fresh(v: Any) -> Any:
    """An equal value that is a different object where CPython allows it
    (so that an `is` comparison in a filter shows)."""
    if isinstance(v, bool) or v is None:
        return v
    if isinstance(v, int):
        return int(str(v))
    if isinstance(v, float):
        return float(repr(v))
    if isinstance(v, str):
        return "".join(list(v))
    if isinstance(v, list):
        return [fresh(x) for x in v]
    if isinstance(v, dict):
        return {fresh(k): fresh(x) for k, x in v.items()}
    return v


STRS = ["", "a", "b", "A", "B", "ab", "aB", "Ab", "b a", "é", "日本", "z10", "z9", "10", "9", "-3", " 7",
        "x-2y", "a1b22", "1.5", "𝒳", MAX_CH, "ß", "a,b", ",", "Zz", "zz"]
INTS = [0, 1, -1, 2, 3, 10, -7, 255, 10 ** 20, -(10 ** 20), 10 ** 60 - 1, -(10 ** 60) + 1, 2 ** 63]
NONDYADIC = [0.1, 0.2, 0.7, 1.1, 2.675, 1e-07, -0.1, -0.3, -1.1, 0.3, 1.005, 33.33, -2.675, 0.6, 1e-05]
FLOATS = [0.5, 1.0, -1.5, 2.5, 0.0, 100.0, 1e20, 0.1, 3.25] + NONDYADIC
KEYS = ["k", "n", "t"]


def ascii_case_ok(s: str) -> bool:
    """Python's case mapping of s is the ASCII one."""
    lo = "".join(chr(ord(c) + 32) if "A" <= c <= "Z" else c for c in s)
    up = "".join(chr(ord(c) - 32) if "a" <= c <= "z" else c for c in s)
    cap = (up[:1] + lo[1:]) if s else s
    return s.lower() == lo and s.upper() == up and s.capitalize() == cap


def ascii_digits_only(s: str) -> bool:
    return all(c.isascii() or not re.fullmatch(r"\d", c) for c in s)


class Gen:
    def __init__(self, r: Any) -> None:
        self.r = r

    def pick(self, xs: list) -> Any:
        return xs[self.r.randrange(len(xs))]

    def ustr(self, n: int | None = None) -> str:
        r = self.r
        if n is None:
            n = r.choice([0, 1, 1, 2, 3, 5, 8])
        alpha = "abAB z,.-_~ \t\n&<>'\"%+=é日𝒳ß/\\"
        return "".join(r.choice(alpha) for _ in range(n))

    def scalar(self, kind: str) -> Any:
        r = self.r
        if kind == "int":
            return self.pick(INTS) if r.random() < 0.7 else r.randint(-5, 5)
        if kind == "str":
            return self.pick(STRS)
        if kind == "num":
            return self.pick([self.pick(INTS), r.randint(-3, 3), self.pick(FLOATS), True, False])
        if kind == "numstr":
            return self.pick(["10", "9", "-3", " 7", "1.5", "2", "0", "x", "", "1e2", "1_0"])
        if kind == "strint":      # strings and ints (no float / dict: str() is applied)
            return self.pick([self.pick(STRS), self.pick(INTS), r.randint(-3, 12)])
        # any
        return self.pick([None, True, False, self.pick(INTS), r.randint(-2, 3), self.pick(STRS),
                          self.pick(STRS), self.pick(FLOATS)])

    def hashes(self, n: int, kind: str, *, missing: float = 0.25, nils: float = 0.1) -> list:
        """n hashes whose property k (and n, t) holds values of `kind`, with
        duplicates, missing keys and nils; 'id' makes equal-keyed items differ."""
        r = self.r
        pool = [self.scalar(kind) for _ in range(max(1, n // 2 + 1))]
        out = []
        for i in range(n):
            d: dict[str, Any] = {}
            for k in KEYS:
                u = r.random()
                if u < missing:
                    continue
                d[k] = None if u < missing + nils else fresh(self.pick(pool))
            d["id"] = i
            if r.random() < 0.15:
                d = {k: d[k] for k in reversed(list(d))}
            out.append(d)
        return out

    def array(self, kind: str | None = None) -> Any:
        """A left value for a sequence filter."""
        r = self.r
        kind = kind or self.pick(["int", "str", "num", "any", "hash-int", "hash-str", "hash-num", "hash-any",
                                  "nested", "mixed", "string", "dict", "scalar", "numstr", "strint",
                                  "hash-strint"])
        n = r.choice([0, 1, 2, 2, 3, 4, 5, 7])
        if kind.startswith("hash-"):
            xs = self.hashes(n, kind[5:])
            if r.random() < 0.15 and xs:
                xs.insert(r.randrange(len(xs) + 1), self.scalar("any"))
            return xs
        if kind in ("int", "str", "num", "any", "numstr", "strint"):
            pool = [self.scalar(kind) for _ in range(max(1, n // 2 + 1))]
            return [fresh(self.pick(pool)) for _ in range(n)]
        if kind == "nested":
            def nest(d: int) -> Any:
                if d == 0 or r.random() < 0.3:
                    return self.scalar(self.pick(["int", "str"]))
                return [nest(d - 1) for _ in range(r.choice([0, 1, 2, 3]))]
            return [nest(r.choice([1, 2, 3, 7])) for _ in range(n)]
        if kind == "mixed":
            return [self.pick([self.scalar("any"), self.hashes(1, "any")[0], [self.scalar("int")]])
                    for _ in range(n)]
        if kind == "string":
            return self.pick(STRS)
        if kind == "dict":
            return self.hashes(1, "any")[0]
        return self.scalar("any")


# what a model call is: (filter name, left, args, model term or None for "same as key form").
# A case for the correspondence run:
#   {"name", "left", "args", "model", "lambda": None | (key, with_value, value)}


def in_str_domain(v: Any) -> bool:
    """to_liquid_string / str() of v is modelled."""
    if isinstance(v, float) or isinstance(v, dict):
        return False
    if isinstance(v, (list, tuple)):
        return all(in_str_domain(x) for x in v)
    return True


def flat(v: Any, level: int = 5) -> list:
    out = []
    for o in v:
        if level and isinstance(o, (list, tuple)):
            out += flat(o, level - 1)
        else:
            out.append(o)
    return out


def seq_of(left: Any) -> list:
    if isinstance(left, str):
        return list(left)
    if isinstance(left, (list, tuple)):
        return flat(left)
    return [left]


def key_vals(items: list, key: Any) -> list:
    return [i.get(key) if isinstance(i, dict) else None for i in items]


def seq_model(name: str, left: Any, args: tuple) -> str | None:
    """Model term of a string-property / plain form, None when the call is
    outside the modelled domain (never generated on purpose; counted)."""
    x = cv(left)
    items = seq_of(left)
    a = [cv(v) for v in args]
    if any(isinstance(v, float) for v in args[:1]):
        return None
    if name in ("sort", "sort_natural", "sort_numeric"):
        key = args[0] if args else None
        vals = key_vals(items, str(key)) if key else items
        if name == "sort" and len(items) >= 2 and any(isinstance(v, (list, tuple)) for v in vals):
            return None
        if key and not in_str_domain(key):
            return None
        if name == "sort_natural":
            if not all(in_str_domain(v) and not isinstance(v, (list, tuple)) and ascii_case_ok(str(v)) for v in vals):
                return None
        if name == "sort_numeric":
            if not all(isinstance(v, float) or (in_str_domain(v) and not isinstance(v, (list, tuple))
                                                and ascii_digits_only(str(v))) for v in vals):
                return None
        return f"{name}_key {x} {a[0]}" if args else f"{name}_nokey {x}"
    if name in ("uniq", "compact", "sum"):
        if args and args[0] is not None:
            return f"{name}_key {x} {a[0]}"
        return f"{name}_nokey {x}"
    if name in ("where", "reject", "find", "find_index", "has"):
        return f"{name}_key {x} {a[0]} {a[1] if len(a) > 1 else 'FNil'}"
    if name == "map":
        if not in_str_domain(args[0]):
            return None
        return f"map_key {x} {a[0]}"
    if name in ("first", "last", "reverse"):
        return f"{name}_f {x}"
    if name == "concat":
        return f"concat_f {x} {a[0]}"
    if name == "join":
        if not all(in_str_domain(i) for i in items) or (args and not in_str_domain(args[0])):
            return None
        return f"join_f {x} {copt(args[0] if args else None, bool(args))}"
    if name == "slice":
        if not isinstance(left, (str, list, tuple)) and (not in_str_domain(left) or isinstance(left, dict)):
            return None
        return f"slice_f {x} {a[0]} {copt(args[1] if len(args) > 1 else None, len(args) > 1)}"
    if name == "split":
        if not in_str_domain(left) or not in_str_domain(args[0]):
            return None
        return f"split_f {x} {a[0]}"
    raise KeyError(name)


def lam_model(name: str, left: Any, key: str, with_value: bool, value: Any) -> str:
    k = C.cstr(key)
    if with_value:
        f = (f"(fun i => Some (FBool (liq_eq (match path_get i {k} with Some u => u | None => FNil end) "
             f"{cv(value)})))")
    else:
        f = f"(fun i => path_get i {k})"
    return f"{name}_lambda {cv(left)} {f}"


STR_FILTERS_1 = ["capitalize", "downcase", "upcase", "strip", "lstrip", "rstrip", "strip_newlines",
                 "newline_to_br", "escape", "escape_once", "url_encode", "url_decode"]
B64 = {"base64_encode": "b64_encode_f false", "base64_decode": "b64_decode_f false",
       "base64_url_safe_encode": "b64_encode_f true", "base64_url_safe_decode": "b64_decode_f true"}


def unescape_in_domain(s: str) -> bool:
    """html.unescape(s) only meets references the model implements."""
    i = 0
    while True:
        i = s.find("&", i)
        if i < 0:
            return True
        rest = s[i + 1:]
        m = re.match(r"#(?:[xX]([0-9a-fA-F]+)|([0-9]+))", rest)
        if m:
            v = int(m.group(1), 16) if m.group(1) else int(m.group(2))
            if not 32 <= v <= 126:
                return False
        elif rest[:1].isascii() and rest[:1].isalpha():
            if not any(rest.startswith(n) for n in ("amp;", "lt;", "gt;", "quot;", "apos;")):
                return False
        i += 1


def no_surrogates(s: str) -> bool:
    return not any(0xD800 <= ord(c) <= 0xDFFF for c in s)


def str_model(name: str, left: Any, args: tuple) -> str | None:
    if not in_str_domain(left) or not all(in_str_domain(v) for v in args):
        return None
    x = cv(left)
    a = [cv(v) for v in args]
    from liquid2.stringify import to_liquid_string
    s = to_liquid_string(left)
    if name in ("capitalize", "downcase", "upcase") and not ascii_case_ok(s):
        return None
    if name == "escape_once" and not unescape_in_domain(s):
        return None
    if name == "url_decode":
        import urllib.parse
        try:
            urllib.parse.unquote_plus(s, errors="strict")
        except UnicodeDecodeError:
            return None
    if name in STR_FILTERS_1:
        return f"{name}_f {x}"
    if name in B64:
        return f"{B64[name]} {x}"
    if name in ("append", "prepend", "remove", "remove_first", "remove_last"):
        return f"{name}_f {x} {a[0]}"
    if name in ("replace", "replace_first"):
        return f"{name}_f {x} {a[0]} {a[1] if len(a) > 1 else 'FStr ([]:str)'}".replace(
            "FStr ([]:str)", "(FStr ([]:str))")
    if name == "replace_last":
        return f"replace_last_f {x} {a[0]} {a[1]}"
    if name in ("truncate", "truncatewords"):
        if args and isinstance(args[0], float) and abs(args[0]) >= 2 ** 53:
            return None
        return (f"{name}_f {x} {copt(args[0] if args else None, len(args) > 0)} "
                f"{copt(args[1] if len(args) > 1 else None, len(args) > 1)}")
    raise KeyError(name)


def num_in_domain(v: Any) -> bool:
    if isinstance(v, bool):
        return False
    if isinstance(v, str):
        t = v.strip().lower().lstrip("+-")
        if t in ("inf", "infinity", "nan") or not v.isascii():
            return False
    return True


def as_num(v: Any) -> Any:
    """What num_arg(v, default=0) gives, with floats as Decimal(repr)."""
    if isinstance(v, int):
        return v
    if isinstance(v, float):
        return Decimal(repr(v))
    if isinstance(v, str):
        try:
            return int(v)
        except ValueError:
            pass
        try:
            return Decimal(repr(float(v)))
        except ValueError:
            return 0
    return 0


def small(d: Any) -> bool:
    return not isinstance(d, Decimal) or abs(int(d)) < 2 ** 53


def num_model(name: str, left: Any, args: tuple) -> str | None:
    """None = the call depends on the binary value of a float (outside the model)."""
    if not num_in_domain(left) or not all(num_in_domain(v) for v in args):
        return None
    x = cv(left)
    a = [cv(v) for v in args]
    l = as_num(left)
    if name in ("abs", "ceil", "floor"):
        if name != "abs" and not small(l):
            return None
        return f"{name}_f {x}"
    if name == "round":
        if not small(l):
            return None
        if args and args[0] is not None:
            try:
                from liquid2.filter import num_arg
                n = num_arg(args[0])
            except Exception:  # noqa: BLE001
                n = 0
            if isinstance(n, float) and abs(n) >= 2 ** 53:
                return None
            n = int(n)
            if n > 0 and isinstance(l, Decimal):
                q = l.scaleb(n)
                if q != q.to_integral_value() and (q * 2) == (q * 2).to_integral_value():
                    return None          # a decimal tie: decided by the binary value
        return f"round_f {x} {copt(args[0] if args else None, bool(args))}"
    rgt = as_num(args[0])
    if name == "divided_by" and (isinstance(l, Decimal) or isinstance(rgt, Decimal)) and rgt != 0:
        return None                      # true division of floats
    if name in ("at_least", "at_most") and isinstance(l, Decimal) != isinstance(rgt, Decimal) and not (
            small(l) and small(rgt)):
        return None
    return f"{name}_f {x} {a[0]}"


def is_floaty(v: Any) -> bool:
    if isinstance(v, float):
        return True
    if isinstance(v, str):
        try:
            int(v)
            return False
        except ValueError:
            pass
        try:
            float(v)
            return True
        except ValueError:
            return False
    return False


def gen_cases(g: Gen, tier: str) -> list[dict[str, Any]]:
    r = g.r
    scale = 1 if tier == "quick" else 8
    cases: list[dict[str, Any]] = []

    def add(fam: str, name: str, left: Any, args: tuple, lam: tuple | None = None) -> None:
        cases.append({"fam": fam, "name": name, "left": left, "args": args, "lambda": lam})

    # ---------------- corpus: boundary cases of each mechanism, run first
    big, text = 10 ** 20 + 7, "not interned é"
    hs = [{"k": big, "n": "a", "id": 0}, {"k": None, "n": "B", "id": 1}, {"n": "b", "id": 2},
          {"k": 0, "n": "A", "id": 3}, {"k": fresh(big), "n": "a", "id": 4}, {"k": text, "n": "C", "id": 5},
          {"k": False, "n": "c", "id": 6}, {"k": "", "n": "", "id": 7}]
    for name in ("where", "reject", "find", "find_index", "has"):
        for v in (fresh(big), fresh(text), 0, False, "", None):
            add("seq", name, hs, ("k", v))
            add("seq", name, hs, (), ("k", v is not None, v))
        add("seq", name, hs, ("k",))
    for name in ("sort", "sort_natural", "sort_numeric", "uniq", "compact", "map", "sum"):
        add("seq", name, hs, ("n",))
        add("seq", name, hs, (), ("n", False, None))
    # ties and missing properties in the arrow-function sorts (stability; the items themselves are
    # never compared: hashes would raise, strings would lose their input order)
    ties_s = [{"k": "b", "id": 3}, {"id": 2}, {"k": "a", "id": 1}, {"k": "b", "id": 0}, {"id": -1},
              {"k": "a", "id": 9}, {"k": "B", "id": 4}]
    ties_n = [{"k": 2, "id": 3}, {"k": 1, "id": 1}, {"k": 2, "id": 0}, {"k": 1, "id": 9}, {"k": 2.0, "id": 5},
              {"k": True, "id": 6}, {"k": 2, "id": -4}]
    ties_m = ties_n[:3] + [{"id": 7}, {"k": "x10", "id": 8}, {"id": 6}, {"k": "y2", "id": 2}, {"k": 10, "id": 1}]
    sized = ["bb", "aa", "c", "ab", "d", "", "ba", "e"]
    for name in ("sort", "sort_natural", "sort_numeric"):
        for left in ((ties_s, ties_n, ties_m) if name != "sort" else (ties_s, ties_n)):
            add("seq", name, left, (), ("k", False, None))
            add("seq", name, left, ("k",))
        add("seq", name, sized, (), ("size", False, None))
        add("seq", name, list(reversed(sized)), (), ("size", False, None))
    add("seq", "sort", ties_m, (), ("k", False, None))
    # uniq is by ==, not by repr: hashes equal up to insertion order, 5 vs 5.0 vs true vs "5"
    u1 = [{"a": 1, "b": 2}, {"b": 2, "a": 1}, {"a": 1, "b": 2.0}, {"a": True, "b": 2}, {"a": 1, "b": 3},
          {"a": 1}, {"b": 2, "a": 1, "c": None}]
    u2 = [{"k": {"a": 1, "b": 2}, "id": 0}, {"k": {"b": 2, "a": 1}, "id": 1}, {"k": [5, 1], "id": 2},
          {"k": [5.0, 1], "id": 3}, {"k": 5, "id": 4}, {"k": 5.0, "id": 5}, {"id": 6}, {"id": 7}, {"k": None, "id": 8},
          {"k": "5", "id": 9}, {"k": [5, [1]], "id": 10}, {"k": [5.0, [True]], "id": 11}, {"k": None, "id": 12}]
    add("seq", "uniq", u1, ())
    add("seq", "uniq", [5, 5.0, "5", True, 1, 1.0, 0, False, 0.0, None, "", 5], ())
    add("seq", "uniq", u2, ())
    add("seq", "uniq", u2, ("k",))
    add("seq", "uniq", u2, (), ("k", False, None))
    add("seq", "uniq", u1, ("a",))
    add("seq", "uniq", u1, (), ("b", False, None))
    deep: Any = [5, [5.0]]
    for _ in range(6):
        deep = [deep]
    add("seq", "uniq", [deep, [[[[[[[5.0, [5]]]]]]]], 5], ())
    add("seq", "sort_natural", ["b", "A", "a", "B", "Ab", "aB", "ab", "AB", "Zz", "zz", "10", "9"], ())
    add("seq", "sort_natural", ["b", 10, "A", 9, "a", None, True], ())
    add("seq", "sort_numeric", ["z10", "z9", "x-2y", "a1b22", "a1b3", 5, "5", -3, "none", True, 2.5], ())
    add("seq", "sort", [3, True, 1, 2.0, 2, False, 1.0, 0], ())
    add("seq", "sort", ["b", "B", "a", "ab", "", MAX_CH, "日本", "a"], ())
    add("seq", "uniq", [1, "a", True, 1.0, "a", None, 0, False, None, "A", [1], 2], ())
    add("seq", "compact", [0, "", False, None, [], {}, "a", None, [None]], ())
    for depth in (4, 5, 6, 7):
        nest: Any = [1, 2]
        for _ in range(depth):
            nest = [0, nest]
        for name in ("reverse", "uniq", "compact", "sort", "join", "sum", "concat"):
            add("seq", name, nest, ([3, [4]],) if name == "concat" else ())
    seq8 = [10, 11, 12, 13, 14, 15, 16, 17]
    for left in (seq8, "abcdefgh"):
        for st in (-9, -8, -7, -1, 0, 1, 7, 8, 9):
            for ln in (-1, 0, 1, 7, 8, 9, -st, -st - 1, -st + 1):
                add("seq", "slice", left, (st, ln))
    for s_ in ("a,b,", ",a,,b,,", ",", ",,", "a", "", "aaa", "aaaa", "abab"):
        for sep in (",", ",,", "a", "aa", "ab"):
            add("seq", "split", s_, (sep,))
    for s_ in ("hello", "", "a", "日本語のテキスト"):
        for n_ in range(-1, 8):
            add("str", "truncate", s_, (n_,))
            add("str", "truncate", s_, (n_, "--"))
    for s_ in ("one two three", " one  two ", "one", ""):
        for n_ in range(-1, 5):
            add("str", "truncatewords", s_, (n_,))
    for s_ in ("abcabc", "aaa", "abc", "xabx", "a"):
        for pat in ("a", "abc", "c", "bc", "aa", "x", "", "abcabc"):
            for name in ("remove", "remove_first", "remove_last"):
                add("str", name, s_, (pat,))
            for name in ("replace", "replace_first", "replace_last"):
                add("str", name, s_, (pat, "Z"))
    for s_ in ("a+b c%2Bd", "+", "%2b%2B", "a%20b+c", "100%+"):
        add("str", "url_decode", s_, ())
        add("str", "url_encode", s_, ())
    quick = tier == "quick"
    for a_ in ((-7, 7, -8, 0, -(10 ** 30) - 1) if quick else (-7, 7, -8, 8, 0, 1, -1, 10 ** 30 + 1, -(10 ** 30) - 1)):
        for b_ in ((2, -2, 3, -1, 0, -(10 ** 15)) if quick else (2, -2, 3, -3, 1, -1, 0, 10 ** 15, -(10 ** 15))):
            for name in ("modulo", "divided_by", "plus", "minus", "times", "at_least", "at_most"):
                add("num", name, a_, (b_,))
    for a_ in ((-7.5, 7.5, -7.0, 2.5, 3.5, -0.5, 123456789.125) if quick else
               (-7.5, 7.5, -7.0, 2.5, 3.5, -0.5, 0.5, 1.5, -2.5, 0.1, 1e15, 123456789.125)):
        for name in ("abs", "ceil", "floor", "round"):
            add("num", name, a_, ())
        for b_ in (2, -2, 0.5, -1.5):
            for name in ("modulo", "plus", "minus", "times", "at_least", "at_most"):
                add("num", name, a_, (b_,))

    # a single hash / an array of hashes / a run of ints as the left value of every array filter,
    # in the plain, string-key and arrow-function forms (the embedding pass reruns them as
    # non-dict Mappings and non-list Sequences)
    one = {"title": "x", "price": 3, "k": 2, "n": None}
    shop = [{"title": "a", "price": 1, "k": 1}, {"title": "b", "k": 2}, {"title": "a", "price": 2.5, "k": 1}, {}]
    run = [3, 4, 5, 6]
    for left in (one, shop, run, [one], [[one], [shop[0], [run]]]):
        for name in ("map", "sum", "uniq", "compact", "sort", "sort_natural", "sort_numeric"):
            for k_ in ("title", "price", "k"):
                add("seq", name, left, (k_,))
                add("seq", name, left, (), (k_, False, None))
            if name != "map":
                add("seq", name, left, ())
        for name in ("where", "reject", "find", "find_index", "has"):
            for k_, v_ in (("title", "a"), ("title", "x"), ("k", 2), ("price", None), ("n", None)):
                add("seq", name, left, (k_,) if v_ is None else (k_, v_))
                add("seq", name, left, (), (k_, v_ is not None, v_))
        for name in ("first", "last", "reverse", "join"):
            add("seq", name, left, ())
        add("seq", "concat", left, ([9, [8]],))
        add("seq", "slice", left, (1, 2))
        add("seq", "slice", left, (-2, 5))

    # Liquid string coercion of arguments; round to tens / hundreds
    for arg in (True, False, None, 7, [1, None, "b", [True]], "", "z"):
        add("str", "append", "x", (arg,))
        add("str", "prepend", "x", (arg,))
        add("seq", "join", ["a", 1, None], (arg,))
        add("str", "truncate", "abcdefgh", (5, arg))
        add("str", "truncatewords", "a b c", (2, arg))
    for a_ in (15, 25, 35, -15, -25, 4, 5, 1234, 1250, 1350, -1250, 10 ** 30 + 5, 5.666, 1250.0, 149.9, 15.0, 25.0,
               "15", "2.5e2"):
        for n_ in (-1, -2, -3, "-1", -1.5):
            add("num", "round", a_, (n_,))
    # digit counts above the bit length of the number / huge ones: 0, and the call returns
    for a_ in (0, 1, -1, 5, 7, 8, 499, 500, 501, 2 ** 62, -(10 ** 30), 5.5, 4999.9, "7"):
        for n_ in (-3, -4, -17, -18, -19, -64, -400, -(2 ** 62), -(10 ** 30), str(-(2 ** 62))):
            add("num", "round", a_, (n_,))

    # decimal arithmetic on floats goes through their shortest repr: 0.1 + 0.2 is 0.3
    for xs in ([0.1, 0.2], [0.1, 0.2, 0.7], [1.1, 2.675, -0.3], [1e-07, 0.2, 3], ["0.1", 0.2, 1], [0.1] * 10,
               [-0.1, -0.2, 0.3], [33.33, 1.005, 1e-05, -2.675], [0.7, 0.1, "x", None, True, [0.2]]):
        add("seq", "sum", xs, ())
        hk = [{"k": x, "id": i} for i, x in enumerate(xs)] + [{"id": -1}]
        add("seq", "sum", hk, ("k",))
        add("seq", "sum", hk, (), ("k", False, None))
    for a_ in NONDYADIC:
        for b_ in (0.2, -0.7, 3, 1.1, "0.1"):
            for name in ("plus", "minus", "times", "modulo", "at_least", "at_most", "divided_by"):
                add("num", name, a_, (b_,))
        for name in ("round", "ceil", "floor", "abs"):
            add("num", name, a_, ())
        add("num", "round", a_, (g.pick([1, 2, 3]),))

    # ---------------- sequence filters
    def key_arg() -> Any:
        return g.pick(["k", "k", "k", "n", "t", "zz", "size", "", 0, 1, None])

    def val_arg(left: Any, key: Any) -> Any:
        vals = [v for v in key_vals(seq_of(left), key) if v is not None] if isinstance(key, str) else []
        u = r.random()
        if vals and u < 0.6:
            v = fresh(g.pick(vals))
            # the bool / int / float twins of a value
            if u < 0.15 and isinstance(v, (int, float)):
                v = g.pick([bool(v), int(v), float(v)]) if abs(v) < 2 ** 53 else v
            return v
        return g.scalar("any")

    for _ in range(60 * scale):
        for name in ("sort", "sort_natural", "sort_numeric"):
            kinds = {"sort": ["int", "str", "num", "any", "hash-int", "hash-str", "hash-num", "hash-any", "nested",
                              "string", "dict", "scalar", "mixed"],
                     "sort_natural": ["str", "strint", "int", "hash-str", "hash-strint", "string", "scalar", "nested"],
                     "sort_numeric": ["str", "strint", "int", "num", "hash-str", "hash-strint", "hash-num", "string",
                                      "nested"]}[name]
            left = g.array(g.pick(kinds))
            form = r.random()
            if form < 0.4:
                add("seq", name, left, ())
            elif form < 0.75:
                add("seq", name, left, (g.pick(["k", "k", "n", "t", "zz", "", None]),))
            else:
                add("seq", name, left, (), (g.pick(["k", "n", "t", "size"]), False, None))
    for _ in range(50 * scale):
        for name in ("where", "reject", "find", "find_index", "has"):
            left = g.array(g.pick(["hash-any", "hash-num", "hash-int", "hash-str", "hash-any", "mixed", "any", "str",
                                   "int", "string", "dict", "scalar", "nested"]))
            form = r.random()
            if name in ("find", "find_index", "has") and form < 0.15:
                # the scalar-array corner cases of find's _getitem
                left = g.array(g.pick(["int", "str", "num"]))
                key = g.pick([g.scalar("int"), g.scalar("str"), 0, 1, "a"])
                add("seq", name, left, (key,) if r.random() < 0.6 else (key, g.pick([True, False, None, 1])))
                continue
            key = key_arg()
            if form < 0.3:
                add("seq", name, left, (key,))
            elif form < 0.65:
                add("seq", name, left, (key, val_arg(left, key)))
            else:
                k = g.pick(["k", "n", "t", "size"])
                wv = r.random() < 0.6
                add("seq", name, left, (), (k, wv, val_arg(left, k) if wv else None))
    for _ in range(40 * scale):
        for name in ("uniq", "compact", "sum", "map"):
            kinds = {"uniq": ["int", "str", "num", "any", "hash-any", "hash-num", "hash-str", "nested", "mixed",
                              "string", "dict"],
                     "compact": ["any", "hash-any", "hash-int", "mixed", "nested", "int", "dict", "scalar"],
                     "sum": ["int", "num", "numstr", "any", "hash-num", "hash-int", "hash-any", "nested", "mixed"],
                     "map": ["hash-any", "hash-int", "mixed", "any", "nested", "dict", "string"]}[name]
            left = g.array(g.pick(kinds))
            form = r.random()
            if name == "map":
                if form < 0.6:
                    add("seq", name, left, (g.pick(["k", "n", "t", "zz", "", 0, None, True]),))
                else:
                    add("seq", name, left, (), (g.pick(["k", "n", "t", "size"]), False, None))
            elif form < 0.35:
                add("seq", name, left, ())
            elif form < 0.7:
                add("seq", name, left, (key_arg(),))
            else:
                add("seq", name, left, (), (g.pick(["k", "n", "t", "size"]), False, None))
    for _ in range(25 * scale):
        for name in ("first", "last", "reverse"):
            add("seq", name, g.array(), ())
        add("seq", "concat", g.array(), (g.pick([g.array("int"), g.array("nested"), g.array("hash-any"), "ab", 3,
                                                  None, g.hashes(1, "any")[0]]),))
        left = g.array(g.pick(["str", "strint", "int", "nested", "string", "scalar"]))
        if r.random() < 0.3:
            left = [g.pick([None, True, False, "a", 3, ["b", [None, 4]]]) for _ in range(r.choice([0, 1, 2, 3, 4]))]
        add("seq", "join", left, () if r.random() < 0.3 else (g.pick([", ", ",", "", " ", "é", 3, None, True, "ab"]),))
        # slice
        left = g.pick([g.ustr(r.choice([0, 1, 3, 5, 8])), g.array("int"), g.array("nested"), 12345, None, True])
        n = len(left) if isinstance(left, (str, list)) else 5
        start = g.pick([0, 1, -1, n, n - 1, -n, -n - 1, n + 1, 2, -2, 2 ** 63, -(2 ** 63) - 1, 10 ** 30, "1", " -2 ",
                        "x", None, True, 1.5])
        if r.random() < 0.4:
            add("seq", "slice", left, (start,))
        else:
            add("seq", "slice", left, (start, g.pick([0, 1, 2, n, n + 1, -1, -2, 10 ** 30, -(10 ** 30), "2", "y",
                                                      None, 2.0, False])))
        # split
        sep = g.pick([",", ", ", "a", "ab", "aa", "", " ", "é", None, 0, 5, False, [], [None], "日"])
        s = g.pick([g.ustr(), ",".join(g.ustr(r.choice([0, 1, 2])) for _ in range(r.choice([1, 2, 3, 4]))),
                    "aaa", "aaaa", "a,b,", ",a,,b", ",", "", "ab", 12512, None, ["a,b", 3]])
        add("seq", "split", s, (sep,))

    # ---------------- string filters
    for _ in range(30 * scale):
        def sleft() -> Any:
            return g.pick([g.ustr(), g.ustr(), g.pick(STRS), "  a b \t\n", " x ", "\x1cy\x1f", None, 42, True,
                           ["a", 1, None]])
        for name in STR_FILTERS_1:
            if name in ("capitalize", "downcase", "upcase"):
                left = g.pick(["", "a", "A", "hello World", "ÀB", "aBc DeF", "日本X", "zZ", "ǆx", 5, None, "éA",
                               g.ustr()])
            elif name in ("strip_newlines", "newline_to_br"):
                left = "".join(g.pick(["a", "\n", "\r\n", "\r", "b", " ", "\n\n", "\r\r\n"])
                               for _ in range(r.choice([0, 1, 2, 4, 6])))
            elif name in ("escape", "escape_once"):
                left = "".join(g.pick(["a", "&", "<", ">", "'", '"', "&amp;", "&lt;", "&gt;", "&quot;", "&#x27;",
                                       "&#39;", "&apos;", "& ", "&&", "&;", "&#", "&#x", "&#65", "é", "&1", ";"])
                               for _ in range(r.choice([0, 1, 2, 3, 5])))
            elif name == "url_encode":
                left = g.pick([g.ustr(), g.ustr(8), "a b+c%d", "~_.-", "é/日?𝒳=&", "\x00\x7f\x80߿ࠀ￿\U00010000",
                               MAX_CH, 17, None])
            elif name == "url_decode":
                import urllib.parse
                left = g.pick([urllib.parse.quote_plus(g.ustr(6)), urllib.parse.quote_plus(g.ustr(3)).lower(),
                               "a+b%20c", "%", "%4", "%zz%41", "%%41", "100%", "%e9", "é%41日", "%C3%A9x", "+%2B+",
                               g.ustr(), "%F0%9D%92%B3", "%c3%a9%", 7])
            else:
                left = sleft()
            add("str", name, left, ())
        for name in B64:
            import base64
            if "encode" in name:
                left = g.pick([g.ustr(), g.ustr(1), g.ustr(2), g.ustr(3), g.ustr(4), "", "\x00\x7f\x80￿\U00010000",
                               MAX_CH, ">>>???", 5, None])
            else:
                enc = base64.urlsafe_b64encode if "url" in name else base64.b64encode
                good = enc(g.ustr(r.choice([0, 1, 2, 3, 4, 7])).encode()).decode()
                left = g.pick([good, good, good.rstrip("="), good + "=", good[:-1], " " + good, good[:2] + "\n" + good[2:],
                               "+/+/", "-_-_", "a", "ab", "abc", "ab=", "ab==", "a===", "ab==cd", "=", "", "é",
                               "/w==", "_w==", "gICA", good.replace("=", "") + "!", None, 12])
            add("str", name, left, ())
        add("str", "append", sleft(), (g.pick([g.ustr(), "", None, 5, True, "é"]),))
        add("str", "prepend", sleft(), (g.pick([g.ustr(), "", None, 5, False, ["a", 2]]),))
        for name in ("remove", "remove_first", "remove_last", "replace", "replace_first", "replace_last"):
            s = g.pick([g.ustr(8), "aaa", "abcabc", "aaaa", "a,b,", "", "abc", "xabx", 1221, None, "日本日"])
            st = s if isinstance(s, str) else str(s)
            seq = g.pick(["a", "aa", "ab", "", ",", "abc", "c", "x", "日", 2, None, st[:1], st[-1:], st[1:3], st])
            if name.startswith("remove"):
                add("str", name, s, (seq,))
            elif name == "replace_last":
                add("str", name, s, (seq, g.pick(["", "X", "aa", 7, None, "é"])))
            else:
                add("str", name, s, (seq,) if r.random() < 0.25 else (seq, g.pick(["", "X", "aa", 7, None, "a"])))
        # truncate / truncatewords
        s = g.pick([g.ustr(8), "hello", "Ground control to Major Tom.", "", "ab", "日本語のテキスト", 123456, None])
        n = len(s) if isinstance(s, str) else 6
        num = g.pick([0, 1, 2, 3, 4, n - 1, n, n + 1, n + 3, -1, -5, 50, 10 ** 30, -(10 ** 30), "3", " 2", "x", 2.9,
                      True, None, [1]])
        form = r.random()
        if form < 0.1:
            add("str", "truncate", s, ())
        elif form < 0.55:
            add("str", "truncate", s, (num,))
        else:
            add("str", "truncate", s, (num, g.pick(["...", "", "!", "--", "é", "0123456789", 1, None, True])))
        s = g.pick(["one two three four", "  one   two\tthree\nfour  ", "one", "", " ", "a b c d", "日本 語",
                    "a b", 77, None, g.ustr(8)])
        num = g.pick([0, 1, 2, 3, 4, 5, -1, 2 ** 31 - 1, 2 ** 31 - 2, 2 ** 31, 10 ** 30, "2", "x", 1.9, True, None])
        form = r.random()
        if form < 0.1:
            add("str", "truncatewords", s, ())
        elif form < 0.55:
            add("str", "truncatewords", s, (num,))
        else:
            add("str", "truncatewords", s, (num, g.pick(["...", "", "--", 1, None])))

    # ---------------- arithmetic filters
    def big() -> int:
        return r.choice([1, -1]) * r.randrange(10 ** r.choice([0, 1, 2, 5, 18, 19, 20, 40, 60]) + 1)

    def fstr() -> str:
        digs = r.choice([1, 2, 3, 7, 12, 15])
        m = r.randrange(10 ** digs)
        e = r.choice([-8, -4, -3, -2, -1, 0, 1, 3, 8])
        sgn = r.choice(["", "-"])
        if r.random() < 0.5 and e < 0:
            s = str(m).rjust(-e + 1, "0")
            return sgn + s[:e] + "." + s[e:]
        return f"{sgn}{m}e{e}"

    def operand() -> Any:
        u = r.random()
        if u < 0.4:
            return big() if u < 0.3 else r.randint(-9, 9)
        if u < 0.5:
            return str(big())
        if u < 0.62:
            return fstr()
        if u < 0.8:
            return float(fstr())
        if u < 0.86:
            return g.pick([0, 0.0, "0", "0.0", "-0.0"])
        return g.pick(["abc", "", None, [1], {"a": 1}, " 12 ", "1_0", "+5", "1e3", ".5", "5.", "- 1", "１２"])

    for _ in range(40 * scale):
        for name in ("plus", "minus", "times", "divided_by", "modulo", "at_least", "at_most"):
            add("num", name, operand(), (operand(),))
        for name in ("abs", "ceil", "floor"):
            add("num", name, operand(), ())
        if r.random() < 0.4:
            add("num", "round", operand(), ())
        else:
            add("num", "round", g.pick([operand(), float(fstr()), 2.5, 3.5, -0.5, 0.125, 2.675, 1.005, "1.15"]),
                (g.pick([0, 1, 2, 3, -1, "1", "x", 1.9, None, 5]),))
    return cases


# ------------------------------------------------------------------ the direct oracle (laws on the implementation)


def leq(a: Any, b: Any) -> bool:
    """Liquid ==: a boolean only equals a boolean; otherwise Python's ==."""
    if isinstance(a, bool) or isinstance(b, bool):
        return isinstance(a, bool) and isinstance(b, bool) and a == b
    return bool(a == b)


def ident(a: Any, b: Any) -> bool:
    """The same element: identity for hashes and arrays, type and value for scalars."""
    return a is b or (not isinstance(a, (dict, list, tuple)) and same(a, b))


class Laws:
    """Each law evaluates filters of the implementation and relates the
    results; failures are returned as (signature, description, replay)."""

    def __init__(self, impl: Impl) -> None:
        self.impl = impl
        self.fail: list[tuple[str, str, dict]] = []
        self.checked: Counter = Counter()

    def f(self, name: str, left: Any, *args: Any) -> Any:
        return self.impl.call(name, left, *args)

    def lam(self, name: str, left: Any, key: str, value: Any = None, with_value: bool = False,
            strict: bool = False) -> tuple:
        return self.impl.render(lam_src(name, key, with_value), {"x": left, "v": value}, strict)

    def policy_laws(self, name: str, left: Any, key: str, rp: dict) -> None:
        """`f: i => i.k` never touches the undefined it gets for a missing property (every arrow-function
        branch tests is_undefined first), so the StrictUndefined policy gives the same result as the
        default one; and the arrow function's parameter does not outlive the filter."""
        base = self.lam(name, left, key)
        strict = self.lam(name, left, key, strict=True)
        self.expect("lambda-form-same-under-StrictUndefined", same_outcome(base, strict),
                    f"{name}: i => i.{key} differs (or fails) under Environment(undefined=StrictUndefined)", **rp,
                    filter=name, default_policy=base, strict_policy=strict)
        if name in ("find", "find_index", "has", "where"):
            src = "{% assign r = x | " + name + ": item => item." + key + " %}[{{ item }}]{{ x | cap19 }}"
            try:
                out = self.impl.env.from_string(src).render(x=left)
            except Exception as e:  # noqa: BLE001
                out = f"raises {type(e).__name__}"
            self.expect("lambda-parameter-does-not-leak", out == "[]",
                        f"after {name}: item => item.{key} the parameter `item` is still bound", **rp,
                        filter=name, rendered=out)

    def guarded(self, fn: Callable[..., None], *args: Any) -> None:
        try:
            fn(*args)
        except Exception as e:  # noqa: BLE001
            self.fail.append((f"exception-{type(e).__name__}", f"{fn.__name__}: {type(e).__name__}: {e}",
                              {"args": args}))

    def expect(self, law: str, ok: bool, what: str, **replay: Any) -> None:
        self.checked[law] += 1
        if not ok:
            self.fail.append((law, what, replay))

    # -- sequences
    def seq_laws(self, left: Any, key: Any, value: Any) -> None:
        from liquid2.exceptions import LiquidError
        from liquid2.filter import sequence_arg
        xs = sequence_arg(left)
        rp = {"left": left, "key": key, "value": value}
        # applying a filter to its own output flattens once more: only for flat inputs
        flat_in = not any(isinstance(i, (list, tuple)) for i in xs)
        hashes_only = all(isinstance(i, dict) for i in xs)

        def attempt(fn: Callable[[], Any]) -> tuple:
            try:
                return ("ok", fn())
            except (LiquidError, TypeError) as e:
                return ("err", type(e).__name__)
            except Exception as e:  # noqa: BLE001
                self.expect("no-non-liquid-exception", False,
                            f"a filter raised {type(e).__name__}: {e} on an array of documented types", **rp)
                return ("err", type(e).__name__)

        def merge(a: list, b: list, whole: list) -> bool:
            i = j = 0
            for x in whole:
                if i < len(a) and ident(a[i], x):
                    i += 1
                elif j < len(b) and ident(b[j], x):
                    j += 1
                else:
                    return False
            return i == len(a) and j == len(b)

        # sorting: ordered permutation, stable
        for name in ("sort", "sort_natural", "sort_numeric"):
            for kargs in ((), (key,)) if isinstance(key, str) and key else ((),):
                o = attempt(lambda: self.f(name, left, *kargs))  # noqa: B023
                if o[0] != "ok":
                    continue
                out = o[1]
                self.expect(f"{name}-permutation", Counter(map(id, out)) == Counter(map(id, xs)) or
                            Counter(map(repr, out)) == Counter(map(repr, xs)),
                            f"{name} output is not a permutation of its input", **rp, out=out)
                again = attempt(lambda: self.f(name, out, *kargs))  # noqa: B023
                self.expect(f"{name}-idempotent", not flat_in or again[0] == "ok" and len(again[1]) == len(out) and
                            all(ident(a, b) for a, b in zip(again[1], out)),
                            f"sorting the output of {name} again changes it", **rp, out=out)
                rev = attempt(lambda: self.f(name, list(reversed(xs)), *kargs))  # noqa: B023
                if name == "sort" and not kargs and rev[0] == "ok":
                    self.expect("sort-order-independent", [repr(v) for v in rev[1]] == [repr(v) for v in out] or
                                len({type(v) for v in xs}) > 1,
                                "sort of the reversed input differs (homogeneous scalars)", **rp, out=out)
                if name == "sort_natural" and all(isinstance(v, (str, int)) or v is None for v in
                                                  ([i.get(kargs[0], MAX_CH) if isinstance(i, dict) else MAX_CH
                                                    for i in out] if kargs else out)):
                    ks = [str(i.get(kargs[0], MAX_CH) if isinstance(i, dict) else MAX_CH).lower() for i in out] \
                        if kargs else [str(v).lower() for v in out]
                    self.expect("sort_natural-ordered", all(a <= b for a, b in zip(ks, ks[1:])),
                                "sort_natural output is not ascending in the lower-cased text", **rp, out=out)
                if name == "sort" and len(out) >= 2:
                    ks = [(i.get(kargs[0], MAX_CH) if isinstance(i, dict) else MAX_CH) for i in out] if kargs else out
                    try:
                        ordered = all(not (b < a) for a, b in zip(ks, ks[1:]))
                    except TypeError:
                        ordered = False
                    self.expect("sort-ordered", ordered, "sort output is not in ascending order", **rp, out=out)
                    if kargs and all(isinstance(i, dict) for i in xs):
                        pos = {id(i): n for n, i in enumerate(xs)}
                        stable = all(pos[id(a)] < pos[id(b)] for a, b, ka, kb in zip(out, out[1:], ks, ks[1:])
                                     if not (ka < kb))
                        self.expect("sort-stable", stable, "sort is not stable for equal keys", **rp, out=out)
                        nk = [i for i in xs if kargs[0] not in i]
                        if all(isinstance(v, str) and v < MAX_CH for v in ks if v is not MAX_CH):
                            self.expect("sort-missing-last", out[len(out) - len(nk):] == nk and
                                        all(ident(a, b) for a, b in zip(out[len(out) - len(nk):], nk)),
                                        "items without the key are not last in input order", **rp, out=out)
        # reverse
        o = attempt(lambda: self.f("reverse", self.f("reverse", left)))
        if o[0] == "ok" and flat_in:
            self.expect("reverse-involutive", len(o[1]) == len(xs) and all(ident(a, b) for a, b in zip(o[1], xs)),
                        "reverse twice is not the input", **rp)
        # uniq
        for kargs in ((), (key,)) if isinstance(key, str) else ((),):
            o = attempt(lambda: self.f("uniq", left, *kargs))  # noqa: B023
            if o[0] != "ok":
                continue
            out = o[1]

            def kv(i: Any) -> Any:
                return (i.get(kargs[0], MAX_CH + "missing") if isinstance(i, dict) else i) if kargs else i  # noqa: B023
            try:
                nodup = all(not leq(kv(a), kv(b)) for n, a in enumerate(out) for b in out[n + 1:])
                covers = all(any(leq(kv(o_), kv(x)) for o_ in out) for x in xs)
                firsts = [x for n, x in enumerate(xs) if not any(leq(kv(y), kv(x)) for y in xs[:n])]
            except Exception:  # noqa: BLE001
                continue
            self.expect("uniq-nodup", nodup, "uniq output holds two equal elements", **rp, out=out)
            self.expect("uniq-covers", covers, "an input element has no equal in uniq's output", **rp, out=out)
            self.expect("uniq-first-occurrences", len(firsts) == len(out) and all(ident(a, b) for a, b in zip(firsts, out)),
                        "uniq does not keep exactly the first occurrences in order", **rp, out=out)
            o2 = attempt(lambda: self.f("uniq", out, *kargs))  # noqa: B023
            self.expect("uniq-idempotent", not flat_in or o2[0] == "ok" and len(o2[1]) == len(out) and
                        all(ident(a, b) for a, b in zip(o2[1], out)), "uniq is not idempotent", **rp, out=out)
        # compact
        o = attempt(lambda: self.f("compact", left))
        if o[0] == "ok":
            self.expect("compact-removes-exactly-nil", merge(o[1], [x for x in xs if x is None], xs) and
                        not any(x is None for x in o[1]),
                        "compact does not remove exactly the nil elements", **rp, out=o[1])
        if isinstance(key, str):
            m = attempt(lambda: self.f("compact", self.f("map", left, key)))
            if m[0] == "ok":
                self.expect("map-compact", not any(v == None for v in m[1]) and  # noqa: E711
                            len(m[1]) == sum(1 for i in xs if isinstance(i, dict) and i.get(key) is not None),
                            "map then compact keeps entries for missing / nil properties", **rp, out=m[1])
        # where / reject partition; find family
        for vargs in ((key,), (key, value)):
            w = attempt(lambda: self.f("where", left, *vargs))  # noqa: B023
            rj = attempt(lambda: self.f("reject", left, *vargs))  # noqa: B023
            self.expect("where-reject-same-outcome", w[0] == rj[0], "where raises where reject does not", **rp,
                        args=vargs)
            if w[0] == "ok" and rj[0] == "ok":
                self.expect("where-reject-partition", merge(w[1], rj[1], xs),
                            "where and reject do not partition the input", **rp, args=vargs, where=w[1],
                            reject=rj[1])
            fd = attempt(lambda: self.f("find", left, *vargs))  # noqa: B023
            fi = attempt(lambda: self.f("find_index", left, *vargs))  # noqa: B023
            hs = attempt(lambda: self.f("has", left, *vargs))  # noqa: B023
            if fd[0] == fi[0] == hs[0] == "ok":
                self.expect("find-index-has", (fi[1] is None and fd[1] is None and hs[1] is False) or
                            (fi[1] is not None and hs[1] is True and 0 <= fi[1] < len(xs) and ident(xs[fi[1]], fd[1])),
                            "find, find_index and has disagree", **rp, args=vargs, find=fd[1], index=fi[1],
                            has=hs[1])
                if w[0] == "ok" and all(isinstance(i, dict) for i in xs):
                    self.expect("find-is-first-of-where", (fd[1] is None and not w[1]) or (w[1] and ident(w[1][0], fd[1])),
                                "find is not the first element of where", **rp, args=vargs)
        # string-property form = lambda form
        if isinstance(key, str) and key.isidentifier() and key not in ("size", "first", "last") and hashes_only:
            for name in ("where", "reject", "find", "find_index", "has"):
                for wv in (False, True):
                    if wv and value is None:
                        continue
                    kf = attempt(lambda: self.f(name, left, *((key, value) if wv else (key,))))  # noqa: B023
                    if kf[0] != "ok":
                        continue
                    lf = self.lam(name, left, key, value, wv)
                    self.expect(f"{name}-key-equals-lambda", lf[0] == "ok" and same(canon(kf[1]), lf[1]),
                                f"{name}: '{key}'{', v' if wv else ''} differs from the lambda form", **rp,
                                key_form=kf[1], lambda_form=lf)
            for name in ("where", "reject", "find", "find_index", "has", "map", "sort", "sort_natural", "sort_numeric",
                         "uniq", "compact", "sum"):
                self.policy_laws(name, left, key, rp)
            for name in ("map", "sort", "sort_natural", "sort_numeric", "uniq", "compact", "sum"):
                kf = attempt(lambda: self.f(name, left, key))  # noqa: B023
                if kf[0] != "ok":
                    continue
                lf = self.lam(name, left, key)
                self.expect(f"{name}-key-equals-lambda", lf[0] == "ok" and same(canon(kf[1]), lf[1]),
                            f"{name}: '{key}' differs from {name}: i => i.{key}", **rp, key_form=kf[1],
                            lambda_form=lf)
        # first / last / concat / map / slice
        if isinstance(left, list):
            self.expect("first-last", ident(self.f("first", left), left[0] if left else None) and
                        ident(self.f("last", left), left[-1] if left else None), "first/last", **rp)
            c = self.f("concat", left, left)
            self.expect("concat-app", len(c) == len(xs) + len(left) and all(ident(a, b) for a, b in zip(c, xs + left)),
                        "concat is not append", **rp)
            for st in (0, 1, -1, -len(left), -len(left) - 1, -len(left) - 3, len(left)):
                for ln in (0, 1, 2, len(left) + 1):
                    exp = [] if st < -len(left) else left[st:None if st < 0 <= st + ln else st + ln]
                    got = self.f("slice", left, st, ln)
                    self.expect("slice-python", len(got) == len(exp) and all(ident(a, b) for a, b in zip(got, exp)),
                                "slice differs from Python slicing", **rp, start=st, length=ln)

    # -- caseless sort on non-ASCII text (the model carries ASCII case only: oracle only)
    def natural_laws(self, words: list[str]) -> None:
        rp = {"words": words}
        want = sorted(words, key=lambda w: w.lower())
        got = self.f("sort_natural", words)
        self.expect("sort_natural-is-sorted-by-lower", len(got) == len(want) and all(a is b for a, b in zip(got, want)),
                    "sort_natural differs from sorted(key=str.lower) (stable)", **rp, got=got, want=want)
        hs = [{"k": w, "id": i} for i, w in enumerate(words)]
        hs.insert(len(hs) // 2, {"id": -1})
        hs.append({"id": -2})
        wantk = sorted(hs, key=lambda d: str(d.get("k", MAX_CH)).lower())
        gotk = self.f("sort_natural", hs, "k")
        self.expect("sort_natural-key-is-sorted-by-lower", len(gotk) == len(wantk) and
                    all(a is b for a, b in zip(gotk, wantk)),
                    "sort_natural: 'k' differs from sorted(key=lower of the property) (stable)", **rp,
                    got=[d.get("k") for d in gotk], want=[d.get("k") for d in wantk])
        gl = self.lam("sort_natural", hs, "k")
        self.expect("sort_natural-key-equals-lambda", gl[0] == "ok" and same(canon(gotk), gl[1]),
                    "sort_natural: 'k' differs from sort_natural: i => i.k", **rp,
                    key_form=[d.get("k") for d in gotk],
                    lambda_form=[d.get("k") for d in gl[1]] if gl[0] == "ok" else gl)

    # -- ties in the arrow-function sorts; no mutation of the input
    def tie_laws(self, items: list, keys: list) -> None:
        """items: distinct comparable-or-not objects; keys[i]: sort key of items[i] (None = missing)."""
        hs = [({"k": k, "o": it} if k is not None else {"o": it}) for it, k in zip(items, keys)]
        rp = {"items": items, "keys": keys}
        homog = len({type(k) for k in keys if k is not None}) <= 1
        if homog and (all(isinstance(k, str) for k in keys if k is not None) or None not in keys):
            want = sorted(hs, key=lambda d: d.get("k", MAX_CH))
            got = self.lam("sort", hs, "k")
            self.expect("sort-lambda-stable", got[0] == "ok" and same(got[1], canon(want)),
                        "sort: i => i.k is not the stable sort by the key (ties / missing keys keep input order)",
                        **rp, got=got)
        from liquid2.builtin.filters.sorting_filters import _ints
        wantn = sorted(hs, key=lambda d: _ints(d.get("k", MAX_CH)))
        gotn = self.lam("sort_numeric", hs, "k")
        self.expect("sort_numeric-lambda-stable", gotn[0] == "ok" and same(gotn[1], canon(wantn)),
                    "sort_numeric: i => i.k is not the stable sort by the numeric key", **rp, got=gotn)
        gotn2 = self.impl.render("{{ x | sort_numeric: 'k' | cap19 }}", {"x": hs})
        self.expect("sort_numeric-key-stable", gotn2[0] == "ok" and same(gotn2[1], canon(wantn)),
                    "sort_numeric: 'k' is not the stable sort by the numeric key", **rp, got=gotn2)
        strs = [str(it) for it in items if isinstance(it, str)]
        if strs:
            g1 = self.lam("sort", strs, "size")
            self.expect("sort-lambda-size-stable", g1[0] == "ok" and g1[1] == sorted(strs, key=len),
                        "sort: i => i.size on strings is not the stable sort by length", **rp, got=g1)
            g2 = self.lam("sort_numeric", strs, "size")
            self.expect("sort_numeric-lambda-size-stable", g2[0] == "ok" and g2[1] == sorted(strs, key=len),
                        "sort_numeric: i => i.size on strings is not the stable sort by length", **rp, got=g2)

    def uniq_twin_laws(self, vals: list) -> None:
        """Deduplication is by ==: 5 / 5.0 / true-1 twins, hashes equal up to insertion order."""
        rp = {"values": vals}
        missing = object()
        hs = [({"k": v, "id": i} if v is not missing else {"id": i}) for i, v in
              enumerate([missing if v == "<missing>" else v for v in vals])]

        def firsts(objs: list, key: Callable[[Any], Any]) -> list:
            seen: list = []
            out = []
            for o in objs:
                k = key(o)
                if not any(k is x or leq(x, k) for x in seen):
                    seen.append(k)
                    out.append(o)
            return out
        want = firsts(hs, lambda d: d.get("k", missing))
        got = self.f("uniq", hs, "k")
        self.expect("uniq-key-by-equality", len(got) == len(want) and all(a is b for a, b in zip(got, want)),
                    "uniq: 'k' does not keep the first item of each ==-class of the property", **rp,
                    got=[d["id"] for d in got], want=[d["id"] for d in want])
        gl = self.lam("uniq", hs, "k")
        self.expect("uniq-lambda-by-equality", gl[0] == "ok" and same(gl[1], canon(want)),
                    "uniq: i => i.k does not keep the first item of each ==-class of the property", **rp,
                    got=[d["id"] for d in gl[1]] if gl[0] == "ok" else gl, want=[d["id"] for d in want])
        plain = [({"v": v} if v != "<missing>" else {}) for v in vals]
        wantp = firsts(plain, lambda d: d)
        gotp = self.f("uniq", plain)
        self.expect("uniq-by-equality", len(gotp) == len(wantp) and all(a is b for a, b in zip(gotp, wantp)),
                    "uniq does not keep the first of each ==-class of hashes", **rp, got=gotp, want=wantp)

    def embedding_laws(self, left: Any, key: str, value: Any) -> None:
        """A hash is a hash whatever Mapping it is, an array whatever Sequence: every array filter,
        in its three forms, gives the same outcome on the same data embedded as other types."""
        if not has_containers(left):
            return
        calls: list[tuple[str, tuple, tuple | None]] = []
        for name in ("map", "sum", "uniq", "compact", "sort", "sort_natural", "sort_numeric"):
            calls += [(name, (key,), None), (name, (), (key, False))]
            if name != "map":
                calls.append((name, (), None))
        for name in ("where", "reject", "find", "find_index", "has"):
            calls += [(name, (key,), None), (name, (key, value), None), (name, (), (key, False)),
                      (name, (), (key, True))]
        calls += [("first", (), None), ("last", (), None), ("reverse", (), None), ("concat", ([1, [2]],), None),
                  ("slice", (1, 2), None), ("slice", (-1, 3), None)]

        def outcome(x: Any, name: str, args: tuple, lam: tuple | None) -> tuple:
            if lam is None:
                return self.impl.render(render_src(name, len(args)), {"x": x, **{f"a{i}": a for i, a in enumerate(args)}})
            return self.impl.render(lam_src(name, lam[0], lam[1]), {"x": x, "v": value})
        for name, args, lam in calls:
            if name == "slice" and isinstance(left, dict):
                continue
            if name in ("sort_natural", "sort_numeric", "join") and lam is None and not args and \
                    any(isinstance(i, (dict, list)) for i in seq_of(left)):
                continue                  # these order / print hashes and left-over nested arrays by their repr, which names the type
            base = outcome(left, name, args, lam)
            for mk, sk in (("mappingproxy", "tuple"), ("chainmap", "userlist"), ("userdict", "sequence"),
                           ("mapping", "range")):
                got = outcome(embed(left, mk, sk), name, args, lam)
                self.expect("hash-is-any-mapping-array-is-any-sequence", same_outcome(base, got),
                            f"{name} gives a different result on the same data held in a non-dict Mapping / "
                            f"non-list Sequence ({mk}, {sk})", left=left, filter=name, args=args,
                            arrow=f"i => i.{lam[0]}" + (" == v" if lam[1] else "") if lam else None, v=value,
                            plain=base, embedded=got)

    def sum_fold_laws(self, xs: list) -> None:
        """sum(xs) is the plus chain over xs (both add the decimals the floats print as), in the
        plain, 'k' and i => i.k forms; the few-digit operands make every partial sum exact."""
        rp = {"xs": xs}
        chain: Any = 0
        for x in xs:
            chain = self.f("plus", chain, x)
        exact = sum((Decimal(repr(x)) if isinstance(x, float) else Decimal(x) for x in xs), Decimal(0))
        want = float(exact) if any(isinstance(x, (float, str)) and not str(x).lstrip("-").isdigit() for x in xs) \
            else int(exact)
        got = self.f("sum", xs)
        self.expect("sum-is-plus-chain", same(got, chain) and same(got, want),
                    "sum differs from the chain of plus over the same numbers / from exact decimal addition",
                    **rp, got=got, chain=chain, want=want)
        hs = [{"k": x, "id": i} for i, x in enumerate(xs)]
        hs.insert(len(hs) // 2, {"id": -1})
        gk = self.f("sum", hs, "k")
        self.expect("sum-key-is-plus-chain", same(gk, chain), "sum: 'k' differs from the chain of plus", **rp,
                    got=gk, chain=chain)
        gl = self.lam("sum", hs, "k")
        self.expect("sum-lambda-is-plus-chain", gl[0] == "ok" and same(gl[1], chain),
                    "sum: i => i.k differs from the chain of plus", **rp, got=gl, chain=chain)

    def mutation_laws(self, a: list) -> None:
        import copy
        rp = {"a": a}
        before = copy.deepcopy(a)
        flat_a = flat(a)
        r1 = self.impl.render("{{ a | reverse | concat: a | cap19 }}", {"a": a})
        self.expect("reverse-concat-same-array", r1[0] == "ok" and same(r1[1], canon(flat(list(reversed(flat_a))) + list(a))),
                    "a | reverse | concat: a is not reversed(a) followed by a", **rp, got=r1)
        src = ("{% assign r = a | reverse %}{% assign s = a | sort_natural %}{% assign u = a | uniq %}"
               "{% assign c = a | compact %}{% assign j = a | concat: a %}{{ a | cap19 }}")
        for _ in range(2):      # rendered twice with the same data
            r2 = self.impl.render(src, {"a": a})
            self.expect("filters-do-not-mutate-input", r2[0] == "ok" and same(r2[1], canon(before)) and
                        same(canon(a), canon(before)),
                        "an array filter changed the array it was applied to", **rp, got=r2)
        if a:
            r3 = self.impl.plain.from_string("{{ a | reverse | first }}|{{ a | first }}|{{ a | last }}")
            if all(isinstance(v, (str, int)) and not isinstance(v, bool) for v in (a[0], a[-1])):
                out = r3.render(a=a)
                self.expect("reverse-then-first", out == f"{a[-1]}|{a[0]}|{a[-1]}" and r3.render(a=a) == out,
                            "{{ a | reverse | first }}|{{ a | first }}|{{ a | last }} is wrong or changes "
                            "between two renders", **rp, got=out)

    # -- strings
    def str_laws(self, s: str, t: str, sep: str, parts: list[str]) -> None:
        f = self.f
        rp = {"s": s, "t": t, "sep": sep, "parts": parts}
        if sep:
            if s not in ("", sep):
                self.expect("join-split", f("join", f("split", s, sep), sep) == s, "join sep (split sep s) != s", **rp)
            j = f("join", parts, sep)
            if parts and j not in ("", sep) and all(sep not in (p + sep[:-1]) for p in parts):
                self.expect("split-join", f("split", j, sep) == parts, "split sep (join sep xs) != xs", **rp)
            pieces = f("split", s, sep)
            self.expect("split-pieces", all(sep not in p for p in pieces) and
                        (len(pieces) == s.count(sep) + 1 or s in ("", sep)),
                        "split pieces contain the separator or their number is off", **rp, pieces=pieces)
        if no_surrogates(s):
            self.expect("url-roundtrip", f("url_decode", f("url_encode", s)) == s, "url_decode (url_encode s) != s", **rp)
            self.expect("base64-roundtrip", f("base64_decode", f("base64_encode", s)) == s, "base64 round trip", **rp)
            self.expect("base64-url-roundtrip", f("base64_url_safe_decode", f("base64_url_safe_encode", s)) == s,
                        "url-safe base64 round trip", **rp)
            enc = f("base64_url_safe_encode", s)
            self.expect("base64-url-alphabet", re.fullmatch(r"[A-Za-z0-9_=-]*", enc) is not None, "alphabet", **rp)
        e1 = f("escape_once", s)
        self.expect("escape-once-idempotent", f("escape_once", e1) == e1, "escape_once is not idempotent", **rp)
        self.expect("escape-once-after-escape", f("escape_once", f("escape", s)) == f("escape", s),
                    "escape_once (escape s) != escape s", **rp)
        self.expect("escape-no-specials", not re.search(r"[<>\"']", f("escape", s)), "escape leaves a special", **rp)
        self.expect("strip-is-lstrip-rstrip", f("strip", s) == f("lstrip", f("rstrip", s)) == f("rstrip", f("lstrip", s)),
                    "strip != lstrip . rstrip", **rp)
        self.expect("case-idempotent", f("upcase", f("upcase", s)) == f("upcase", s) and
                    f("downcase", f("downcase", s)) == f("downcase", s), "upcase/downcase not idempotent", **rp)
        self.expect("remove-is-replace-empty", f("remove", s, t) == f("replace", s, t, "") and
                    f("remove_first", s, t) == f("replace_first", s, t, "") and
                    f("remove_last", s, t) == f("replace_last", s, t, ""), "remove x != replace x ''", **rp)
        self.expect("append-prepend", f("append", s, t) == s + t and f("prepend", s, t) == t + s, "append/prepend", **rp)
        for arg, txt in ((True, "true"), (False, "false"), (None, ""), (7, "7"), ([1, None, "b", [True]], "1btrue")):
            self.expect("argument-coercion-is-liquid", f("append", s, arg) == s + txt == f("prepend", arg, s) and
                        f("prepend", s, arg) == txt + s and f("join", [s, t], arg) == s + txt + t and
                        f("truncate", s + "xxxx", len(s) + 1 + len(txt), arg) in (s + "x" + txt, s + "xxxx") and
                        f("truncatewords", "a b c", 2, arg) == "a b" + txt,
                        "append / join / truncate / truncatewords coerce an argument with Python str() instead "
                        "of Liquid's string coercion", **rp, arg=arg)
        if t:
            n = s.count(t)
            self.expect("remove-count", t not in f("remove", s, t) or True, "", **rp)
            self.expect("replace-first-last", (f("replace_first", s, t, "\x00") == s.replace(t, "\x00", 1)) and
                        (f("replace_last", s, t, "\x00").count("\x00") == (1 if n else 0)) and
                        f("replace_last", s, t, "\x00").replace("\x00", t) == s,
                        "replace_first / replace_last do not replace exactly one occurrence", **rp)
            if n:
                rl = f("replace_last", s, t, "\x00")
                self.expect("replace-last-is-last", t not in rl[rl.index("\x00") + 1:] or
                            s.rfind(t) == rl.index("\x00"), "replace_last did not pick the last occurrence", **rp)
        for n in (-2, 0, 1, 2, 3, len(s) - 1, len(s), len(s) + 1):
            for end in ("...", "", t):
                out = f("truncate", s, n, end)
                ok = out == s if len(s) <= n else out == s[:max(0, n - len(end))] + end
                self.expect("truncate-spec", ok and (len(out) <= max(n, len(end)) or out == s),
                            "truncate is neither the input nor prefix+end, or is longer than max(n, |end|)", **rp,
                            n=n, end=end, out=out)
        words = s.split()
        for n in (0, 1, 2, len(words), len(words) + 1):
            out = f("truncatewords", s, n)
            m = max(n, 1)
            self.expect("truncatewords-spec", out == (" ".join(words) if len(words) <= m else " ".join(words[:m]) + "..."),
                        "truncatewords", **rp, n=n, out=out)

    # -- numbers
    def int_laws(self, a: int, b: int) -> None:
        f = self.f
        rp = {"a": a, "b": b}
        self.expect("minus-undoes-plus", f("minus", f("plus", a, b), b) == a and f("plus", f("minus", a, b), b) == a,
                    "minus (plus a b) b != a", **rp)
        self.expect("plus-times-commute", f("plus", a, b) == f("plus", b, a) and f("times", a, b) == f("times", b, a)
                    and f("times", a, b) == a * b and type(f("times", a, b)) is int, "plus/times", **rp)
        if b != 0:
            q, m = f("divided_by", a, b), f("modulo", a, b)
            self.expect("division-law", type(q) is int and type(m) is int and f("plus", f("times", q, b), m) == a and
                        abs(m) < abs(b) and (m == 0 or (m > 0) == (b > 0)),
                        "a != (a // b) * b + a % b, or the remainder is out of range / has the wrong sign", **rp,
                        q=q, m=m)
        self.expect("abs-minmax", f("abs", a) == (a if a >= 0 else -a) and f("at_least", a, b) == max(a, b) and
                    f("at_most", a, b) == min(a, b), "abs / at_least / at_most", **rp)
        self.expect("rounding-identity-on-ints", f("ceil", a) == a and f("floor", a) == a and f("round", a) == a and
                    f("round", a, 2) == a and type(f("round", a)) is int, "ceil/floor/round change an int", **rp)
        for k in (1, 2, 5):
            rk = f("round", a, -k)
            self.expect("round-negative-digits", type(rk) is int and rk % 10 ** k == 0 and abs(rk - a) * 2 <= 10 ** k,
                        "round: -k is not the nearest multiple of 10^k", **rp, k=k, got=rk)
        for huge in (-(2 ** 62), -(10 ** 30), -(a.bit_length() + 1)):
            self.expect("round-huge-negative-digits", f("round", a, huge) == 0 and type(f("round", a, huge)) is int,
                        "round with a digit count above the bit length is not 0", **rp, digits=huge)
        self.expect("string-operands", f("plus", str(a), str(b)) == a + b and f("minus", str(a), b) == a - b,
                    "numeric strings", **rp)

    def dec_laws(self, a: str, b: str) -> None:
        f = self.f
        rp = {"a": a, "b": b}
        da, db = Decimal(a), Decimal(b)
        for name, exact in (("plus", da + db), ("minus", da - db), ("times", da * db)):
            if len(exact.as_tuple().digits) <= 28:
                self.expect(f"{name}-exact-decimal", f(name, a, b) == float(exact) and f(name, float(a), float(b)) == float(exact),
                            f"{name} differs from exact decimal arithmetic", **rp, expected=float(exact))
        self.expect("float-commute", f("plus", a, b) == f("plus", b, a) and f("times", a, b) == f("times", b, a),
                    "plus/times do not commute", **rp)
        import decimal
        try:
            m = f("modulo", a, b) if db != 0 else None
        except decimal.InvalidOperation:
            self.fail.append(("float-modulo-decimal-InvalidOperation",
                              "modulo with float operands raised decimal.InvalidOperation", rp))
            m = None
        except Exception as e:  # noqa: BLE001
            from liquid2.exceptions import LiquidTypeError
            if not isinstance(e, LiquidTypeError):
                raise
            m = None                     # quotient too large for the decimal context
        if m is not None:
            self.expect("float-modulo-no-negative-zero", math.copysign(1.0, m) > 0 or m != 0,
                        "float modulo gives -0.0", **rp, m=m)
            self.expect("float-modulo-range", abs(m) <= abs(float(b)) and (m == 0 or (m > 0) == (db > 0)),
                        "float modulo out of range or with the sign of the dividend", **rp, m=m)
            self.expect("float-modulo-int-agree", f("modulo", int(da), 7) == f("modulo", float(int(da)), 7),
                        "modulo of an integral float differs from the int", **rp)
        fa = float(a)
        if abs(da) < 2 ** 53:
            self.expect("float-ceil-floor", f("floor", a) == math.floor(da) and f("ceil", a) == math.ceil(da) and
                        f("round", a) == int(da.to_integral_value()), "floor/ceil/round of a decimal", **rp)
        self.expect("float-ceil-floor-bracket", f("floor", fa) <= fa <= f("ceil", fa) and
                    f("ceil", fa) - f("floor", fa) in (0, 1), "floor <= x <= ceil", **rp)
        self.expect("float-abs-minmax", f("abs", fa) == abs(fa) and f("at_least", fa, float(b)) == max(fa, float(b)) and
                    f("at_most", a, b) == min(fa, float(b)), "abs / at_least / at_most on floats", **rp)


# ------------------------------------------------------------------ main


# Recorded witnesses of the defects fixed by the proposed patches (C19/0001-0006,0008,0009 and, shared
# with C02, C02/0004 and C02/0008) (re-observed on every run;
# they print nothing unless the defect is back, in which case they are violations).
FIXED_WITNESSES: list[tuple[str, str, dict, str]] = [
    ("truncate-negative-slice-bound", "{{ 'hello' | truncate: 2 }}", {}, "..."),
    ("compact-key-missing-KeyError", "{{ x | compact: 'k' | map: 'n' | join: ',' }}",
     {"x": [{"k": 1, "n": "a"}, {"n": "b"}]}, "a"),
    ("property-truthiness-zero", "{{ x | where: 'k' | map: 'n' | join: ',' }}|{{ x | reject: 'k' | map: 'n' | join: ',' }}",
     {"x": [{"k": 0, "n": "a"}, {"k": False, "n": "b"}]}, "a|b"),
    ("has-tests-item-truthiness", "{{ x | has: 0 }}", {"x": [0, 1]}, "true"),
    ("property-python-equality", "{{ x | where: 'k', true | map: 'n' | join: ',' }}",
     {"x": [{"k": 1, "n": "a"}, {"k": True, "n": "b"}]}, "b"),
    ("map-null-sentinel", "{{ x | map: 'k' | compact | size }}", {"x": [{"k": 1}, {}]}, "1"),
    ("sum-non-numeric-string", "{{ x | sum }}", {"x": ["abc", 1]}, "1"),                    # C02/0008
    ("float-modulo-decimal-InvalidOperation", "{{ 1 | modulo: 0.0 }}", {}, "raises LiquidTypeError"),   # C02/0004
    ("float-modulo-sign", "{{ -7.0 | modulo: 2 }}|{{ 7.5 | modulo: -2 }}", {}, "1.0|-0.5"),
    ("remove-last-at-start", "{{ 'abc' | remove_last: 'a' }}|{{ 'abc' | replace_last: 'a', 'x' }}", {}, "bc|xbc"),
    ("truncatewords-exact-count-ellipsis", "{{ 'a b c' | truncatewords: 3 }}|{{ 'a b c' | truncatewords: 2 }}", {},
     "a b c|a b..."),                                                                       # C19/0010
    ("truncate-exact-length-ellipsis", "{{ 'abc' | truncate: 3 }}|{{ 'hello' | truncate: 5 }}|{{ 'abcd' | truncate: 3 }}",
     {}, "abc|hello|..."),                                                                  # C19/0011
    ("argument-python-str-coercion",
     "{{ 'x' | append: t }}|{{ 'x' | append: n }}|{{ 'x' | append: a }}|{{ a | join: n }}|"
     "{{ 'abcdefgh' | truncate: 5, n }}|{{ 'a b c' | truncatewords: 2, n }}", {"t": True, "n": None, "a": [1, 2]},
     "xtrue|x|x12|12|abcde|a b"),                                                           # C19/0013
    ("uniq-python-equality", "{{ x | uniq | join: ',' }}|{{ y | uniq | join: ',' }}",
     {"x": [1, True, 0, False], "y": [True, 1]}, "1,true,0,false|true,1"),                  # C19/0014
    ("slice-start-before-beginning", "{{ a | slice: -5, 2 | join: ',' }}|{{ a | slice: -10, 8 | join: ',' }}|"
     "{{ 'abcd' | slice: -6, 3 }}|{{ a | slice: -4, 2 | join: ',' }}", {"a": [1, 2, 3, 4]}, "|||1,2"),   # C19/0015
    ("round-negative-digits-zero", "{{ 15 | round: -1 }}|{{ 1234 | round: -2 }}|{{ 5.666 | round: -2 }}", {},
     "20|1200|0"),                                                                          # C19/0016
    ("float-modulo-negative-zero", "{{ -4.0 | modulo: 2 }}", {}, "0.0"),                    # C19/0017
    ("first-of-non-dict-mapping", "{{ h | first | join: ':' }}", {"h": MappingProxyType({"title": "x", "p": 1})},
     "title:x"),                                                                            # C19/0012
    # repaired in /repo by the C02 work (1faa9bc, 0b0af38, 8585e2b, e45da5e)
    ("uniq-index-key-IndexError", "{{ x | uniq: 0 | join: ',' }}", {"x": ["", "ab", "", "ac"]}, ",ab"),
    ("compact-index-key-IndexError", "{{ x | compact: 0 | join: ',' }}", {"x": ["", "ab", "c"]}, "ab,c"),
    ("filter-ValueError-escapes-render", "{{ 12512 | split: x }}", {"x": [None]}, "raises LiquidTypeError"),
    ("sum-inf-minus-inf", "{{ x | sum }}", {"x": ["inf", "-inf"]}, "raises LiquidTypeError"),
]


SHARD = 100


def correspond_robust(chk: C.Check, items: list[dict[str, Any]]) -> None:
    """C.correspond, shielded from coqc processes killed by the machine
    (out-of-memory kills under load leave a non-zero exit and no output):
    the cases are first evaluated with C.run_cases, shards that died without
    output are retried, and C.correspond then gives the verdict on every case
    that disagreed or still did not evaluate (plus a sample, so that the
    reporting path always runs)."""
    import time as _time
    todo = list(range(len(items)))
    bad: list[int] = []
    wall = 0.0
    for attempt in range(3):
        rc = C.run_cases(f"c19p{attempt}", IMPORTS, "", [items[i]["case"] for i in todo], shard=SHARD)
        wall += rc["wall"]
        bad += [todo[j] for j in rc["bad"]]
        died = [e for e in rc["errors"] if e.split(":", 1)[1].strip() == ""]
        if len(died) != len(rc["errors"]) or not died:
            # real coqc errors (with a message) are not retried
            todo = sorted({todo[j] for e in rc["errors"]
                           for j in range(int(e[1:5]) * SHARD, min(len(todo), (int(e[1:5]) + 1) * SHARD))})
            break
        todo = sorted({todo[j] for e in died
                       for j in range(int(e[1:5]) * SHARD, min(len(todo), (int(e[1:5]) + 1) * SHARD))})
        chk.notes.append(f"{len(died)} case shard(s) were killed without output (attempt {attempt + 1}); retrying")
        _time.sleep(5 * (attempt + 1))
    else:
        pass
    verdict = sorted(set(bad) | set(todo if rc["errors"] else []))
    sample = [i for i in range(0, len(items), max(1, len(items) // 40))][:40]
    chosen = sorted(set(verdict) | set(sample))
    C.correspond(chk, "c19", IMPORTS, "", [items[i] for i in chosen], what="filters", shard=SHARD)
    chk.coverage["model_cases"] = len(items)
    chk.coverage["model_disagreements"] = len(bad)
    chk.coverage.setdefault("correspondence_wall_s", {})["filters (all cases)"] = round(wall, 1)


# (signature, template, data, what the defect renders, description): reported while the defect is there
KNOWN_WITNESSES: list[tuple[str, str, dict, str, str]] = [
    ("sort-missing-key-non-string-property", "{{ x | sort: 'k' | map: 'k' | join: ',' }}",
     {"x": [{"k": 2}, {}, {"k": 1}]}, "raises LiquidTypeError",
     "sort: 'k' fails with LiquidTypeError when the property is numeric and one hash lacks it, although items "
     "without the property are documented to go last"),
    ("decimal-operand-treated-as-zero", "{{ d | plus: 1 }}|{{ d | times: 2 }}|{{ x | sum }}",
     {"d": Decimal("1.5"), "x": [Decimal("1.5"), 2]}, "1|0|2",
     "a decimal.Decimal operand of the arithmetic filters and of sum counts as 0 (num_arg / decimal_arg only "
     "know int, float and str), silently"),
    ("escape-once-decodes-entities", "{{ s | escape_once }}", {"s": "&nbsp;&copy; a=1&notit;=2"},
     "\xa0\xa9 a=1\xacit;=2",
     "escape_once is html.escape(html.unescape(s)): existing entities other than the five it writes are decoded "
     "instead of preserved (and '&not' is read as an entity without ';')"),
    ("round-half-even-ties", "{{ 2.5 | round }}|{{ -2.5 | round }}|{{ 0.5 | round }}|{{ 1.5 | round }}|{{ 0.25 | round: 1 }}",
     {}, "2|-2|0|2|0.2",
     "round sends an exact half to the even neighbour (Python's round) where Liquid rounds half away from zero "
     "(3|-3|1|2|0.3)"),
]


def main(chk: C.Check, build: C.Build) -> None:
    warnings.simplefilter("ignore")
    proofs_ok = C.proof_stage(chk, build, NEEDED)
    impl = Impl()
    g = Gen(C.rng("c19"))
    r = g.r
    thorough = chk.tier == "thorough"

    # ---- recorded witnesses of the fixed defects
    for sig, src, data, want in FIXED_WITNESSES:
        o = impl.plain.from_string(src)
        try:
            got = o.render(**data)
        except Exception as e:  # noqa: BLE001
            got = f"raises {type(e).__name__}"
        if got != want:
            chk.finding(sig, f"{src} renders {got!r}, expected {want!r} (is the proposed fix applied?)",
                        {"template": src, "data": data, "got": got, "expected": want})

    # ---- known findings: the recorded witnesses, re-observed on every run
    for sig, src, data, defect, what in KNOWN_WITNESSES:
        try:
            got = impl.plain.from_string(src).render(**data)
        except Exception as e:  # noqa: BLE001
            got = f"raises {type(e).__name__}"
        if got == defect:
            chk.finding(sig, what + f" ({src} -> {got})", {"template": src, "data": data, "got": got})

    # ---- direct oracle
    laws = Laws(impl)
    # fixed, not sampled: every arrow-function form over hashes of which some lack the property,
    # under the default and the StrictUndefined policy
    fixed = [{"k": 1, "t": "b"}, {"t": "a"}, {"k": None, "t": "c"}, {}, {"k": 0, "t": "a"}, {"k": "x"}]
    for name in ("where", "reject", "find", "find_index", "has", "map", "sort_natural", "sort_numeric", "uniq",
                 "compact", "sum"):
        for key in ("k", "t", "zz"):
            laws.guarded(laws.policy_laws, name, fixed, key, {"left": fixed, "key": key})
    laws.guarded(laws.policy_laws, "sort", [{"t": "b"}, {}, {"t": "a"}, {}], "t", {"key": "t"})
    n_law = 250 if not thorough else 2500
    for _ in range(n_law):
        left = g.array()
        key = g.pick(["k", "k", "n", "t", "zz", "size"])
        vals = [v for v in key_vals(seq_of(left), key) if v is not None]
        value = fresh(g.pick(vals)) if vals and r.random() < 0.7 else g.scalar("any")
        laws.guarded(laws.seq_laws, left, key, value)
        if _ % 4 == 0:
            laws.guarded(laws.embedding_laws, g.pick([left, g.array("dict"), g.array("hash-any"), [0, 1, 2]]), key, value)
    for _ in range(n_law):
        sep = g.pick([",", ", ", "a", "aa", "ab", "é", " ", "日"])
        parts = [g.ustr(r.choice([0, 1, 2, 3])) for _ in range(r.choice([1, 2, 3, 4]))]
        s = g.pick([g.ustr(), g.ustr(8), sep.join(parts), "aaa", "a&amp;b&lt;", "&#39;<x>", "  x  ", " y\x1c"])
        t = g.pick([g.ustr(1), g.ustr(2), s[:1], s[1:3], ""])
        laws.guarded(laws.str_laws, s, t, sep, parts)

    folding = ["Straße", "strasz", "STRASSE", "strasse", "straße", "ﬁ", "fi", "fj", "FI", "ﬂ", "fl", "İ", "I", "ı",
               "i", "i̇", "ΣΑΣ", "σας", "σασ", "ΟΔΟΣ", "οδος", "ß", "ss", "SS", "st", "ẞ", "K", "k", "ǅ", "ǆ", "Ǆ",
               "a", "B", "é", "É", "E", "z"]
    for n in range(max(20, n_law // 5)):
        words = folding if n == 0 else [fresh(g.pick(folding)) for _ in range(r.choice([2, 3, 5, 8]))]
        laws.guarded(laws.natural_laws, list(words))
    for n in range(max(20, n_law // 5)):
        m = r.choice([2, 3, 4, 6])
        items = [g.pick([{"n": i}, f"s{i}", f"{'ab'[i % 2]}{'x' * (i % 3)}", [i]]) for i in range(m)]
        pool = g.pick([[1, 2], ["a", "b"], [1, 2.0, 2, True], ["x10", "x9", "x10"], [3, "y3", 3.0]])
        keys = [None if r.random() < 0.25 else fresh(g.pick(pool)) for _ in range(m)]
        laws.guarded(laws.tie_laws, items, keys)
        twins = [5, 5.0, True, 1, 1.0, "5", [5, 1], [5.0, 1], [5, [True]], {"a": 1, "b": 2}, {"b": 2, "a": 1},
                 {"a": 1.0, "b": 2}, {"a": 1}, None, "<missing>", "", 0, False]
        pool = NONDYADIC + [1, -2, 10, "0.1", "3", 0.5, 2.5, "1.25", "-0.7"]
        laws.guarded(laws.sum_fold_laws, [0.1, 0.2] if n == 0 else
                     [fresh(g.pick(pool)) for _ in range(r.choice([1, 2, 3, 4, 6]))])
        laws.guarded(laws.uniq_twin_laws, [fresh(g.pick(twins)) for _ in range(r.choice([3, 5, 8, 12]))])
        laws.guarded(laws.mutation_laws, g.pick([g.array("int"), g.array("str"), g.array("nested"),
                                                   g.array("hash-any"), g.array("any"), [3, 1, 2], ["b", "a"]]))

    def big() -> int:
        return r.choice([1, -1]) * r.randrange(10 ** r.choice([0, 1, 2, 5, 18, 19, 20, 40, 60]) + 1)
    for _ in range(n_law * 2):
        laws.guarded(laws.int_laws, big(), big())

    def dstr() -> str:
        m = r.randrange(10 ** r.choice([1, 2, 3, 7, 12, 15]))
        return f"{r.choice(['', '-'])}{m}e{r.choice([-8, -4, -2, -1, 0, 1, 3, 8])}"
    for _ in range(n_law):
        laws.guarded(laws.dec_laws, dstr(), dstr())
    for law, what, replay in laws.fail:
        sig = law[len("KNOWN:"):] if law.startswith("KNOWN:") else "law:" + law
        chk.finding(sig, what, {"law": law, **replay, "how": "harness/c19.py Laws"})

    # ---- correspondence
    cases = gen_cases(g, chk.tier)
    items: list[dict[str, Any]] = []
    skipped: Counter = Counter()
    outcomes: Counter = Counter()
    per_filter: Counter = Counter()
    nontrivial: set[str] = set()
    glue_bad = 0
    # every array-filter case runs on plain dict / list data; a seeded half of those that hold a
    # hash or an array run a second time with the SAME value embedded as other Python types
    # (non-dict Mapping, non-list Sequence); the model term is the one of the plain value
    plan: list[tuple[dict[str, Any], tuple[str, str] | None]] = []
    p_exotic = 0.5 if not thorough else 0.8
    for c in cases:
        plan.append((c, None))
        if c["fam"] == "seq" and c["name"] not in ("split",) and has_containers(c["left"]) and r.random() < p_exotic:
            plan.append((c, (g.pick(list(MAP_KINDS)), g.pick(SEQ_KINDS))))
    exotic_cases = 0
    for c, emb in plan:
        name, left, args, lam = c["name"], c["left"], c["args"], c["lambda"]
        run_left = embed(left, *emb) if emb else left
        exotic_cases += emb is not None
        if lam is None:
            model = {"seq": seq_model, "str": str_model, "num": num_model}[c["fam"]](name, left, args)
            if model is None:
                skipped[name] += 1
                continue
            try:
                cv(left), [cv(a) for a in args]
            except TypeError:
                skipped[name] += 1
                continue
            snapshot = copy.deepcopy(canon((run_left, args)))
            d = impl.direct(name, run_left, args)
            data = {"x": run_left, **{f"a{i}": a for i, a in enumerate(args)}}
            rn = impl.render(render_src(name, len(args)), data)
            if not same(snapshot, canon((run_left, args))):
                chk.finding("glue:filter-mutated-its-arguments", f"{name} changed its input or arguments",
                            {"filter": name, "before": snapshot, "after": (run_left, args)})
            if not same_outcome(to_render(d), rn):
                glue_bad += 1
                chk.finding("glue:render-vs-direct-call",
                            f"{name}: render path gives {rn!r}, the filter callable gives {d!r}",
                            {"filter": name, "left": left, "args": args, "direct": d, "render": rn})
            o, via = d, False
            replay = {"filter": name, "left": left, "args": args, "implementation": d, "render": rn}
            if emb:
                replay["left_embedded_as"] = repr(run_left)[:400]
        else:
            key, wv, value = lam
            items_ = seq_of(left)
            vals = key_vals(items_, key)
            if name == "sort" and len(items_) >= 2 and any(isinstance(v, (list, tuple)) for v in vals):
                skipped[name] += 1
                continue
            if name == "sort_natural" and not all(in_str_domain(v) and not isinstance(v, (list, tuple)) and
                                                  ascii_case_ok(str(v)) for v in vals):
                skipped[name] += 1
                continue
            if name == "sort_numeric" and not all(isinstance(v, float) or (
                    in_str_domain(v) and not isinstance(v, (list, tuple)) and ascii_digits_only(str(v))) for v in vals):
                skipped[name] += 1
                continue
            model = lam_model(name, left, key, wv, value)
            o = impl.render(lam_src(name, key, wv), {"x": run_left, "v": value})
            via = True
            if not wv:
                # the undefined-policy axis, not sampled: the same call under StrictUndefined
                o_s = impl.render(lam_src(name, key, wv), {"x": run_left, "v": value}, strict=True)
                if not (o_s[0] == "ok" and isinstance(o_s[1], float) and not math.isfinite(o_s[1])):
                    per_filter[name + "/lambda/strict-undefined"] += 1
                    items.append({"case": c_case(model, o_s, True), "model": model,
                                  "replay": {"filter": name, "left": left, "lambda": f"i => i.{key}",
                                             "undefined": "StrictUndefined", "implementation": o_s}})
            replay = {"filter": name, "left": left, "lambda": f"i => i.{key}" + (" == v" if wv else ""), "v": value,
                      "implementation": o}
            if emb:
                replay["left_embedded_as"] = repr(run_left)[:400]
        if o[0] == "ok" and isinstance(o[1], float) and not math.isfinite(o[1]):
            skipped[name] += 1
            continue
        outcomes[o[0] if o[0] == "ok" else f"{o[0]}:{o[1]}"] += 1
        per_filter[name + ("/lambda" if lam else "") + ("/embedded" if emb else "")] += 1
        if o[0] == "ok" and (len(seq_of(left)) >= 2 if c["fam"] == "seq" else True):
            nontrivial.add(repr((name, left, args, lam, emb)))
        items.append({"case": c_case(model, o, via), "model": model, "replay": replay})

    correspond_robust(chk, items)
    C.proofs_verdict(chk, proofs_ok)

    sample_idx = list(range(0, len(items), max(1, len(items) // 6)))[:6]
    chk.coverage.update({
        "evaluations": len(items) + sum(laws.checked.values()),
        "distinct_nontrivial": len(nontrivial),
        "rule": ("correspondence cases: per filter, seeded argument tuples (unicode strings, ints up to 10^60, numeric "
                 "strings, floats as <=15-digit decimals, flat/nested arrays of scalars and hashes with duplicates, "
                 "missing keys, nils and mixed value types), each run through RenderContext.filter(name)(...) and "
                 "through render('{{ x | f: a0, a1 | cap19 }}') (lambda forms through render only), compared "
                 "exactly with the Coq model; non-trivial = distinct case whose filter returned a value (for array "
                 "filters: on an input of >= 2 elements); plus direct law checks on the implementation"),
        "samples": [items[i]["replay"] for i in sample_idx],
        "model_cases_per_filter": dict(sorted(per_filter.items())),
        "implementation_outcomes": dict(outcomes),
        "skipped_outside_model_domain": dict(skipped),
        "render_vs_direct_disagreements": glue_bad,
        "cases_with_non_dict_mapping_or_non_list_sequence": exotic_cases,
        "law_checks": dict(sorted(laws.checked.items())),
        "law_failures": len(laws.fail),
        "implementation_calls": impl.calls,
        "exhaustive": False,
        "tier_proved": "kernel (filter bodies with their coercion decorators)",
        "partial": "binary floating point: repr(float), true division, round(x, n) ties and float() are outside the "
                   "model; float operands are <=15-digit decimals and computed floats are compared through their "
                   "rounding interval",
    })
    chk.assumptions += [
        "a Python float is represented by the decimal its repr prints; only floats with <= 15 significant digits are generated",
        "str.lower/upper/capitalize are modelled for strings whose cased characters are ASCII; \\d and int() for ASCII digits",
        "sorted() is modelled as a stable sort over mutually comparable keys (numbers, strings); list-valued sort keys are outside the model",
        "html.unescape is a parameter of the escape_once theorems (hypothesis unescape (escape s) = s); executable only for the references html.escape emits and printable-ASCII numeric references",
        "tuples are identified with lists; dict keys are strings",
        "the models transcribe /repo with the fix: commits listed in known_findings.d/C19.json (status fixed); their witnesses are re-checked on every run",
    ]
