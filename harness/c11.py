"""C11 — static analysis over-approximates runtime usage and reports exact locations.

Tie (correspondence)
  * programs (a main template plus partials and parents served by a DictLoader)
    are generated as source text, parsed by the real engine, and the parsed node
    and expression objects are *reified* attribute by attribute (never through
    children()/expressions()/…scope()) into terms of Kernels/Analysis.v;
  * `Template.analyze()` / `analyze_async()` (both values of include_partials) and
    the helper methods are compared exactly - variables with segments and spans,
    globals, locals, filters, tags, dict and list order included - with
    `analyze` / `analyze_async` of the model run on the reified program;
  * the tracing interpreter of the model is run on the branch decisions observed
    in the real render (truthiness tests, loop lengths, when-matches, lambda
    applications, cycle indexes, partial `with`/`for` bindings) and its event
    trace (global-namespace lookups, filters applied, tags rendered) must equal
    the trace recorded on the real engine.

Direct oracle (failing-input search, on the real engine only)
  * instrumented global mapping, wrapped filters and a `Node.render` trace over
    several data sets per program must be included in the static report;
  * `source[span.start:span.end]` must be the reported variable path / filter
    name / tag markup for every reported location;
  * analyze_async() == analyze().
"""

from __future__ import annotations

import asyncio
import re
import warnings
from collections.abc import Mapping
from typing import Any

from . import common as C

IMPORTS = "From LQ Require Import Kernels.Analysis."
NEEDED = ["theories/Base/Str.v", "theories/Kernels/Analysis.v",
          "theories/Proofs/Analysis_proofs.v"]

# ---------------------------------------------------------------------------
# 1. Program generator (source text)

GLOBALS = ["a", "b", "c", "d"]          # scalars / objects supplied as data
LISTS = ["l", "m"]                      # always list valued
LOCALS = ["x", "y", "z"]                # names the programs bind
KEYS = ["k", "x", "size", "first", "n"]
PLAIN_FILTERS = ["upcase", "downcase", "size", "first", "last", "strip", "capitalize", "json"]
ARG_FILTERS = ["append", "prepend", "default", "join", "plus", "remove"]
LAMBDA_FILTERS = ["map", "where", "reject", "find", "has"]
PARTIALS = ["p0", "p1", "p2.html", "card.item.liquid", "snippets/card.liquid", "dir/q.x.y", "plain"]


def stem_of(name: str) -> str:
    """The name a partial's `with`/`for` value is bound to when there is no alias
    (the template's file name up to its first dot)."""
    return name.rsplit("/", 1)[-1].split(".")[0]


def stems(names: list[str]) -> list[str]:
    return [stem_of(n) for n in names if RE_IDENT.fullmatch(stem_of(n))]
MACROS = ["m0", "m1"]
BLOCKS = ["b0", "b1"]


RE_IDENT = re.compile(r"[a-zA-Z_][a-zA-Z0-9_]*")


class Gen:
    def __init__(self, r: Any, *, partials: list[str], allow_comments: bool = True,
                 self_name: str = "", tablerow: bool = False, shorthand: bool = False) -> None:
        self.tablerow = tablerow        # liquid2.shopify.Environment
        self.shorthand = shorthand      # Environment.shorthand_indexes
        # names a `with`/`for` binding without alias may give this template or its partials
        self.stems = stems(partials + ([self_name] if self_name else []))
        self.in_tstr = 0
        self.r = r
        self.partials = partials
        self.allow_comments = allow_comments
        self.macros_defined: list[str] = []

    # ---- expressions
    def name(self) -> str:
        r = self.r
        k = r.random()
        if self.stems and r.random() < 0.15:
            return r.choice(self.stems)
        if k < 0.5:
            return r.choice(GLOBALS)
        if k < 0.65:
            return r.choice(LISTS)
        if k < 0.95:
            return r.choice(LOCALS)
        return r.choice(["forloop", "block", "args", "kwargs"])

    def path(self, depth: int = 1, root: str | None = None) -> str:
        r = self.r
        s = root or self.name()
        for _ in range(r.choice([0, 0, 0, 1, 1, 2])):
            k = r.random()
            if self.shorthand and r.random() < 0.4:
                s += "." + r.choice(["0", "1", "10"])
            elif k < 0.5:
                s += "." + r.choice(KEYS)
            elif k < 0.65:
                s += f"[{r.choice([0, 1, -1])}]"
            elif k < 0.8:
                s += r.choice(["['k']", '["k k"]', "['x-y']"])
            elif depth > 0:
                s += f"[{self.path(depth - 1)}]"
            else:
                s += ".k"
        return s

    def literal(self) -> str:
        return self.r.choice(["1", "0", "2", "'s'", '"t"', "true", "false", "nil", "1.5", "''", "empty", "blank"])

    def primitive(self, depth: int = 1) -> str:
        r = self.r
        k = r.random()
        if k < 0.55:
            return self.path(depth)
        if k < 0.8:
            return self.literal()
        if k < 0.9 and not self.in_tstr:
            a = self.path(0) if r.random() < 0.6 else r.choice(["1", "0"])
            b = self.path(0) if r.random() < 0.6 else r.choice(["2", "3"])
            return f"({a}..{b})"
        if not self.in_tstr:
            return self.tstr(depth)
        return self.literal()

    def tstr(self, depth: int = 0) -> str:
        """A template string whose ${...} holds a filtered expression (allowed in every
        expression position: operands of conditions, when values, loop arguments ...)."""
        r = self.r
        self.in_tstr += 1
        try:
            inner = self.filtered(max(depth - 1, 0), ternary=r.random() < 0.2)
            if " | " not in inner and " if " not in inner:
                inner += " | " + self.filter(0)
            return r.choice(['"u${ ', '"${']) + inner + r.choice([' }v"', '}"'])
        finally:
            self.in_tstr -= 1

    def lam(self, depth: int) -> str:
        r = self.r
        if r.random() < 0.7:
            p = r.choice(["i", "x", "a"])
            head = p
        elif r.random() < 0.3:
            # a third parameter is never bound when the arrow function is applied
            p, q, t3 = r.choice(["i", "x"]), r.choice(["j", "y"]), r.choice(["c", "t", "z"])
            return f"({p}, {q}, {t3})", self.path(0, root=r.choice([p, t3, t3]))
        else:
            p = r.choice(["i", "x"])
            q = r.choice(["j", "y"])
            head = f"({p}, {q})"
        body = self.path(0, root=p) if r.random() < 0.8 else self.path(0)
        return head, body

    def filter(self, depth: int) -> str:
        r = self.r
        k = r.random()
        if k < 0.4:
            return r.choice(PLAIN_FILTERS)
        if k < 0.8:
            f = r.choice(ARG_FILTERS)
            if f == "default" and r.random() < 0.5:
                return f"default: {self.primitive(depth)}, allow_false: {self.primitive(0)}"
            return f"{f}: {self.primitive(depth)}"
        f = r.choice(LAMBDA_FILTERS)
        head, body = self.lam(depth)
        if f == "map":
            return f"map: {head} => {body}"
        op = r.choice(["", " == " + self.primitive(0), " and " + self.path(0), " or not " + self.path(0)])
        return f"{f}: {head} => {body}{op}"

    def filters(self, depth: int, lo: int = 0, hi: int = 2) -> str:
        return "".join(" | " + self.filter(depth) for _ in range(self.r.randint(lo, hi)))

    def filtered(self, depth: int = 1, *, ternary: bool | None = None) -> str:
        r = self.r
        if ternary is None:
            ternary = r.random() < 0.2
        left = self.primitive(depth)
        if r.random() < 0.08:
            left += ", " + self.primitive(0)
            if r.random() < 0.3:
                left += ", " + self.primitive(0)
        s = left + self.filters(depth)
        if ternary:
            s += " if " + self.boolean(depth)
            if r.random() < 0.7:
                s += " else " + self.primitive(depth) + self.filters(depth, 0, 1)
            if r.random() < 0.4:
                s += " || " + self.filter(depth) + self.filters(depth, 0, 1)
        return s

    def boolean(self, depth: int = 1) -> str:
        r = self.r
        k = r.random()
        if k < 0.08 and not self.in_tstr:
            return f"{self.tstr()} {r.choice(['==', '!=', 'contains'])} {r.choice([chr(39) + 'S' + chr(39), self.primitive(0)])}"
        if k < 0.45 or depth <= 0:
            return self.path(1) if r.random() < 0.8 else self.primitive(0)
        if k < 0.6:
            return f"{self.primitive(0)} {r.choice(['==', '!=', '<', '>', '<=', '>=', 'contains', 'in'])} {self.primitive(0)}"
        if k < 0.7:
            return "not " + self.boolean(depth - 1)
        if k < 0.85:
            return f"{self.boolean(depth - 1)} {r.choice(['and', 'or'])} {self.boolean(depth - 1)}"
        return f"({self.boolean(depth - 1)} {r.choice(['and', 'or'])} {self.boolean(depth - 1)})"

    def loop(self) -> str:
        r = self.r
        v = r.choice(LOCALS + ["i"])
        k = r.random()
        if k < 0.45:
            it = r.choice(LISTS)
        elif k < 0.6:
            it = self.path(1, root=r.choice(GLOBALS)) if r.random() < 0.5 else r.choice(GLOBALS) + ".k"
        elif k < 0.8:
            it = f"({r.choice(['1', self.path(0)])}..{r.choice(['2', '3', self.path(0)])})"
        elif k < 0.9:
            return f"{v} in {self.primitive(0)}, {self.primitive(0)}"
        else:
            it = r.choice(LISTS)
        s = f"{v} in {it}"
        if r.random() < 0.25:
            s += f" limit: {r.choice(['1', '2', self.path(0), self.primitive(0)])}"
        if r.random() < 0.2:
            s += f" offset: {r.choice(['1', 'continue', self.path(0), self.primitive(0)])}"
        if r.random() < 0.1:
            s += " reversed"
        return s

    def kwargs(self, lo: int, hi: int) -> str:
        r = self.r
        return ", ".join(f"{r.choice(LOCALS + ['k'])}: {self.primitive(1)}" for _ in range(r.randint(lo, hi)))

    # ---- nodes
    def nodes(self, depth: int, n: int, *, liquid: bool = False, in_block: bool = False) -> list[tuple]:
        return [self.node(depth, liquid=liquid, in_block=in_block) for _ in range(n)]

    def repeated_partial(self, liquid: bool) -> tuple:
        """The same partial used twice with different argument sets, then uses of
        the argument names at the includer's level (directly and inside a block)."""
        r = self.r
        name = r.choice(self.partials)
        kinds = r.choice([("include", "include"), ("include", "include"), ("render", "render"),
                          ("include", "render"), ("render", "include")])
        argsets = r.sample([["x"], ["y"], ["x", "y"], [], ["k"], ["z", "x"]], 2)
        used = sorted({a for s_ in argsets for a in s_}) or ["x"]
        out: list[tuple] = []
        for kind, args in zip(kinds, argsets):
            e = f"'{name}'"
            k = r.random()
            if k < 0.2:
                e += f" with {self.primitive(0)}"
            elif k < 0.35:
                e += f" for {r.choice(LISTS)}" + (f" as {r.choice(used)}" if r.random() < 0.5 else "")
            if args:
                e += ", " + ", ".join(f"{a}: {self.primitive(0)}" for a in args)
            out.append(("t", kind, e))
            if r.random() < 0.3:
                out.append(("t", "echo", r.choice(used)))
        use = r.choice(used)
        out.append(("t", "echo", self.path(0, root=use)) if liquid or r.random() < 0.5 else ("out", self.path(0, root=use)))
        if r.random() < 0.6:
            out.append(("b", "if", self.path(0), [("t", "echo", r.choice(used + ([stem_of(name)] if RE_IDENT.fullmatch(stem_of(name)) else [])))], []))
        return ("seq", out)

    def partial_tag(self) -> tuple:
        r = self.r
        kind = r.choice(["include", "render"]) if self.partials else "echo"
        if kind == "echo":
            return ("t", "echo", self.filtered())
        name = r.choice(self.partials)
        q = r.choice(["'", '"'])
        e = f"{q}{name}{q}"
        k = r.random()
        if k < 0.25:
            e += f" with {self.primitive(0)}"
            if r.random() < 0.5:
                e += f" as {r.choice(LOCALS)}"
        elif k < 0.45:
            e += f" for {r.choice(LISTS + [self.path(0)])}"
            if r.random() < 0.5:
                e += f" as {r.choice(LOCALS)}"
        if r.random() < 0.5:
            kw = self.kwargs(1, 2)
            e += (", " if (" with " in e or " for " in e or r.random() < 0.7) else " ") + kw
        return ("t", kind, e)

    def node(self, depth: int, *, liquid: bool = False, in_block: bool = False) -> tuple:
        r = self.r
        k = r.random()
        if not liquid:
            if k < 0.12:
                return ("text", r.choice(["t", " ", "tt\n", "w "]))
            if k < 0.32:
                return ("out", self.filtered())
            if k < 0.35:
                return ("raw", r.choice(["{{ a }}", "r", ""]))
            if k < 0.39 and self.allow_comments:
                return ("cmt", r.choice([0, 1, 2]), r.choice(["c", " {{ b }} ", ""]))
            if k < 0.42 and depth > 0:
                return ("liq", self.nodes(depth - 1, r.randint(1, 3), liquid=True))
        k = r.random()
        if k < 0.14:
            return ("t", "assign", f"{r.choice(LOCALS)} = {self.filtered()}")
        if k < 0.22:
            return ("t", "echo", self.filtered())
        if k < 0.25:
            return ("t", r.choice(["increment", "decrement"]), r.choice(LOCALS + ["n"]))
        if k < 0.29:
            items = ", ".join(self.primitive(0) for _ in range(r.randint(1, 3)))
            grp = r.choice(["", "", "g: ", "'h': "])
            return ("t", "cycle", grp + items)
        if k < 0.31 and not liquid and self.allow_comments:
            # markup directly after a comment (token offsets)
            nxt = r.choice([("t", "echo", self.filtered(0)), ("out", self.path(1)), ("raw", "r"),
                            ("t", "assign", f"{r.choice(LOCALS)} = {self.path(0)}"), ("t", "increment", "n")])
            return ("seq", [("cmt", r.choice([0, 1, 2]), r.choice(["c", " c ", ""])), nxt])
        if k < 0.33 and self.partials:
            return self.repeated_partial(liquid)
        if k < 0.42:
            return self.partial_tag()
        if k < 0.44 and self.macros_defined:
            e = r.choice(self.macros_defined + MACROS)
            args = [self.primitive(0) for _ in range(r.randint(0, 2))]
            kw = [f"{r.choice(['p', 'q', 'k'])}: {self.primitive(0)}" for _ in range(r.randint(0, 1))]
            if args or kw:
                e += " " + ", ".join(args + kw)
            return ("t", "call", e)
        if depth <= 0:
            return ("t", "echo", self.filtered())
        d = depth - 1
        nb = lambda: self.nodes(d, r.randint(0, 2), liquid=liquid, in_block=in_block)  # noqa: E731
        if k < 0.58:
            name = r.choice(["if", "if", "unless"])
            clauses = [("elsif", self.boolean(), nb()) for _ in range(r.choice([0, 0, 1, 2]))]
            if r.random() < 0.5:
                clauses.append(("else", "", nb()))
            return ("b", name, self.boolean(), nb(), clauses)
        if k < 0.66:
            clauses = []
            for _ in range(r.randint(0, 2)):
                ws = self.primitive(0)
                if r.random() < 0.4:
                    ws += r.choice([", ", " or "]) + self.primitive(0)
                clauses.append(("when", ws, nb()))
            if r.random() < 0.6:
                clauses.append(("else", "", nb()))
            return ("b", "case", self.primitive(0), None, clauses)
        if k < (0.73 if self.tablerow else 0.80):
            clauses = [("else", "", nb())] if r.random() < 0.4 else []
            return ("b", "for", self.loop(), nb(), clauses)
        if k < 0.80 + (0.03 if self.tablerow else 0):
            e = self.loop().replace(" offset: continue", "")
            if r.random() < 0.7 and "," not in e:
                e += f" cols: {r.choice(['2', self.path(0), self.path(1)])}"
            self.tablerow = False           # the tablerow parser does not accept a nested tablerow
            try:
                return ("b", "tablerow", e, nb(), [])
            finally:
                self.tablerow = True
        if k < 0.85:
            return ("b", "capture", r.choice(LOCALS), nb(), [])
        if k < 0.91:
            return ("b", "with", self.kwargs(1, 2), nb(), [])
        if k < 0.96 and not in_block:
            name = r.choice(MACROS)
            ps = []
            for p in r.sample(["p", "q"], r.randint(0, 2)):
                ps.append(p if r.random() < 0.6 else f"{p}: {self.primitive(0)}")
            self.macros_defined.append(name)
            return ("b", "macro", name + (" " + ", ".join(ps) if ps else ""), nb(), [])
        return ("b", "if", self.boolean(), nb(), [])

    def block(self, name: str, depth: int, *, sup: bool) -> tuple:
        body = self.nodes(depth, self.r.randint(0, 2), in_block=True)
        if sup:
            body.insert(self.r.randint(0, len(body)), ("out", "block.super"))
        req = " required" if self.r.random() < 0.05 else ""
        return ("b", "block", name + req, body, [])


def wc(r: Any) -> tuple[str, str]:
    if r.random() < 0.85:
        return "", ""
    return r.choice(["-", "~", "", "+"]), r.choice(["-", "~", ""])


def show(nodes: list[tuple], r: Any) -> str:
    out = []
    for n in nodes:
        k = n[0]
        if k == "seq":
            out.append(show(n[1], r))
        elif k == "text":
            out.append(n[1])
        elif k == "out":
            a, b = wc(r)
            out.append("{{" + a + " " + n[1] + " " + b + "}}")
        elif k == "raw":
            out.append("{% raw %}" + n[1] + "{% endraw %}")
        elif k == "cmt":
            out.append(["{#" + n[2] + "#}", "{% #" + n[2].replace("\n", " ") + "%}",
                        "{% comment %}" + n[2] + "{% endcomment %}"][n[1]])
        elif k == "liq":
            lines = show_lines(n[1], 1)
            k_ = r.random()
            if k_ < 0.6:
                out.append("{% liquid\n" + "\n".join(lines) + "\n%}")
            elif k_ < 0.8:       # the tag is closed on the line of its last statement
                out.append("{% liquid\n" + "\n".join(lines) + r.choice([" %}", " -%}", "%}"]))
            else:                # ... and opened on the line of its first
                out.append("{% liquid " + "\n".join(lines).lstrip() + r.choice([" %}", "\n%}"]))
        elif k == "t":
            a, b = wc(r)
            out.append("{%" + a + " " + n[1] + " " + n[2] + " " + b + "%}")
        else:
            _, name, e, body, clauses = n
            a, b = wc(r)
            out.append("{%" + a + " " + name + " " + e + " " + b + "%}")
            if body is None:
                out.append(r.choice(["", " ", "\n"]))
            else:
                out.append(show(body, r))
            for cn, ce, cb in clauses:
                out.append("{% " + cn + (" " + ce if ce else "") + " %}" + show(cb, r))
            out.append("{% end" + name + " %}")
    return "".join(out)


def show_lines(nodes: list[tuple], ind: int) -> list[str]:
    pad = "  " * ind
    out: list[str] = []
    for n in nodes:
        if n[0] == "seq":
            out += show_lines(n[1], ind)
        elif n[0] == "t":
            out.append(pad + n[1] + " " + n[2])
        elif n[0] == "b":
            _, name, e, body, clauses = n
            out.append(pad + name + " " + e)
            if body is not None:
                out += show_lines(body, ind + 1)
            for cn, ce, cb in clauses:
                out.append(pad + cn + (" " + ce if ce else ""))
                out += show_lines(cb, ind + 1)
            out.append(pad + "end" + name)
        else:  # pragma: no cover - the liquid generator emits tags only
            raise AssertionError(n)
    return out


def gen_program(r: Any, *, depth: int, size: int, cyclic: bool = False, comments: bool = True) -> dict[str, str]:
    """Return {loader key: source} (+ '__root__', '__env__' entries, see split_opts)."""
    k = r.random()
    env_kind = "shopify" if k < 0.15 else "shorthand" if k < 0.27 else "default"
    progs = _gen_program(r, depth=depth, size=size, cyclic=cyclic, comments=comments,
                         flags={"tablerow": env_kind == "shopify", "shorthand": env_kind == "shorthand"})
    if env_kind != "default":
        progs["__env__"] = env_kind
    if "base" not in progs and not cyclic and r.random() < 0.2:
        # a root loaded by a hierarchical name, next to a different template whose name is
        # the root's base name, which the root includes or renders
        g = Gen(r, partials=[], allow_comments=comments)
        other = show(g.nodes(0, r.randint(1, 2)) + [("t", "assign", f"{r.choice(LOCALS)} = {g.filtered(0)}")], r)
        root = r.choice(["layouts/main", "a/b/main"])
        tag = r.choice(["include", "render"])
        body = progs.pop("main")
        pos = r.choice([0, len(body)])
        progs[root] = body[:pos] + "{% " + tag + " 'main' %}" + body[pos:]
        progs["main"] = other
        progs["__root__"] = root
    if not cyclic and r.random() < 0.2:
        # a loader that uses the `tag=` keyword: some partials exist for one tag only
        text = "".join(v for k_, v in progs.items() if not k_.startswith("__"))
        for name in [k_ for k_ in progs if not k_.startswith("__") and k_ != progs.get("__root__", "main")]:
            users = {t for t in TAGS_WITH_LOADER_KW
                     if re.search(r"\b" + t + r"\s+['\"]?" + re.escape(name) + r"['\"]?[\s,%-]", text)}
            if len(users) == 1 and r.random() < 0.8:
                progs[next(iter(users)) + "/" + name] = progs.pop(name)
    return progs


def _gen_program(r: Any, *, depth: int, size: int, cyclic: bool, comments: bool, flags: dict[str, bool]) -> dict[str, str]:
    progs: dict[str, str] = {}
    npart = r.choice([0, 1, 2, 3, 3])
    names = r.sample(PARTIALS, npart)
    # partial i may refer to partials j > i only (no runtime recursion) unless cyclic
    for i in reversed(range(npart)):
        g = Gen(r, partials=names if cyclic else names[i + 1:], allow_comments=comments, self_name=names[i], **flags)
        progs[names[i]] = show(g.nodes(max(depth - 1, 0), r.randint(0, max(1, size // 2))), r)
    inherit = r.random() < 0.35
    g = Gen(r, partials=names, allow_comments=comments, **flags)
    if inherit:
        chain = r.choice([["base"], ["mid", "base"]])
        used = r.sample(BLOCKS, r.randint(1, 2))
        gb = Gen(r, partials=names, allow_comments=comments, **flags)
        base_nodes = gb.nodes(depth, r.randint(0, 2))
        for bn in used:
            base_nodes.insert(r.randint(0, len(base_nodes)), gb.block(bn, depth - 1, sup=False))
        if r.random() < 0.3:
            base_nodes.append(gb.block("b9", 0, sup=False))
        progs["base"] = show(base_nodes, r)
        if "mid" in chain:
            gm = Gen(r, partials=names, allow_comments=comments, **flags)
            mid_nodes: list[tuple] = [("t", "extends", r.choice(["'base'", '"base"', "base"]))]
            for bn in r.sample(used, r.randint(0, len(used))):
                mid_nodes.append(gm.block(bn, depth - 1, sup=r.random() < 0.5))
            if r.random() < 0.3:
                mid_nodes.insert(0, ("text", "lead"))
            progs["mid"] = show(mid_nodes, r)
        main_nodes: list[tuple] = [("t", "extends", "'" + chain[0] + "'")]
        if r.random() < 0.3:
            main_nodes = g.nodes(0, 1) + main_nodes
        for bn in r.sample(used, r.randint(0, len(used))):
            main_nodes.append(g.block(bn, depth - 1, sup=r.random() < 0.5))
        if r.random() < 0.3:
            main_nodes += g.nodes(depth - 1, 1)
        progs["main"] = show(main_nodes, r)
    else:
        main_nodes = g.nodes(depth, r.randint(1, size))
        text = show(main_nodes, r)
        for nm in names:
            if ("'" + nm + "'") not in text and ('"' + nm + '"') not in text and r.random() < 0.7:
                save = g.partials
                g.partials = [nm]
                main_nodes.insert(r.randint(0, len(main_nodes)), g.partial_tag())
                g.partials = save
        progs["main"] = show(main_nodes, r)
    return progs


def gen_data(r: Any, mode: str) -> dict[str, Any]:
    def obj(d: int) -> Any:
        o = {"k": [1, 2] if d else [{"k": 1, "x": "s"}, {"k": 0, "x": None}], "x": r.choice([1, "s", 0]),
             "n": r.choice([0, 1, 2]), "k k": 1, "x-y": 2}
        return o

    def scalar() -> Any:
        if mode == "true":
            return r.choice([1, "s", 2, "t", obj(0)])
        if mode == "false":
            return r.choice([False, None])
        return r.choice([1, "s", obj(0), False, None, 0, "", 2, 3, "u"])

    def lst() -> Any:
        n = {"true": 2, "false": 0}.get(mode, r.choice([0, 1, 2, 3]))
        return [obj(1) for _ in range(n)]

    d: dict[str, Any] = {v: scalar() for v in GLOBALS}
    d.update({v: lst() for v in LISTS})
    # program-bound names are sometimes supplied as data too (shadowing)
    if mode == "mix" and r.random() < 0.5:
        d[r.choice(LOCALS)] = scalar()
    return d


# ---------------------------------------------------------------------------
# 2. Reification of parsed templates


class Unsupported(Exception):
    pass


# set by Engine.load_all while a template is reified: id(path token) -> (template, start, stop)
_REIFY: dict[str, Any] = {"tn": None, "tokens": None}


def _tok(node: Any) -> tuple:
    from liquid2.token import is_lines_token, is_raw_token, is_tag_token
    t = node.token
    if is_tag_token(t):
        return ("tag", t.name, t.start, t.stop)
    if is_lines_token(t):
        return ("lines", t.name, t.start, t.stop)
    if is_raw_token(t):
        return ("raw", t.start, t.stop)
    return ("other",)


def _ident(i: Any) -> tuple:
    return (str(i), i.token.start, i.token.stop)


def reify_expr(e: Any) -> tuple:
    from liquid2.builtin import expressions as X
    from liquid2.builtin.tags.case_tag import _AnyExpression
    c = type(e)
    if c in (X.Null, X.Empty, X.Blank, X.Continue, X.TrueLiteral, X.FalseLiteral, X.StringLiteral,
             X.IntegerLiteral, X.FloatLiteral):
        return ("lit",)
    if c is X.RangeLiteral:
        return ("range", reify_expr(e.start), reify_expr(e.stop))
    if c is X.ArrayLiteral:
        return ("array", [reify_expr(i) for i in e.items])
    if c is X.TemplateString:
        return ("tstr", [reify_expr(i) for i in e.template])
    if c is X.LambdaExpression:
        return ("lam", [str(p) for p in e.params], reify_expr(e.expression))
    if c is X.Path:
        segs = []
        for s in e.path:
            if isinstance(s, X.Path):
                segs.append(("p", reify_expr(s)))
            elif isinstance(s, bool):
                raise Unsupported("bool segment")
            elif isinstance(s, int):
                segs.append(("i", s))
            elif isinstance(s, str):
                segs.append(("n", s))
            else:
                raise Unsupported(f"segment {s!r}")
        if not segs or segs[0][0] != "n":
            raise Unsupported("path root is not a name")
        if _REIFY["tokens"] is not None:
            _REIFY["tokens"][id(e.token)] = (_REIFY["tn"], e.token.start, e.token.stop)
        return ("path", e.token.start, e.token.stop, segs)
    if c is X.FilteredExpression:
        return ("filt", reify_expr(e.left), [reify_filter(f) for f in (e.filters or [])])
    if c is X.TernaryFilteredExpression:
        if type(e.left) is not X.FilteredExpression:
            raise Unsupported("ternary left")
        return ("tern", reify_expr(e.left), reify_expr(e.condition),
                reify_expr(e.alternative) if e.alternative else None,
                [reify_filter(f) for f in (e.filters or [])],
                [reify_filter(f) for f in (e.tail_filters or [])])
    if c is X.BooleanExpression:
        return ("bool", reify_expr(e.expression))
    if c is X.LogicalNotExpression:
        return ("not", reify_expr(e.expression))
    if c is X.LogicalAndExpression:
        return ("and", reify_expr(e.left), reify_expr(e.right))
    if c is X.LogicalOrExpression:
        return ("or", reify_expr(e.left), reify_expr(e.right))
    if c in (X.EqExpression, X.NeExpression, X.LeExpression, X.GeExpression, X.LtExpression,
             X.ContainsExpression):
        return ("cmp", False, reify_expr(e.left), reify_expr(e.right))
    if c in (X.GtExpression, X.InExpression):
        return ("cmp", True, reify_expr(e.left), reify_expr(e.right))
    if c is X.LoopExpression:
        opt = lambda x: reify_expr(x) if x is not None else None  # noqa: E731
        return ("loop", str(e.identifier), reify_expr(e.iterable), opt(e.limit), opt(e.offset), opt(e.cols))
    if c is _AnyExpression:
        return ("any", reify_expr(e.left), [reify_expr(x) for x in e.expressions])
    raise Unsupported(f"expression class {c.__name__}")


def reify_filter(f: Any) -> tuple:
    return ("f", f.name, f.token.start, f.token.stop, [reify_expr(a.value) for a in f.args])


def reify_node(n: Any, owner: dict[int, Any], tname: str) -> tuple:
    import liquid2.ast as A
    from liquid2.builtin import comment as CM, content as CT, output as OU
    from liquid2.builtin.tags import (assign_tag, capture_tag, case_tag, cycle_tag, decrement_tag,
                                       echo_tag, extends_tag, for_tag, if_tag, include_tag,
                                       increment_tag, liquid_tag, macro_tag, raw_tag, render_tag,
                                       unless_tag, with_tag)
    from liquid2.builtin.expressions import StringLiteral
    c = type(n)
    owner[id(n)] = (tname, n)
    tk = _tok(n)
    R = lambda x: reify_node(x, owner, tname)  # noqa: E731
    O = lambda x: R(x) if x is not None else None  # noqa: E731
    if c is CT.ContentNode:
        return ("NContent", tk)
    if c is CM.CommentNode:
        return ("NComment", tk)
    if c is raw_tag.RawNode:
        return ("NRaw", tk)
    if c is OU.OutputNode:
        return ("NOutput", tk, reify_expr(n.expression))
    if c is echo_tag.EchoNode:
        return ("NEcho", tk, reify_expr(n.expression))
    if c is assign_tag.AssignNode:
        return ("NAssign", tk, _ident(n.name), reify_expr(n.expression))
    if c is capture_tag.CaptureNode:
        return ("NCapture", tk, _ident(n.name), R(n.block))
    if c in (if_tag.IfNode, unless_tag.UnlessNode):
        return ("NIf" if c is if_tag.IfNode else "NUnless", tk, reify_expr(n.condition), R(n.consequence),
                [R(a) for a in n.alternatives], O(n.default))
    if c is case_tag.CaseNode:
        if any(w.expression.left is not n.expression for w in n.whens):
            raise Unsupported("when expression does not share the case expression")
        return ("NCase", tk, reify_expr(n.expression), [R(w) for w in n.whens], O(n.default))
    if c is for_tag.ForNode:
        return ("NFor", tk, reify_expr(n.expression), R(n.block), O(n.default))
    if c is with_tag.WithNode:
        return ("NWith", tk, [(a.name, reify_expr(a.value)) for a in n.args], R(n.block))
    if c is increment_tag.IncrementNode:
        return ("NIncrement", tk, _ident(n.name))
    if c is decrement_tag.DecrementNode:
        return ("NDecrement", tk, _ident(n.name))
    if c is cycle_tag.CycleNode:
        return ("NCycle", tk, [reify_expr(i) for i in n.items])
    if c is macro_tag.MacroNode:
        return ("NMacro", tk, str(n.name),
                [(p.name, reify_expr(p.value) if p.value else None) for p in n.args.values()], R(n.block))
    if c is macro_tag.CallNode:
        return ("NCall", tk, str(n.name), [reify_expr(a.value) for a in n.args],
                [(a.name, reify_expr(a.value)) for a in n.kwargs])
    if c in (include_tag.IncludeNode, render_tag.RenderNode):
        if type(n.name) is not StringLiteral:
            raise Unsupported("dynamic partial name")
        return ("NInclude" if c is include_tag.IncludeNode else "NRender", tk, str(n.name.value), bool(n.loop),
                reify_expr(n.var) if n.var else None, str(n.alias) if n.alias else None,
                [(a.name, reify_expr(a.value)) for a in n.args])
    if c is extends_tag.ExtendsNode:
        return ("NExtends", tk, str(n.name.value))
    if c is extends_tag.BlockNode:
        return ("NBlock", tk, str(n.name), bool(n.required), R(n.block))
    if c is liquid_tag.LiquidNode:
        return ("NLiquid", tk, R(n.block))
    if c.__name__ == "TablerowNode" and c.__module__ == "liquid2.shopify.tags.tablerow_tag":
        return ("NTablerow", tk, reify_expr(n.expression), R(n.block))
    if c is A.BlockNode:
        return ("WBlock", tk, [R(x) for x in n.nodes])
    if c.__name__ == "LoopBlockNode" and c.__module__ == "liquid2.builtin.tags.for_tag":
        return ("WLoopBlock", tk, [str(i) for i in n.block_scope()], [R(x) for x in n.nodes])
    if c is A.ConditionalBlockNode:
        return ("WCond", tk, reify_expr(n.expression), R(n.block))
    if c is case_tag.MultiExpressionBlockNode:
        return ("WMulti", tk, reify_expr(n.expression), R(n.block))
    raise Unsupported(f"node class {c.__name__}")


# ---------------------------------------------------------------------------
# 3. Running the real engine with instrumentation


class RecordingGlobals(Mapping):  # type: ignore[type-arg]
    """The application's global namespace: records every key it is asked for."""

    def __init__(self, data: dict[str, Any], log: list[tuple]) -> None:
        self.data = data
        self.log = log

    def __getitem__(self, key: str) -> Any:
        self.log.append(("G", key))
        return self.data[key]

    def __iter__(self):  # type: ignore[no-untyped-def]
        return iter(self.data)

    def __len__(self) -> int:
        return len(self.data)


class RecordingFilter:
    """Wraps one entry of env.filters; records its name whenever it is applied."""

    def __init__(self, name: str, func: Any, sink: list) -> None:
        self.__dict__["_name"] = name
        self.__dict__["_func"] = func
        self.__dict__["_sink"] = sink

    def __call__(self, *a: Any, **k: Any) -> Any:
        self._sink[0].append(("F", self._name))
        return self._func(*a, **k)

    def __getattr__(self, item: str) -> Any:
        return getattr(self.__dict__["_func"], item)


TAGS_WITH_LOADER_KW = ("include", "render", "extends")


def split_opts(progs: dict[str, str]) -> tuple[dict[str, str], str, str]:
    """A program is {loader key: source} plus the optional entries '__root__' (name the
    entry template is loaded by, default 'main') and '__env__' (environment kind)."""
    t = {k: v for k, v in progs.items() if not k.startswith("__")}
    return t, progs.get("__root__", "main"), progs.get("__env__", "default")


def bare_name(key: str) -> str:
    """'include/p' -> 'p' (templates a tag-aware loader serves to one tag only, from a
    directory of their own)."""
    for t in TAGS_WITH_LOADER_KW:
        if key.startswith(t + "/"):
            return key[len(t) + 1:]
    return key


class Engine:
    """One environment for a program, with every observation hook installed.

    templates: loader key -> source. A key 'include/p' / 'render/p' is served (by a
    loader that uses the documented `tag=` keyword of get_source) to that tag only,
    under the name 'p'. root: the name the entry template is loaded by.
    env_kind: 'default' | 'shopify' (tablerow) | 'shorthand' (shorthand_indexes)."""

    def __init__(self, templates: dict[str, str], *, root: str = "main", env_kind: str = "default") -> None:
        from liquid2 import DictLoader, Environment

        class MemoLoader(DictLoader):
            """DictLoader that parses every template once, so that the node objects seen
            by the render trace are the ones that were reified; resolves `tag=`."""

            def __init__(self, t: dict[str, str]) -> None:
                super().__init__(t)
                self.memo: dict[str, Any] = {}

            def resolve(self, name: str, tag: Any) -> str:
                if tag and f"{tag}/{name}" in self.templates:
                    return f"{tag}/{name}"
                return name

            def get_source(self, env: Any, template_name: str, *, context: Any = None, **kw: Any) -> Any:
                return super().get_source(env, self.resolve(template_name, kw.get("tag")), context=context, **kw)

            def load(self, env: Any, name: str, **kw: Any) -> Any:
                key = self.resolve(name, kw.get("tag"))
                if key not in self.memo:
                    self.memo[key] = super().load(env, name, **kw)
                return self.memo[key]

            async def load_async(self, env: Any, name: str, **kw: Any) -> Any:
                key = self.resolve(name, kw.get("tag"))
                if key not in self.memo:
                    self.memo[key] = await super().load_async(env, name, **kw)
                return self.memo[key]

        if env_kind == "shopify":
            from liquid2.shopify import Environment as Env
        elif env_kind == "shorthand":
            class Env(Environment):  # type: ignore[no-redef]
                shorthand_indexes = True
        else:
            Env = Environment  # type: ignore[misc]
        self.templates = templates
        self.root = root
        self.env_kind = env_kind
        self.sources = {bare_name(k): v for k, v in templates.items()}
        self.sink: list[list] = [[]]
        self.env = Env(loader=MemoLoader(templates))
        for name in list(self.env.filters):
            self.env.filters[name] = RecordingFilter(name, self.env.filters[name], self.sink)
        self.owner: dict[int, Any] = {}
        self.tok_owner: dict[int, tuple] = {}
        self.reified: dict[str, list[tuple]] = {}
        self.parsed: dict[str, Any] = {}

    def load_all(self) -> None:
        for key in self.templates:
            name = bare_name(key)
            t = self.env.get_template(name, tag=key[: -len(name) - 1]) if key != name else self.env.get_template(name)
            self.parsed[name] = t
            _REIFY["tn"], _REIFY["tokens"] = name, self.tok_owner
            try:
                self.reified[name] = [reify_node(n, self.owner, name) for n in t.nodes]
            finally:
                _REIFY["tn"], _REIFY["tokens"] = None, None

    def replace(self, key: str, source: str) -> None:
        """Edit a template in the loader (as an application updating its store would) and
        reify the new version; Template objects handed out earlier stay as they are."""
        self.templates[key] = source
        self.sources[bare_name(key)] = source
        self.env.loader.templates[key] = source
        self.env.loader.memo.pop(key, None)
        name = bare_name(key)
        t = self.env.get_template(name, tag=key[: -len(name) - 1]) if key != name else self.env.get_template(name)
        self.parsed[name] = t
        _REIFY["tn"], _REIFY["tokens"] = name, self.tok_owner
        try:
            self.reified[name] = [reify_node(n, self.owner, name) for n in t.nodes]
        finally:
            _REIFY["tn"], _REIFY["tokens"] = None, None

    def main(self) -> Any:
        if self.root not in self.parsed:
            self.parsed[self.root] = self.env.get_template(self.root)
        return self.parsed[self.root]


def _span(s: Any) -> tuple:
    return (s.template_name, s.start, s.end)


def _segs(x: Any) -> Any:
    return [_segs(i) for i in x] if isinstance(x, list) else x


def analysis_obs(a: Any) -> dict[str, Any]:
    vm = lambda m: [(k, [(_segs(v.segments), _span(v.span)) for v in vs]) for k, vs in m.items()]  # noqa: E731
    sm = lambda m: [(k, [_span(s) for s in vs]) for k, vs in m.items()]  # noqa: E731
    return {"variables": vm(a.variables), "globals": vm(a.globals), "locals": vm(a.locals),
            "filters": sm(a.filters), "tags": sm(a.tags)}


def run_static(eng: Engine, include_partials: bool = True) -> dict[str, Any]:
    """analyze() and analyze_async() of 'main' (or the error class they raise)."""
    from liquid2.exceptions import LiquidError
    t = eng.main()
    out: dict[str, Any] = {}
    for key, call in (("sync", lambda: t.analyze(include_partials=include_partials)),
                      ("async", lambda: asyncio.run(t.analyze_async(include_partials=include_partials)))):
        try:
            out[key] = ("ok", analysis_obs(call()))
        except LiquidError as e:
            out[key] = ("err", type(e).__name__)
        except RecursionError:
            out[key] = ("err", "RecursionError")
    return out


def helper_obs(t: Any) -> dict[str, Any]:
    run = asyncio.run
    return {
        "variables": (t.variables(), run(t.variables_async())),
        "global_variables": (t.global_variables(), run(t.global_variables_async())),
        "filter_names": (t.filter_names(), run(t.filter_names_async())),
        "tag_names": (t.tag_names(), run(t.tag_names_async())),
        "variable_segments": (_segs(t.variable_segments()), _segs(run(t.variable_segments_async()))),
        "global_variable_segments": (_segs(t.global_variable_segments()), _segs(run(t.global_variable_segments_async()))),
        "variable_paths": (t.variable_paths(), run(t.variable_paths_async())),
        "global_variable_paths": (t.global_variable_paths(), run(t.global_variable_paths_async())),
    }


class Hooks:
    """Monkeypatches installed in the harness process only, for the time of one render."""

    def __init__(self, eng: Engine, events: list[tuple], decisions: list[Any]) -> None:
        self.eng = eng
        self.events = events
        self.dec = decisions
        self.saved: list[tuple[Any, str, Any]] = []
        self.frames: list[dict[str, Any]] = []

    def patch(self, obj: Any, attr: str, new: Any) -> None:
        self.saved.append((obj, attr, obj.__dict__[attr] if attr in obj.__dict__ else getattr(obj, attr)))
        setattr(obj, attr, new)

    def __enter__(self) -> "Hooks":
        import liquid2.ast as A
        from liquid2.builtin import expressions as X
        from liquid2.builtin.tags import case_tag, include_tag, render_tag
        from liquid2.context import RenderContext
        from liquid2.template import Template
        events, dec, frames, eng = self.events, self.dec, self.frames, self.eng
        wrappers = (A.BlockNode, A.ConditionalBlockNode, case_tag.MultiExpressionBlockNode)
        from liquid2.builtin import comment as CM, content as CT, output as OU
        not_tags = wrappers + (CT.ContentNode, CM.CommentNode, OU.OutputNode)

        orig_render = A.Node.render

        def render(node: Any, context: Any, buffer: Any) -> int:
            if context.disabled_tags:
                node.raise_for_disabled(context.disabled_tags)
            if not isinstance(node, not_tags):
                own = eng.owner.get(id(node))
                events.append(("T", own[0] if own else None, type(node).__name__, id(node)))
            return orig_render(node, context, buffer)

        self.patch(A.Node, "render", render)

        orig_get = RenderContext.get

        def ctx_get(self_: Any, path: Any, **kw: Any) -> Any:
            events.append(("L", path[0], id(kw.get("token"))))
            return orig_get(self_, path, **kw)

        self.patch(RenderContext, "get", ctx_get)

        orig_resolve = RenderContext.resolve

        def ctx_resolve(self_: Any, name: str, *a: Any, **kw: Any) -> Any:
            events.append(("R", name))
            return orig_resolve(self_, name, *a, **kw)

        self.patch(RenderContext, "resolve", ctx_resolve)

        orig_truthy = X.is_truthy

        def is_truthy(obj: Any) -> bool:
            rv = orig_truthy(obj)
            dec.append(1 if rv else 0)
            return rv

        self.patch(X, "is_truthy", is_truthy)

        orig_loop = X.LoopExpression.evaluate

        def loop_eval(self_: Any, context: Any) -> Any:
            it, n = orig_loop(self_, context)
            dec.append(n)
            return it, n

        self.patch(X.LoopExpression, "evaluate", loop_eval)

        orig_eq = case_tag._eq

        def eq(left: Any, right: Any) -> bool:
            rv = orig_eq(left, right)
            dec.append(1 if rv else 0)
            return rv

        self.patch(case_tag, "_eq", eq)

        orig_map = X.LambdaExpression.map

        def lam_map(self_: Any, context: Any, it: Any) -> Any:
            cell = [0]
            dec.append(cell)
            for item in orig_map(self_, context, _Counting(it, cell)):
                yield item

        self.patch(X.LambdaExpression, "map", lam_map)

        orig_cycle = RenderContext.cycle

        def cycle(self_: Any, cycle_hash: int, length: int) -> int:
            rv = orig_cycle(self_, cycle_hash, length)
            dec.append(rv)
            return rv

        self.patch(RenderContext, "cycle", cycle)

        # partial `with`/`for` binding: 0 = bound once, n+1 = iterated over n items
        for cls in (include_tag.IncludeNode, render_tag.RenderNode):
            orig_rto = cls.render_to_output

            def rto(self_: Any, context: Any, buffer: Any, _orig: Any = orig_rto) -> int:
                fr = {"need": self_.var is not None, "partial": True, "ns": None}
                frames.append(fr)
                try:
                    return _orig(self_, context, buffer)
                finally:
                    frames.pop()
                    if fr["ns"] is not None:
                        # the names the engine really bound for the partial
                        events.append(("B", id(self_), tuple(sorted(map(str, fr["ns"])))))

            self.patch(cls, "render_to_output", rto)

        # an exception raised while `block.super` renders the parent block is
        # swallowed by RenderContext.get (it catches KeyError/TypeError around
        # get_item): such a run is not comparable with the model
        from liquid2.builtin.tags import extends_tag
        orig_drop = extends_tag.BlockDrop.__getitem__

        def drop_getitem(self_: Any, key: str) -> Any:
            try:
                return orig_drop(self_, key)
            except KeyError:
                if key == "super":
                    dec.append("swallowed")
                raise
            except Exception:
                dec.append("swallowed")
                raise

        self.patch(extends_tag.BlockDrop, "__getitem__", drop_getitem)

        orig_extend = RenderContext.extend

        def extend(self_: Any, namespace: Any, template: Any = None) -> Any:
            if template is not None and frames and frames[-1].get("partial") and frames[-1]["ns"] is None:
                frames[-1]["ns"] = namespace
            return orig_extend(self_, namespace, template)

        self.patch(RenderContext, "extend", extend)

        orig_copy = RenderContext.copy

        def copy(self_: Any, token: Any, *, namespace: Any, **kw: Any) -> Any:
            if kw.get("template") is not None and frames and frames[-1].get("partial") and frames[-1]["ns"] is None:
                frames[-1]["ns"] = namespace
            return orig_copy(self_, token, namespace=namespace, **kw)

        self.patch(RenderContext, "copy", copy)

        # `render ... for`: the ForLoop object is built once, before the first item
        from liquid2.builtin.tags import for_tag
        orig_forloop_init = for_tag.ForLoop.__init__

        def forloop_init(self_: Any, *a: Any, **kw: Any) -> None:
            orig_forloop_init(self_, *a, **kw)
            if frames and frames[-1].get("partial") and frames[-1]["need"]:
                frames[-1]["need"] = False
                dec.append(self_.length + 1)

        self.patch(for_tag.ForLoop, "__init__", forloop_init)

        orig_limit = RenderContext.raise_for_loop_limit

        def limit(self_: Any, length: int = 1) -> None:
            if frames and frames[-1]["need"]:
                frames[-1]["need"] = False
                dec.append(length + 1)
            return orig_limit(self_, length)

        self.patch(RenderContext, "raise_for_loop_limit", limit)

        orig_rwc = Template.render_with_context

        def rwc(self_: Any, context: Any, buf: Any, *a: Any, **k: Any) -> int:
            if frames and frames[-1]["need"]:
                frames[-1]["need"] = False
                dec.append(0)
            frames.append({"need": False})
            try:
                return orig_rwc(self_, context, buf, *a, **k)
            finally:
                frames.pop()

        self.patch(Template, "render_with_context", rwc)
        return self

    def __exit__(self, *exc: Any) -> None:
        for obj, attr, old in reversed(self.saved):
            setattr(obj, attr, old)


class _Counting:
    """Iterable wrapper counting how many items a lambda was applied to."""

    def __init__(self, it: Any, cell: list[int]) -> None:
        self.it = it
        self.cell = cell

    def __iter__(self):  # type: ignore[no-untyped-def]
        for x in self.it:
            self.cell[0] += 1
            yield x


def run_render(eng: Engine, data: dict[str, Any]) -> dict[str, Any]:
    """Render 'main' with `data` as the template's global namespace and return
    the recorded events and branch decisions."""
    from liquid2.exceptions import LiquidError
    events: list[tuple] = []
    decisions: list[Any] = []
    eng.sink[0] = events
    t = eng.main()
    saved = t.global_data
    t.global_data = RecordingGlobals(data, events)
    status = "ok"
    try:
        with Hooks(eng, events, decisions):
            try:
                t.render()
            except LiquidError as e:
                status = type(e).__name__
            except RecursionError:
                status = "RecursionError"
            except Exception as e:  # noqa: BLE001 - not a LiquidError: C02's business, the trace stays valid
                status = "PyExc:" + type(e).__name__
    finally:
        t.global_data = saved
        eng.sink[0] = []
    if "swallowed" in decisions and status == "ok":
        status = "error-swallowed-in-block-super"
    dec = [d[0] if isinstance(d, list) else d for d in decisions if d != "swallowed"]
    return {"status": status, "events": events, "decisions": dec}


# ---------------------------------------------------------------------------
# 4. Coq terms


def c_span(a: int, b: int) -> str:
    return f"({a}, {b})%Z"


def c_opt(x: str | None, ty: str) -> str:
    return f"(None : option {ty})" if x is None else f"(Some {x})"


def c_expr(e: tuple | None) -> str:
    k = e[0]
    L = lambda xs: C.clist([c_expr(x) for x in xs], "expr")  # noqa: E731
    O = lambda x: c_opt(c_expr(x) if x is not None else None, "expr")  # noqa: E731
    F = lambda fs: C.clist([c_filter(f) for f in fs], "lfilter")  # noqa: E731
    if k == "lit":
        return "ELit"
    if k == "path":
        _, a, b, segs = e
        ss = []
        for s in segs[1:]:
            if s[0] == "n":
                ss.append(f"(SName {C.cstr(s[1])})")
            elif s[0] == "i":
                ss.append(f"(SIdx ({s[1]})%Z)")
            else:
                ss.append(f"(SPath {c_expr(s[1])})")
        return f"(EPath {c_span(a, b)} {C.cstr(segs[0][1])} {C.clist(ss, 'seg')})"
    if k == "range":
        return f"(ERange {c_expr(e[1])} {c_expr(e[2])})"
    if k == "array":
        return f"(EArray {L(e[1])})"
    if k == "tstr":
        return f"(ETemplateString {L(e[1])})"
    if k == "lam":
        return f"(ELambda {C.clist([C.cstr(p) for p in e[1]], 'str')} {c_expr(e[2])})"
    if k == "filt":
        return f"(EFiltered {c_expr(e[1])} {F(e[2])})"
    if k == "tern":
        return f"(ETernary {c_expr(e[1][1])} {F(e[1][2])} {c_expr(e[2])} {O(e[3])} {F(e[4])} {F(e[5])})"
    if k == "bool":
        return f"(EBool {c_expr(e[1])})"
    if k == "not":
        return f"(ENot {c_expr(e[1])})"
    if k == "and":
        return f"(EAnd {c_expr(e[1])} {c_expr(e[2])})"
    if k == "or":
        return f"(EOr {c_expr(e[1])} {c_expr(e[2])})"
    if k == "cmp":
        return f"(ECmp {C.cbool(e[1])} {c_expr(e[2])} {c_expr(e[3])})"
    if k == "loop":
        return f"(ELoop {C.cstr(e[1])} {c_expr(e[2])} {O(e[3])} {O(e[4])} {O(e[5])})"
    if k == "any":
        return f"(EAny {L(e[2])})"
    raise AssertionError(k)


def c_filter(f: tuple) -> str:
    _, name, a, b, args = f
    return f"(Filter {C.cstr(name)} {c_span(a, b)} {C.clist([c_expr(x) for x in args], 'expr')})"


def c_tok(t: tuple) -> str:
    if t[0] == "tag":
        return f"(TTag {C.cstr(t[1])} {c_span(t[2], t[3])})"
    if t[0] == "lines":
        return f"(TLines {C.cstr(t[1])} {c_span(t[2], t[3])})"
    if t[0] == "raw":
        return f"(TRaw {c_span(t[1], t[2])})"
    return "TOther"


def c_ident(i: tuple) -> str:
    return f"({C.cstr(i[0])}, {c_span(i[1], i[2])})"


def c_kw(args: list[tuple]) -> str:
    return C.clist([f"({C.cstr(k)}, {c_expr(v)})" for k, v in args], "(str * expr)")


def c_node(n: tuple) -> str:
    k = n[0]
    t = c_tok(n[1])
    N = c_node
    NL = lambda xs: C.clist([c_node(x) for x in xs], "node")  # noqa: E731
    NO = lambda x: c_opt(c_node(x) if x is not None else None, "node")  # noqa: E731
    EO = lambda x: c_opt(c_expr(x) if x is not None else None, "expr")  # noqa: E731
    if k in ("NContent", "NComment", "NRaw"):
        return f"({k} {t})"
    if k in ("NOutput", "NEcho"):
        return f"({k} {t} {c_expr(n[2])})"
    if k == "NAssign":
        return f"(NAssign {t} {c_ident(n[2])} {c_expr(n[3])})"
    if k == "NCapture":
        return f"(NCapture {t} {c_ident(n[2])} {N(n[3])})"
    if k in ("NIf", "NUnless"):
        return f"({k} {t} {c_expr(n[2])} {N(n[3])} {NL(n[4])} {NO(n[5])})"
    if k == "NCase":
        return f"(NCase {t} {c_expr(n[2])} {NL(n[3])} {NO(n[4])})"
    if k == "NFor":
        return f"(NFor {t} {c_expr(n[2])} {N(n[3])} {NO(n[4])})"
    if k == "NWith":
        return f"(NWith {t} {c_kw(n[2])} {N(n[3])})"
    if k in ("NIncrement", "NDecrement"):
        return f"({k} {t} {c_ident(n[2])})"
    if k == "NCycle":
        return f"(NCycle {t} {C.clist([c_expr(x) for x in n[2]], 'expr')})"
    if k == "NMacro":
        ps = C.clist([f"({C.cstr(p)}, {EO(v)})" for p, v in n[3]], "(str * option expr)")
        return f"(NMacro {t} {C.cstr(n[2])} {ps} {N(n[4])})"
    if k == "NCall":
        return f"(NCall {t} {C.cstr(n[2])} {C.clist([c_expr(x) for x in n[3]], 'expr')} {c_kw(n[4])})"
    if k in ("NInclude", "NRender"):
        return (f"({k} {t} {C.cstr(n[2])} {C.cbool(n[3])} {EO(n[4])} "
                f"{c_opt(C.cstr(n[5]) if n[5] is not None else None, 'str')} {c_kw(n[6])})")
    if k == "NExtends":
        return f"(NExtends {t} {C.cstr(n[2])})"
    if k == "NBlock":
        return f"(NBlock {t} {C.cstr(n[2])} {C.cbool(n[3])} {N(n[4])})"
    if k == "NLiquid":
        return f"(NLiquid {t} {N(n[2])})"
    if k == "NTablerow":
        return f"(NTablerow {t} {c_expr(n[2])} {N(n[3])})"
    if k == "WBlock":
        return f"(WBlock {t} {NL(n[2])})"
    if k == "WLoopBlock":
        return f"(WLoopBlock {t} {C.clist([C.cstr(x) for x in n[2]], 'str')} {NL(n[3])})"
    if k in ("WCond", "WMulti"):
        return f"({k} {t} {c_expr(n[2])} {N(n[3])})"
    raise AssertionError(k)


def c_segs(segs: list) -> str:
    out = []
    for s in segs:
        if isinstance(s, list):
            out.append(f"(VSub {c_segs(s)})")
        elif isinstance(s, int):
            out.append(f"(VIdx ({s})%Z)")
        else:
            out.append(f"(VName {C.cstr(str(s))})")
    return C.clist(out, "segv")


def c_analysis(a: dict[str, Any]) -> str:
    def vm(m: list) -> str:
        return C.clist([f"({C.cstr(k)}, " + C.clist(
            [f"{{| v_segs := {c_segs(sg)}; v_tn := {C.cstr(sp[0])}; v_span := {c_span(sp[1], sp[2])} |}}"
             for sg, sp in vs], "variable") + ")" for k, vs in m], "(str * list variable)")

    def sm(m: list) -> str:
        return C.clist([f"({C.cstr(k)}, " + C.clist(
            [f"({C.cstr(sp[0])}, {c_span(sp[1], sp[2])})" for sp in vs], "(str * span)") + ")"
            for k, vs in m], "(str * list (str * span))")

    return (f"{{| a_variables := {vm(a['variables'])}; a_globals := {vm(a['globals'])}; "
            f"a_locals := {vm(a['locals'])}; a_filters := {sm(a['filters'])}; a_tags := {sm(a['tags'])} |}}")


ERR = {"TemplateNotFoundError": "TemplateNotFoundError"}


def c_static_expected(obs: tuple) -> str:
    if obs[0] == "ok":
        return f"(Ok {c_analysis(obs[1])})"
    if obs[1] in ERR:
        return f"(LErr {ERR[obs[1]]} None)"
    return "(PyExc OtherPyError)"


def c_loader(eng: Engine) -> str:
    return C.clist([f"({C.cstr(name)}, {C.clist([c_node(n) for n in nodes], 'node')})"
                    for name, nodes in eng.reified.items()], "(str * list node)")


def tag_of(eng: Engine, ev: tuple) -> tuple[str, str, int, int] | None:
    """(tag name, template name, start, stop) of a rendered tag node, by an
    independent reading of the node (its token, or 'raw' for RawNode)."""
    from liquid2.token import is_lines_token, is_raw_token, is_tag_token
    own = eng.owner.get(ev[3])
    if own is None:
        return None
    tname, node = own
    t = node.token
    if is_tag_token(t) or is_lines_token(t):
        return (t.name, tname, t.start, t.stop)
    if is_raw_token(t):
        return ("raw", tname, t.start, t.stop)
    return None


def model_events(eng: Engine, events: list[tuple]) -> list[str] | None:
    """The recorded engine trace as a list of model events."""
    out: list[str] = []
    i = 0
    while i < len(events):
        e = events[i]
        if e[0] in ("L", "R"):
            glob = i + 1 < len(events) and events[i + 1][:2] == ("G", e[1])
            ctor = "EvLookup" if e[0] == "L" else "EvResolve"
            out.append(f"({ctor} {C.cstr(e[1])} {'KGlobal' if glob else 'KBound'})")
            i += 2 if glob else 1
        elif e[0] == "G":
            return None   # the global mapping was read outside get()/resolve()
        elif e[0] == "F":
            out.append(f"(EvFilter {C.cstr(e[1])} false)")
            i += 1
        elif e[0] == "B":
            i += 1
        else:
            tg = tag_of(eng, e)
            if tg is not None:
                out.append(f"(EvTag {C.cstr(tg[0])} {C.cstr(tg[1])} {c_span(tg[2], tg[3])})")
            i += 1
    return out


# ---------------------------------------------------------------------------
# 5. Direct oracle on the real engine

RE_COMMENT_PREFIX = re.compile(
    r"^(?:\{#.*?#\}|\{%[-+~]?\s*#.*?%\}|(?:(?!\{%[-+~]?\s*endcomment).)*\{%[-+~]?\s*endcomment\s*[-+~]?%\})+", re.S)
RE_WORD = re.compile(r"[\u0080-￿a-zA-Z_][\u0080-￿a-zA-Z0-9_-]*")


def path_text(segs: list) -> str:
    """Canonical text of a variable path (what the span must cover, modulo
    quoting style and inner whitespace)."""
    out = str(segs[0])
    for s in segs[1:]:
        if isinstance(s, list):
            out += "[" + path_text(s) + "]"
        elif isinstance(s, int):
            out += f"[{s}]"
        elif RE_WORD.fullmatch(s):
            out += "." + s
        else:
            out += "['" + s + "']"
    return out


def norm_path(text: str) -> str:
    t = re.sub(r"\s+", "", text)
    t = re.sub(r"\.(\d+)(?![\w-])", r"[\1]", t)          # shorthand index a.0 == a[0]
    t = re.sub(r"\[\s*\"([^\"]*)\"\s*\]", r"['\1']", t)
    t = re.sub(r"\['([\u0080-￿a-zA-Z_][\u0080-￿a-zA-Z0-9_-]*)'\]", r".\1", t)
    return t


def span_findings(eng: Engine, a: dict[str, Any]) -> list[tuple[str, str, dict]]:
    """source[start:end] must be the reported item, for every reported location."""
    out: list[tuple[str, str, dict]] = []

    def src_of(tn: str) -> str | None:
        return eng.sources.get(tn)

    def bad(sig: str, what: str, tn: str, sp: tuple, item: str) -> None:
        out.append((sig, what, {"template": tn, "span": sp[1:], "item": item,
                                "text": (src_of(tn) or "")[max(sp[1], 0):sp[2] if sp[2] >= 0 else None][:80]}))

    for kind in ("variables", "globals", "locals"):
        for _, vs in a[kind]:
            for segs, sp in vs:
                src = src_of(sp[0])
                want = path_text(segs)
                if src is None:
                    bad("span-unknown-template", f"{kind}: span names template {sp[0]!r}", sp[0], sp, want)
                    continue
                got = src[sp[1]:sp[2]] if 0 <= sp[1] <= sp[2] <= len(src) else None
                if got is None or norm_path(got) != norm_path(want):
                    ng, nw = norm_path(got or ""), norm_path(want)
                    if got and nw.startswith(ng) and re.match(r"\[\d+\]", nw[len(ng):]) and re.match(r"\.\d", src[sp[2]:sp[2] + 2]):
                        bad("span-shorthand-index-too-short",
                            f"span of {want!r} stops before its shorthand index: it covers {got!r}", sp[0], sp, want)
                    elif sp[2] == -1 and src[sp[1]:].startswith(want + ".."):
                        bad("span-path-stop-minus-one",
                            f"variable {want!r} in a range expression is reported with stop index -1", sp[0], sp, want)
                    else:
                        bad("span-not-exact", f"{kind}: span of {want!r} covers {got!r}", sp[0], sp, want)
    for name, sps in a["filters"]:
        for sp in sps:
            src = src_of(sp[0])
            got = src[sp[1]:sp[2]] if src is not None and 0 <= sp[1] <= sp[2] <= len(src) else None
            if got != name:
                bad("span-not-exact", f"filter {name!r}: span covers {got!r}", sp[0], sp, name)
    for name, sps in a["tags"]:
        for sp in sps:
            src = src_of(sp[0])
            got = src[sp[1]:sp[2]] if src is not None and 0 <= sp[1] <= sp[2] <= len(src) else None
            ok = False
            if got is not None:
                m = re.fullmatch(r"\{%[-+~]?\s*([\w#]+)\b.*?%\}", got, re.S)
                if name == "raw":
                    ok = bool(re.fullmatch(r"\{%[-+~]?\s*raw\s*[-+~]?%\}.*\{%[-+~]?\s*endraw\s*[-+~]?%\}", got, re.S))
                elif m and m.group(1) == name and got.count("{%") == 1:
                    ok = True
                elif re.fullmatch(re.escape(name) + r"\b[^\n]*", got) and "{%" not in got and "%}" not in got:
                    ok = True   # a line statement inside {% liquid %}
                elif name == "liquid" and m and m.group(1) == "liquid":
                    ok = True
            if not ok and got and "{%" not in got and re.fullmatch(re.escape(name) + r"\b[^\n]*?\s*[-+~]?%\}", got):
                bad("span-liquid-last-line-swallows-close",
                    f"line statement {name!r} that shares its line with the end of the liquid tag is reported with a span that "
                    f"runs over the closing delimiter: {got!r}", sp[0], sp, name)
                continue
            if not ok:
                rest = RE_COMMENT_PREFIX.sub("", got or "", count=1)
                m2 = re.fullmatch(r"\{%[-+~]?\s*([\w]+)\b.*?%\}.*", rest, re.S) if got else None
                if got and rest != got and m2 and m2.group(1) == name:
                    bad("span-after-inline-comment",
                        f"tag {name!r} that follows a comment is reported from the comment's offset", sp[0], sp, name)
                else:
                    bad("span-not-exact", f"tag {name!r}: span covers {got!r}", sp[0], sp, name)
    return out


def ternary_left_filters(eng: Engine) -> set[str]:
    out: set[str] = set()

    def walk(x: Any) -> None:
        if isinstance(x, tuple):
            if x and x[0] == "tern":
                out.update(f[1] for f in x[1][2])
            for y in x:
                walk(y)
        elif isinstance(x, list):
            for y in x:
                walk(y)

    walk(list(eng.reified.values()))
    return out


def usage_findings(eng: Engine, a: dict[str, Any], run: dict[str, Any], bound: set[str]) -> list[tuple[str, str, dict]]:
    """Runtime usage must be included in the static report."""
    out: list[tuple[str, str, dict]] = []
    tlf = ternary_left_filters(eng)
    variables = {k for k, _ in a["variables"]}
    globs = {k for k, _ in a["globals"]}
    filters = {k for k, _ in a["filters"]}
    tags = {(k, sp) for k, sps in a["tags"] for sp in sps}
    evs = run["events"]
    for i, e in enumerate(evs):
        if e[0] == "L":
            if e[1] not in variables:
                out.append(("variable-unreported", f"render looked up {e[1]!r}; analyze().variables does not list it", {"name": e[1]}))
        elif e[0] == "G":
            prev = evs[i - 1] if i else None
            if prev is not None and prev[:2] == ("R", e[1]):
                if e[1] not in globs:
                    out.append(("implicit-context-lookup",
                                f"a filter or tag read {e[1]!r} from the global namespace through RenderContext.resolve; it is not reported", {"name": e[1]}))
            elif e[1] not in bound and e[1] not in globs:
                out.append(("global-unreported", f"render read {e[1]!r} from the global namespace, the program never binds it, analyze().globals does not list it", {"name": e[1]}))
        elif e[0] == "F":
            if e[1] not in filters and e[1] in tlf:
                out.append(("ternary-left-filters-unreported",
                            f"render applied filter {e[1]!r} of the left branch of a ternary expression; analyze().filters does not list it", {"name": e[1]}))
            elif e[1] not in filters:
                out.append(("filter-unreported", f"render applied filter {e[1]!r}; analyze().filters does not list it", {"name": e[1]}))
        elif e[0] == "T":
            tg = tag_of(eng, e)
            if tg is None:
                if e[2] not in ("RawNode",):
                    out.append(("tag-without-token", f"rendered {e[2]} has no tag token", {"class": e[2]}))
                    continue
                tg = ("raw", e[1], -1, -1)
            if (tg[0], (tg[1], tg[2], tg[3])) not in tags:
                sig = "raw-tag-unreported" if tg[0] == "raw" else "tag-unreported"
                out.append((sig, f"render executed tag {tg[0]!r} of template {tg[1]!r} at {tg[2]}..{tg[3]}; analyze().tags does not list that location", {"tag": tg}))
    return out


def binding_structure(eng: Engine) -> tuple[set[str], dict[str, set[str]]]:
    """(names bound by anything but a partial tag, name -> templates in which a
    partial-tag binding of that name is visible)."""
    hard: set[str] = set()
    binds: list[tuple[str, set[str]]] = []          # (target template, names)
    shares: dict[str, set[str]] = {}                 # template -> templates sharing its scope

    def ex(e: Any) -> None:
        if isinstance(e, tuple):
            if e and e[0] == "lam":
                hard.update(e[1][:2])
            for x in e:
                ex(x)
        elif isinstance(e, list):
            for x in e:
                ex(x)

    def nd(n: tuple, tn: str) -> None:
        k = n[0]
        if k in ("NAssign", "NCapture", "NIncrement", "NDecrement"):
            hard.add(n[2][0])
        elif k == "NFor":
            hard.update([n[2][1], "forloop"])
        elif k == "NTablerow":
            hard.update([n[2][1], "tablerowloop"])
        elif k == "NWith":
            hard.update(a for a, _ in n[2])
        elif k == "NMacro":
            hard.update([p for p, _ in n[3]] + ["args", "kwargs"])
        elif k == "NBlock":
            hard.add("block")
        elif k in ("NInclude", "NRender"):
            names = {a for a, _ in n[6]}
            if n[4] is not None:
                names.add(n[5] if n[5] is not None else stem_of(n[2]))
            if k == "NRender" and n[3]:
                names.add("forloop")
            binds.append((n[2], names))
            if k == "NInclude":
                shares.setdefault(tn, set()).add(n[2])
        elif k == "NExtends":
            shares.setdefault(tn, set()).add(n[2])
        for x in n[1:]:
            if isinstance(x, tuple) and x and isinstance(x[0], str) and x[0][:1] in "NW" and len(x[0]) > 1:
                nd(x, tn)
            elif isinstance(x, list):
                for y in x:
                    if isinstance(y, tuple) and y and isinstance(y[0], str) and y[0][:1] in "NW" and len(y[0]) > 1:
                        nd(y, tn)
            ex(x)

    for tn, nodes in eng.reified.items():
        for n in nodes:
            nd(n, tn)
    under: dict[str, set[str]] = {}
    for target, names in binds:
        todo, reach = [target], set()
        while todo:
            t = todo.pop()
            if t in reach:
                continue
            reach.add(t)
            todo += list(shares.get(t, ()))
        for x in names:
            under.setdefault(x, set()).update(reach)
    return hard, under


def scope_findings(eng: Engine, a: dict[str, Any], run: dict[str, Any]) -> list[tuple[str, str, dict]]:
    """Two location-aware checks of the globals clause.
    (a) a name that only partial tags bind (include/render arguments, alias, name
        stem) is not visible outside the partials it is handed to: a lookup of it
        elsewhere that reaches the global mapping must be reported as a global at
        that very location;
    (b) the names the engine really binds for a partial must be the names
        partial_scope() declares (plus forloop for `render ... for`)."""
    out: list[tuple[str, str, dict]] = []
    hard, under = binding_structure(eng)
    glob_locs = {(k, sp) for k, vs in a["globals"] for _, sp in vs}
    evs = run["events"]
    for i, e in enumerate(evs):
        if e[0] == "L" and i + 1 < len(evs) and evs[i + 1][:2] == ("G", e[1]):
            x, loc = e[1], eng.tok_owner.get(e[2])
            if loc is None or x in hard or x not in under or (x, loc) in glob_locs:
                continue
            if loc[0] in under[x]:
                # a template that is handed x by one tag and used without x by another:
                # it is analysed once (`seen`), in the scope of the first tag that loads it
                out.append(("partial-analysed-once-in-first-scope",
                            f"{x!r} in partial {loc[0]!r} at {loc[1]}..{loc[2]} read the global namespace in a use of the partial "
                            "that does not bind it; the partial was analysed once, in the scope of a tag that does, so it is not "
                            "reported as a global", {"name": x, "location": loc}))
                continue
            if (x, loc) not in glob_locs:
                out.append(("partial-argument-leaks-into-outer-scope",
                            f"{x!r} is bound only as an argument of a partial; its use in template {loc[0]!r} at "
                            f"{loc[1]}..{loc[2]} read the global namespace but is not reported as a global there",
                            {"name": x, "location": loc}))
        elif e[0] == "B":
            own = eng.owner.get(e[1])
            if own is None:
                continue
            node = own[1]
            args = {a.name for a in node.args}
            declared = {str(i_) for i_ in node.partial_scope().in_scope}
            runtime = set(e[2]) - ({"forloop"} if type(node).__name__ == "RenderNode" else set())
            # (arguments are bound under their own names on both sides; the question is the
            # name of the `with`/`for` value) a name that partial_scope() declares, that a
            # template can write as a variable, and that the engine did not bind would be
            # looked up in the global namespace and never be reported as a global
            if node.var is not None and runtime - args:
                phantom = sorted(x for x in declared - args - runtime if RE_IDENT.fullmatch(x))
                if phantom:
                    out.append(("partial-binding-name-differs",
                                f"{type(node).__name__} of {str(node.name.value)!r} bound {sorted(runtime - args)} at run "
                                f"time; partial_scope() declares {phantom} instead", {"bound": e[2], "declared": sorted(declared)}))
    return out


def root_contexts(eng: Engine) -> dict[tuple[int, int], dict[str, Any]]:
    """For every variable occurrence of the root template: the for-loops whose `else`
    block it is in, and whether it is inside a macro body / a block tag body."""
    out: dict[tuple[int, int], dict[str, Any]] = {}

    def ex(x: Any, ctx: dict[str, Any]) -> None:
        if isinstance(x, tuple):
            if x and x[0] == "path" and len(x) == 4:
                out[(x[1], x[2])] = ctx
            for y in x:
                ex(y, ctx)
        elif isinstance(x, list):
            for y in x:
                ex(y, ctx)

    def is_node(x: Any) -> bool:
        return isinstance(x, tuple) and bool(x) and isinstance(x[0], str) and x[0][:1] in "NW" and len(x[0]) > 1

    def nd(n: tuple, ctx: dict[str, Any]) -> None:
        k = n[0]
        for i, x in enumerate(n[1:], 1):
            c = ctx
            if k == "NFor" and i == 4:
                c = {**ctx, "else_of": ctx["else_of"] | {n[2][1], "forloop"}}
            elif k == "NMacro" and i == 4:
                c = {**ctx, "macro": True}
            elif k == "NBlock" and i == 4:
                c = {**ctx, "block": True}
            elif k == "NCapture" and i == 3:
                c = {**ctx, "capture_of": ctx["capture_of"] + (n[2][0],)}
            if is_node(x):
                nd(x, c)
            elif isinstance(x, list) and x and all(is_node(y) for y in x):
                for y in x:
                    nd(y, c)
            else:
                ex(x, c)

    for n in eng.reified.get(eng.root, []):
        nd(n, {"else_of": frozenset(), "macro": False, "block": False, "capture_of": ()})
    return out


def assignable_names(eng: Engine) -> dict[str, int]:
    """name -> number of assign / capture / increment / decrement tags that bind it."""
    out: dict[str, int] = {}

    def walk(x: Any) -> None:
        if isinstance(x, tuple):
            if x and x[0] in ("NAssign", "NCapture", "NIncrement", "NDecrement"):
                out[x[2][0]] = out.get(x[2][0], 0) + 1
            for y in x:
                walk(y)
        elif isinstance(x, list):
            for y in x:
                walk(y)

    walk(list(eng.reified.values()))
    return out


def occurrence_findings(eng: Engine, a: dict[str, Any], run: dict[str, Any]) -> list[tuple[str, str, dict]]:
    """Per-occurrence reading of the globals clause, where it is decidable from
    outside: an occurrence *in the root template* (analysed exactly once, in the
    scope the render starts with) of a name that no assign/capture/increment
    anywhere can bind. Whether such a name is bound is a matter of lexical
    structure only, so when the render reads it from the global namespace the
    analysis must list it as a global at that very location. The known ways in
    which the static scope is coarser than the run-time scope get their own
    signatures; anything else is reported as global-occurrence-unreported."""
    out: list[tuple[str, str, dict]] = []
    assignable = assignable_names(eng)
    ctxs = root_contexts(eng)
    glob_locs = {(k, sp) for k, vs in a["globals"] for _, sp in vs}
    evs = run["events"]
    for i, e in enumerate(evs):
        if not (e[0] == "L" and i + 1 < len(evs) and evs[i + 1][:2] == ("G", e[1])):
            continue
        x, loc = e[1], eng.tok_owner.get(e[2])
        if loc is None or loc[0] != eng.root or (x, loc) in glob_locs:
            continue
        ctx = ctxs.get((loc[1], loc[2]), {})
        if x in assignable:
            # the only tags that could have assigned x are captures that are still being
            # rendered at this point: x is not assigned yet, whatever the data
            if assignable[x] == ctx.get("capture_of", ()).count(x):
                out.append(("capture-reads-own-name",
                            f"{x!r} in template {loc[0]!r} at {loc[1]}..{loc[2]}, inside the capture block that assigns it, was read "
                            "from the global namespace but is not reported as a global there", {"name": x, "location": loc}))
            continue
        if x in ctx.get("else_of", ()):
            sig, why = "for-else-sees-loop-variable", "it is in the else block of the for tag that binds it"
        elif ctx.get("macro"):
            sig, why = "macro-body-sees-definition-scope", "it is in a macro body, which renders in an isolated scope"
        elif ctx.get("block"):
            sig, why = "block-body-sees-definition-scope", "it is in a block body, which renders where the base template places the block"
        else:
            sig, why = "global-occurrence-unreported", "no known mechanism"
        out.append((sig, f"{x!r} in template {loc[0]!r} at {loc[1]}..{loc[2]} was read from the global namespace but is not "
                         f"reported as a global there ({why})", {"name": x, "location": loc}))
    return out


def bound_names(eng: Engine) -> set[str]:
    """Names bound anywhere in the program (by an independent walk of the reified trees)."""
    out: set[str] = set()

    def ex(e: Any) -> None:
        if isinstance(e, tuple):
            if e and e[0] == "lam":
                out.update(e[1][:2])     # map() binds the item and the index only
            for x in e:
                ex(x)
        elif isinstance(e, list):
            for x in e:
                ex(x)

    def nd(n: tuple) -> None:
        k = n[0]
        if k in ("NAssign", "NCapture", "NIncrement", "NDecrement"):
            out.add(n[2][0])
        if k == "NFor":
            out.add(n[2][1])
            out.add("forloop")
        if k == "NTablerow":
            out.update([n[2][1], "tablerowloop"])
        if k == "NWith":
            out.update(a for a, _ in n[2])
        if k == "NMacro":
            out.update(p for p, _ in n[3])
            out.update(["args", "kwargs"])
        if k == "NBlock":
            out.add("block")
        if k in ("NInclude", "NRender"):
            out.update(a for a, _ in n[6])
            if n[4] is not None:
                out.add(n[5] if n[5] is not None else stem_of(n[2]))
            if k == "NRender" and n[3]:
                out.add("forloop")
        for x in n[1:]:
            if isinstance(x, tuple) and x and isinstance(x[0], str) and x[0][:1] in "NW" and x[0] not in ("n",):
                nd(x)
            elif isinstance(x, list):
                for y in x:
                    if isinstance(y, tuple) and y and isinstance(y[0], str) and y[0][:1] in "NW":
                        nd(y)
            ex(x)

    for nodes in eng.reified.values():
        for n in nodes:
            nd(n)
    return out


# ---------------------------------------------------------------------------
# 5b. History on one Template object: analyse, edit a partial / parent, analyse again

EDITED = "{{ zq | upcase }}{% assign zw = zq | append: zr %}{% echo zs | downcase %}{% raw %}z{% endraw %}"


def all_reports(t: Any) -> dict[str, Any]:
    """Everything the analysis API of one Template object returns (canonicalised)."""
    from liquid2.exceptions import LiquidError
    out: dict[str, Any] = {}
    for inc in (True, False):
        for key, call in ((f"analyze({inc})", lambda: t.analyze(include_partials=inc)),
                          (f"analyze_async({inc})", lambda: asyncio.run(t.analyze_async(include_partials=inc)))):
            try:
                out[key] = ("ok", analysis_obs(call()))
            except LiquidError as e:
                out[key] = ("err", type(e).__name__)
    try:
        for k, (hs, ha) in helper_obs(t).items():
            canon = (lambda v: sorted(map(repr, v))) if ("segments" in k or "paths" in k) else (lambda v: v)
            out[k], out[k + "_async"] = canon(hs), canon(ha)
    except LiquidError as e:
        out["helpers"] = ("err", type(e).__name__)
    return out


def history_findings(eng: Engine, key: str, data: dict[str, Any]) -> tuple[list[tuple[str, str, dict]], bool]:
    """Call the whole analysis API on the held root template, edit template `key` in
    the loader, call it again: the second report must equal that of freshly parsed
    templates over the updated store, and must cover what the render now uses."""
    held = eng.main()
    first = all_reports(held)
    eng.replace(key, EDITED)
    second = all_reports(held)
    fresh_eng = Engine(dict(eng.templates), root=eng.root, env_kind=eng.env_kind)
    fresh = all_reports(fresh_eng.main())
    out: list[tuple[str, str, dict]] = []
    for k in fresh:
        if second.get(k) != fresh[k]:
            stale = second.get(k) == first.get(k)
            out.append(("stale-analysis-after-reload",
                        f"{k} on a Template object analysed before {key!r} was edited and reloaded "
                        f"{'still returns the old report' if stale else 'differs from the analysis of freshly parsed templates'}",
                        {"edited": key, "api": k}))
            break
    if second.get("analyze(True)", ("err",))[0] == "ok":
        a2 = second["analyze(True)"][1]
        run = run_render(eng, data)
        for sig, what, info in usage_findings(eng, a2, run, bound_names(eng)):
            if sig in ("variable-unreported", "global-unreported", "filter-unreported", "tag-unreported", "raw-tag-unreported"):
                out.append(("stale-analysis-after-reload", f"after {key!r} was edited: {what}", {"edited": key, **info}))
                break
    return out, first.get("analyze(True)") != second.get("analyze(True)")


def fs_history_findings() -> list[tuple[str, str, dict]]:
    """The same history with a caching file-system loader with auto-reload."""
    import os
    import shutil
    import tempfile
    from pathlib import Path
    from liquid2 import CachingFileSystemLoader, Environment
    out: list[tuple[str, str, dict]] = []
    scenarios = [
        ({"main.liquid": "{% include 'p.liquid' %}{{ a }}{% render 'p.liquid' %}", "p.liquid": "{{ old | strip }}"}, "p.liquid"),
        ({"main.liquid": "{% extends 'base.liquid' %}{% block b %}{{ a }}{{ block.super }}{% endblock %}",
          "base.liquid": "{% block b %}{{ old | strip }}{% endblock %}"}, "base.liquid"),
    ]
    for files, edited in scenarios:
        root = Path(tempfile.mkdtemp(prefix="c11_", dir=os.environ.get("VERIF_SCRATCH", "/var/tmp")))
        try:
            for n, src in files.items():
                (root / n).write_text(src)
                os.utime(root / n, (1_000_000, 1_000_000))
            env = Environment(loader=CachingFileSystemLoader(root, auto_reload=True))
            held = env.get_template("main.liquid")
            first = all_reports(held)
            new = "{% block b %}" + EDITED + "{% endblock %}" if "base" in edited else EDITED
            (root / edited).write_text(new)
            os.utime(root / edited, (1_000_100, 1_000_100))
            second = all_reports(held)
            fresh = all_reports(Environment(loader=CachingFileSystemLoader(root, auto_reload=True)).get_template("main.liquid"))
            log: list[tuple] = []
            held.global_data = RecordingGlobals({"a": 1, "zq": "q", "zr": "r", "zs": "s"}, log)
            held.render()
            reported = {k for k, _ in second["analyze(True)"][1]["variables"]} if second["analyze(True)"][0] == "ok" else set()
            missing = sorted({e[1] for e in log} - reported)
            for k in fresh:
                if second.get(k) != fresh[k]:
                    out.append(("stale-analysis-after-reload",
                                f"CachingFileSystemLoader(auto_reload=True): {k} on a held Template after {edited!r} was rewritten "
                                f"{'still returns the old report' if second.get(k) == first.get(k) else 'differs from a fresh analysis'}",
                                {"files": files, "edited": edited, "api": k}))
                    break
            if missing:
                out.append(("stale-analysis-after-reload",
                            f"CachingFileSystemLoader(auto_reload=True): the render after {edited!r} was rewritten reads {missing}; "
                            "the second analyze() does not report them", {"files": files, "edited": edited}))
            if first == second:
                out.append(("history-check-vacuous", "the edit did not change the report", {"files": files}))
        finally:
            shutil.rmtree(root, ignore_errors=True)
    return out


# ---------------------------------------------------------------------------
# 5c. translate (outside the Coq model: engine oracle only)

def gen_translate_program(r: Any) -> dict[str, str]:
    g = Gen(r, partials=[])
    out = []
    for _ in range(r.randint(1, 3)):
        args = []
        for name in r.sample(["context", "count", "who", "x"], r.randint(0, 3)):
            val = {"context": r.choice(["'c'", g.path(0), "greeting"]), "count": r.choice(["1", "2", "n", g.path(0)])}.get(name, g.primitive(0))
            args.append(f"{name}: {val}")
        mv = lambda: "{{ " + r.choice(["context", "count", "who", "x", "you", r.choice(GLOBALS)]) + " }}"  # noqa: E731
        body = "Hello " + " ".join(mv() for _ in range(r.randint(0, 3)))
        if r.random() < 0.4:
            body += "{% plural %}Hellos " + " ".join(mv() for _ in range(r.randint(0, 2)))
        tag = "{% translate " + ", ".join(args) + " %}" + body + "{% endtranslate %}"
        k = r.random()
        if k < 0.2:
            tag = "{% if " + g.path(0) + " %}" + tag + "{% endif %}"
        elif k < 0.3:
            tag = "{% assign context = 1 %}" + tag
        elif k < 0.4:
            tag = "{% for context in l %}" + tag + "{% endfor %}"
        out.append(tag)
    return {"main": "".join(out)}


def translate_findings(eng: Engine, a: dict[str, Any], run: dict[str, Any]) -> list[tuple[str, str, dict]]:
    """Message variables and arguments of translate tags: what the render reads from the
    global namespace must be reported as a global unless the program can bind it."""
    from liquid2.context import RenderContext
    t = eng.main()
    sc = RenderContext(t)
    tnodes: list[Any] = []

    def walk(n: Any) -> None:
        if type(n).__name__ == "TranslateNode":
            tnodes.append(n)
        for c in n.children(sc, include_partials=False):
            walk(c)

    bound: set[str] = set()

    def binders(n: Any) -> None:
        bound.update(str(i) for i in n.template_scope())
        if type(n).__name__ != "TranslateNode":
            bound.update(str(i) for i in n.block_scope())
        for c in n.children(sc, include_partials=False):
            binders(c)

    for n in t.nodes:
        walk(n)
        binders(n)
    msg_vars = {v for n in tnodes for b in (n.singular_block, n.plural_block) if b for v in b.vars}
    for n in tnodes:   # arguments stay in the message namespace, except the context argument
        bound.update(k for k in n.args if k != n.message_context_var)
    globs = {k for k, _ in a["globals"]}
    out: list[tuple[str, str, dict]] = []
    evs = run["events"]
    for i, e in enumerate(evs):
        if e[0] in ("R", "L") and i + 1 < len(evs) and evs[i + 1][:2] == ("G", e[1]):
            x = e[1]
            if x in globs or x in bound or (e[0] == "R" and x not in msg_vars):
                continue
            if e[0] == "R" and any(x == n.message_context_var and x in n.args for n in tnodes):
                out.append(("translate-context-arg-treated-as-bound",
                            f"message variable {x!r} of a translate tag with a {x} argument was read from the global namespace "
                            "(the argument is taken out of the namespace before the message is formatted); analyze().globals does not list it",
                            {"name": x}))
            else:
                out.append(("global-unreported", f"render read {x!r} from the global namespace, the program never binds it, "
                            "analyze().globals does not list it", {"name": x}))
    return out


# ---------------------------------------------------------------------------
# 6. Recorded witnesses of known findings (re-observed on every run)

WITNESSES = [
    # (signature, templates, data)
    ("ternary-left-filters-unreported", {"main": "{{ a | upcase if b else c | downcase }}"}, {"a": "x", "b": True, "c": "y"}),
    # (RenderContext drops an *empty* global mapping, so the data must not be empty)
    ("implicit-context-lookup", {"main": "{{ 'Hello' | t }}"}, {"z": 1}),
    ("implicit-context-lookup", {"main": "{% translate %}Hello{% endtranslate %}"}, {"z": 1}),
    ("implicit-context-lookup", {"main": "{{ 1 | money }}"}, {"z": 1}),
    ("for-else-sees-loop-variable", {"main": "{% for x in l %}{{ x }}{% else %}{{ x }}{{ forloop }}{% endfor %}"}, {"l": [], "x": 1, "forloop": 2}),
    ("partial-analysed-once-in-first-scope", {"main": "{% render 'badge', label: 'new' %}{% render 'badge' %}", "badge": "[{{ label }}]"}, {"label": 1}),
    ("lambda-extra-parameter-treated-as-bound", {"main": "{{ items | map: (item, index, total) => total | join: ',' }}"}, {"items": [1, 2], "total": 3}),
    ("span-liquid-last-line-swallows-close", {"main": "{% liquid assign x = 1\n echo x -%}{% liquid echo y %}"}, {}),
    ("capture-reads-own-name", {"main": "{% capture x %}[{{ x }}]{% endcapture %}{{ x }}"}, {"x": 1}),
    ("translate-context-arg-treated-as-bound", {"main": "{% translate context: 'c', who: w %}Hello {{ who }} {{ context }}{% endtranslate %}"}, {"context": 1, "w": 2}),
    ("macro-body-sees-definition-scope", {"main": "{% for x in l %}{% macro m %}{{ x }}{% endmacro %}{% call m %}{% endfor %}"}, {"l": [1], "x": 1}),
    ("block-body-sees-definition-scope", {"main": "{% extends 'base' %}{% with x: 1 %}{% block b %}{{ x }}{% endblock %}{% endwith %}",
                                          "base": "{% block b %}{% endblock %}"}, {"x": 1}),
    ("seen-ignores-loader-tag", {"main": "{% include 'x' %}{% render 'x' %}", "include/x": "{{ inc }}", "render/x": "{{ ren }}"}, {"inc": 1, "ren": 2}),
    ("span-shorthand-index-too-short", {"main": "{{ a.0 }}{{ a.b.1 }}", "__env__": "shorthand"}, {"a": [1]}),
    ("span-after-inline-comment", {"main": "ab{# c #}{% assign y = z %}"}, {}),
    ("span-after-inline-comment", {"main": "ab{% # c %}{% assign y = z %}"}, {}),
    ("span-after-inline-comment", {"main": "{% comment %}c{% endcomment %}{% assign y = z %}"}, {}),
    ("span-path-stop-minus-one", {"main": "{% for i in (a..b) %}{% endfor %}"}, {"a": 1, "b": 2}),
]

# past disagreements and the shapes the mutants of §"realistic mutants" need; run first
CORPUS: list[dict[str, str]] = [
    {"main": "{{ a | upcase if b else c | downcase }}"},
    {"main": "{% render 'p', x: 1 %}{% render 'p' %}{{ x }}", "p": "{{ x }}{{ y }}"},
    {"main": "{% for x in l %}{{ forloop.index }}{% include 'p' %}{% else %}{{ forloop }}{{ b }}{% endfor %}", "p": "{{ x }}{% assign q = 1 %}"},
    {"main": "{% include 'p' %}{% include 'q' %}", "p": "{% include 'q' %}{{ a }}", "q": "{% include 'p' %}{{ b }}"},
    {"main": "{% case a %}{% when 1, b %}{{ c }}{% when d %}x{% else %}{{ e | upcase }}{% endcase %}"},
    {"main": "{% if a %}1{% elsif b %}{{ c }}{% elsif d %}2{% else %}{{ e | size }}{% endif %}{% unless a %}{{ b }}{% else %}{{ c }}{% endunless %}"},
    {"main": "{% macro m p, q: a %}{{ p }}{{ q }}{{ args }}{{ b }}{% endmacro %}{% call m 1, c, k: d %}{% call m q: e %}{% call zz %}"},
    {"main": "{% with x: a, y: b %}{{ x }}{{ y }}{{ c }}{% endwith %}{{ x }}"},
    {"main": "{% include 'p.html' with a %}{% include 'p.html' for l as it, k: b %}{% render 'p.html' for l %}{% render 'p.html' with c as it %}", "p.html": "{{ p }}{{ it }}{{ forloop.index }}{{ k }}"},
    {"main": "{% extends 'mid' %}{% block b %}{{ block.super }}{{ a }}{% endblock %}", "mid": "{% extends 'base' %}{% block b %}{{ b }}{{ block.super }}{% endblock %}",
     "base": "{{ c }}{% block b %}{{ d | upcase }}{% endblock %}{% block z %}{{ e }}{{ block.first }}{% endblock %}{% raw %}r{% endraw %}"},
    {"main": "{% liquid\n  assign x = a | append: b\n  for i in (1..c)\n    echo i | plus: d\n  endfor\n  cycle e, f\n%}{% increment n %}{{ n }}{% decrement n %}"},
    {"main": "{{ l | map: i => i.k }}{{ l | where: (i, j) => i.k == a and j }}{{ \"s${ b | upcase }e\" }}{{ a, b | join: c }}{{ (a..b.c) }}{{ d[e.f]['g h'][0] }}"},
    {"main": "{% capture x %}{{ a }}{% endcapture %}{% cycle g: a, b %}{% echo c if d %}{% assign y = a | default: b, allow_false: c if d else e | append: f || prepend: g %}"},
    {"main": "{% render 'a', x: 1 %}{{ y }}", "a": "{% assign z = x %}{% render 'b' %}{{ z }}", "b": "{{ x }}{% assign y = 1 %}"},
    {"main": "{% include 'missing' %}"},
    {"main": "{% render 'a' %}", "a": "{% include 'b' %}", "b": "{{ q }}"},
    {"main": "{% if a %}{% raw %}x{% endraw %}{% endif %}{% comment %}c{% endcomment %}{% for i in l limit: a offset: continue reversed %}{{ i }}{% endfor %}"},
    # the same partial twice with different arguments, then the argument names at the includer's level
    {"main": "{% include 'p', x: 1 %}{% include 'p', x: 2 %}{{ x }}{% if a %}{{ x }}{% endif %}", "p": "{{ x }}"},
    {"main": "{% include 'p', x: 1 %}{{ x }}{% include 'p', y: 2 %}{{ y }}{% for i in l %}{{ x }}{% include 'p' %}{{ y }}{% endfor %}", "p": "{{ x }}{{ y }}"},
    {"main": "{% render 'p', x: 1 %}{% render 'p', y: 2 %}{{ x }}{{ y }}{% include 'p', k: 1 %}{{ k }}{% render 'p' for l as k %}{{ k }}", "p": "{{ x }}{{ y }}{{ k }}"},
    {"main": "{% include 'q' %}{{ x }}{% include 'q' %}{{ x }}", "q": "{% include 'p', x: 1 %}{% include 'p', x: 2 %}{{ x }}", "p": "{{ x }}"},
    {"main": "{% include 'p' with a as x %}{% include 'p' for l as x, y: 1 %}{{ x }}{{ y }}{% liquid\n  include 'p', z: 1\n  include 'p', z: 2\n  echo z\n%}", "p": "{{ x }}{{ z }}"},
    # names bound without alias: derived from the template name
    {"main": "{% include 'card.item.liquid' with a %}{% render 'card.item.liquid' with b %}{% render 'card.item.liquid' for l %}{% include 'card.item.liquid' for l %}{{ card }}",
     "card.item.liquid": "{{ card }}{{ card.k }}{{ item }}{{ forloop.index }}"},
    {"main": "{% include 'snippets/card.liquid' with a %}{% render 'snippets/card.liquid' for l %}{% include 'dir/q.x.y' with b %}{% render 'plain' with c %}{% include 'plain' for l %}{{ plain }}",
     "snippets/card.liquid": "{{ card }}{{ snippets }}", "dir/q.x.y": "{{ q }}{{ x }}{{ dir }}", "plain": "{{ plain }}{{ plain.k }}"},
    {"main": "{% extends 'base' %}{% block b %}{% assign q = 1 %}{{ block.super }}{{ q }}{% endblock %}", "base": "{% block b %}{{ q }}{% assign w = 2 %}{% endblock %}{{ w }}"},
]
CORPUS_DATA = [{"a": 1, "b": 2, "c": 3, "d": "s", "e": {"f": "k"}, "f": 1, "g": 1, "l": [{"k": 1}, {"k": 0}]},
               {"a": False, "b": None, "c": 0, "d": False, "e": None, "l": []}]


NOT_TAG_CLASSES = ("ContentNode", "CommentNode", "OutputNode", "ConditionalBlockNode", "MultiExpressionBlockNode")


def _is_wrapper_block(n: Any) -> bool:
    import liquid2.ast as A
    return isinstance(n, A.BlockNode)


MODELLED_ERRORS = ("DisabledTagError", "RequiredBlockError", "TemplateInheritanceError")


def oracle_terms(dec: list[int]) -> str:
    return C.clist([str(d) for d in dec], "N")


def observe_witness(sig: str, templates: dict[str, str], data: dict[str, Any]) -> str | None:
    """Return a description if the recorded finding is still observable."""
    templates, root, env_kind = split_opts(templates)
    eng = Engine(templates, root=root, env_kind=env_kind)
    try:
        eng.load_all()
    except Unsupported:
        eng.main()
    st = run_static(eng)
    if st["sync"][0] != "ok":
        return None
    a = st["sync"][1]
    if sig.startswith("span-"):
        for s, what, _ in span_findings(eng, a):
            if s == sig:
                return what
        return None
    run = run_render(eng, data)
    if sig == "implicit-context-lookup":
        evs = run["events"]
        globs = {k for k, _ in a["globals"]}
        for i, e in enumerate(evs):
            if e[0] == "G" and i and evs[i - 1][:2] == ("R", e[1]) and e[1] not in globs:
                return f"{templates['main']!r} reads {e[1]!r} from the global namespace (RenderContext.resolve); not reported by analyze()"
        return None
    if sig == "translate-context-arg-treated-as-bound":
        for s_, what, _ in translate_findings(eng, a, run):
            if s_ == sig:
                return f"{templates[root]!r}: {what}"
        return None
    found = usage_findings(eng, a, run, bound_names(eng)) + occurrence_findings(eng, a, run) + scope_findings(eng, a, run)
    if sig == "lambda-extra-parameter-treated-as-bound":
        for s, what, info in found:
            if s == "global-unreported" and info.get("name") == "total":
                return f"{templates[root]!r}: the third parameter of an arrow function is never bound by map(); {what}"
        return None
    if sig == "seen-ignores-loader-tag":
        for s, what, info in found:
            if s == "variable-unreported" and info.get("name") == "ren":
                return (f"{templates[root]!r} with a loader that serves different templates for tag='include' and "
                        f"tag='render': the second partial is skipped as already analysed; {what}")
        return None
    for s, what, _ in found:
        if s == sig:
            return f"{templates[root]!r}: {what}"
    return None


def main(chk: C.Check, build: C.Build) -> None:
    warnings.simplefilter("ignore")
    proofs_ok = C.proof_stage(chk, build, NEEDED)
    thorough = chk.tier == "thorough"
    r = C.rng("c11")

    # ---- known findings: re-observe the recorded witnesses
    for sig, templates, data in WITNESSES:
        what = observe_witness(sig, templates, data)
        if what:
            chk.finding(sig, what, {"templates": templates, "data": data})

    for sig, what, info in fs_history_findings():
        chk.finding(sig, what, {**info, "how": "harness/c11.py fs_history_findings"})

    # ---- translate tags (engine oracle only)
    n_translate = 0
    for _ in range(200 if thorough else 30):
        tp = gen_translate_program(r)
        try:
            teng = Engine(tp)
            teng.main()
        except Exception:  # noqa: BLE001
            continue
        st = run_static(teng)
        if st["sync"] != st["async"]:
            chk.finding("async-analysis-differs", "analyze_async() and analyze() return different results", {"templates": tp})
        if st["sync"][0] != "ok":
            continue
        n_translate += 1
        for mode in ("true", "false", "mix"):
            d = gen_data(r, mode) | {"n": 2, "greeting": "g", "you": "y", "context": "C", "count": 3, "who": "w"}
            run = run_render(teng, d)
            for sig, what, info in translate_findings(teng, st["sync"][1], run):
                chk.finding(sig, what, {"templates": tp, "data": d, **info, "how": "harness/c11.py translate_findings"})

    # ---- programs
    programs: list[tuple[dict[str, str], bool]] = [(p, True) for p in CORPUS]
    nprog = 900 if thorough else 110
    for i in range(nprog):
        cyc = i % 10 == 9
        programs.append((gen_program(r, depth=r.choice([1, 2, 2, 3]) if thorough else r.choice([1, 2, 2]),
                                     size=r.choice([3, 5, 8]) if thorough else r.choice([2, 4, 5]),
                                     cyclic=cyc, comments=r.random() < 0.6), not cyc))

    items: list[dict[str, Any]] = []
    stats = {"programs": 0, "unparsable": 0, "static_errors": 0, "renders": 0, "renders_completed": 0,
             "render_errors": {}, "events": 0, "lookups": 0, "global_lookups": 0, "filters": 0, "tags": 0,
             "decisions": 0, "with_partials": 0, "with_inheritance": 0, "tag_nodes": 0, "tag_nodes_rendered": 0,
             "trace_cases": 0, "error_trace_cases": 0, "hierarchical_root": 0, "tag_aware_loader": 0,
             "history_checks": 0, "history_checks_report_changed": 0}
    nontrivial: set[str] = set()
    seen_programs: set[str] = set()
    samples: list[Any] = []
    for pi, (progs, renderable) in enumerate(programs):
        try:
            templates, root, env_kind = split_opts(progs)
            eng = Engine(templates, root=root, env_kind=env_kind)
            eng.load_all()
        except Unsupported as e:
            chk.notes.append(f"generator produced an unsupported shape: {e}")
            continue
        except Exception:  # noqa: BLE001 - syntax / lexer errors of generated text: not C11's business
            stats["unparsable"] += 1
            continue
        key = repr(sorted(progs.items()))
        if key in seen_programs:
            continue
        seen_programs.add(key)
        stats["programs"] += 1
        stats["with_partials"] += any(k not in (root, "base", "mid") for k in templates)
        stats["with_inheritance"] += "base" in templates
        stats["hierarchical_root"] += root != "main"
        stats["tag_aware_loader"] += any(bare_name(k) != k for k in templates)
        stats["env_" + env_kind] = stats.get("env_" + env_kind, 0) + 1
        st_t = run_static(eng, True)
        st_f = run_static(eng, False)
        replay: dict[str, Any] = {"templates": progs}
        for inc, st in ((True, st_t), (False, st_f)):
            if st["sync"] != st["async"]:
                chk.finding("async-analysis-differs", "analyze_async() and analyze() return different results",
                            {**replay, "include_partials": inc, "sync": st["sync"], "async": st["async"]})
        L = c_loader(eng) + " in let R := " + C.cstr(eng.root)
        parts = [f"chk_static L R true {c_static_expected(st_t['sync'])} {c_static_expected(st_t['async'])}",
                 f"chk_static L R false {c_static_expected(st_f['sync'])} {c_static_expected(st_f['async'])}"]
        if st_t["sync"][0] != "ok":
            stats["static_errors"] += 1
            items.append({"case": f"(let L := {L} in {' && '.join(parts)})",
                          "model": f"let L := {L} in match assoc R L with Some n => analyze (loader_of L) true run_fuel R n | None => OutOfFuel end",
                          "replay": {**replay, "analyze": st_t["sync"]}})
            continue
        a = st_t["sync"][1]
        # helper methods
        try:
            h = helper_obs(eng.main())
        except Exception as e:  # noqa: BLE001
            chk.finding("helper-method-raised", f"a helper method raised {type(e).__name__}", replay)
            continue
        for k, (hs, ha) in h.items():
            same = (sorted(map(repr, hs)) == sorted(map(repr, ha))) if "segments" in k or "paths" in k else hs == ha
            if not same:
                chk.finding("async-analysis-differs", f"{k}() and {k}_async() differ", {**replay, "sync": hs, "async": ha})
        nvars = {repr(sg) for _, vs in a["variables"] for sg, _ in vs}
        if len(h["variable_paths"][0]) != len({path_text(sg) for _, vs in a["variables"] for sg, _ in vs}) and len(h["variable_segments"][0]) != len(nvars):
            chk.finding("helper-inconsistent", "variable_paths()/variable_segments() disagree with analyze()", replay)
        sl = lambda xs: C.clist([C.cstr(x) for x in xs], "str")  # noqa: E731
        sg = lambda xs: C.clist([c_segs(x) for x in xs], "(list segv)")  # noqa: E731
        parts.append(f"chk_helpers L R {sl(h['variables'][0])} {sl(h['global_variables'][0])} {sl(h['filter_names'][0])} "
                     f"{sl(h['tag_names'][0])} {sg(h['variable_segments'][0])} {sg(h['global_variable_segments'][0])}")
        # spans
        for sig, what, info in span_findings(eng, a):
            chk.finding(sig, what, {**replay, **info})
        # renders
        bn = bound_names(eng)
        tag_ids = {i for i, (tn, n) in eng.owner.items()
                   if type(n).__name__ not in NOT_TAG_CLASSES and not _is_wrapper_block(n) and tag_of(eng, ("T", tn, "", i)) is not None}
        rendered: set[int] = set()
        model_t: list[str] = []
        if renderable:
            datasets = [gen_data(r, m) for m in ["true", "false", "mix", "mix", "true", "mix"]]
            if pi < len(CORPUS):
                datasets = CORPUS_DATA + datasets[:1]
            prog_events = 0
            for d in datasets:
                run = run_render(eng, d)
                stats["renders"] += 1
                evs = run["events"]
                prog_events += len(evs)
                stats["events"] += len(evs)
                stats["lookups"] += sum(e[0] == "L" for e in evs)
                stats["global_lookups"] += sum(e[0] == "G" for e in evs)
                stats["filters"] += sum(e[0] == "F" for e in evs)
                stats["tags"] += sum(e[0] == "T" for e in evs)
                stats["decisions"] += len(run["decisions"])
                rendered |= {e[3] for e in evs if e[0] == "T"}
                for sig, what, info in usage_findings(eng, a, run, bn) + scope_findings(eng, a, run) + occurrence_findings(eng, a, run):
                    chk.finding(sig, what, {**replay, "data": d, **info, "how": "harness/c11.py run_render + usage_findings/scope_findings"})
                if run["status"] == "ok":
                    stats["renders_completed"] += 1
                    me = model_events(eng, evs) if len(model_t) < (4 if thorough else 3) else None
                    if me is not None:
                        stats["trace_cases"] += 1
                        parts.append(f"chk_trace L R (fun _ => []) {oracle_terms(run['decisions'])} {C.clist(me, 'event')}")
                        model_t.append(f"model_trace L R (fun _ => []) {oracle_terms(run['decisions'])}")
                        replay.setdefault("renders", []).append({"data": d, "decisions": run["decisions"],
                                                                 "events": [e[:3] for e in evs]})
                else:
                    stats["render_errors"][run["status"]] = stats["render_errors"].get(run["status"], 0) + 1
                    if run["status"] in MODELLED_ERRORS and stats["error_trace_cases"] < (400 if thorough else 40):
                        me = model_events(eng, evs)
                        if me is not None:
                            stats["error_trace_cases"] += 1
                            parts.append(f"chk_trace_err L R (fun _ => []) {oracle_terms(run['decisions'])} "
                                         f"{C.clist(me, 'event')} {run['status']}")
                            model_t.append(f"model_trace L R (fun _ => []) {oracle_terms(run['decisions'])}")
                            replay.setdefault("renders", []).append({"data": d, "decisions": run["decisions"],
                                                                     "status": run["status"]})
            if prog_events and len(rendered) >= 2:
                nontrivial.add(key)
            stats["tag_nodes"] += len(tag_ids)
            stats["tag_nodes_rendered"] += len(tag_ids & rendered)
        if len(samples) < 4 and pi >= len(CORPUS) and renderable:
            samples.append({"templates": progs, "variables": h["variables"][0], "globals": h["global_variables"][0],
                            "filters": h["filter_names"][0], "tags": h["tag_names"][0]})
        hist_keys = [k for k in templates if bare_name(k) != eng.root]
        if renderable and hist_keys:
            reach = {sp[0] for _, sps in a["tags"] for sp in sps} | {sp[0] for _, vs in a["variables"] for _, sp in vs}
            cand = [k for k in hist_keys if bare_name(k) in reach] or hist_keys
            hkey = r.choice(sorted(cand))
            try:
                found, changed = history_findings(eng, hkey, gen_data(r, "true") | {"zq": "q", "zr": "r", "zs": "s"})
            except Unsupported:
                found, changed = [], False
            stats["history_checks"] += 1
            stats["history_checks_report_changed"] += changed
            for sig, what, info in found:
                chk.finding(sig, what, {**replay, **info, "how": "harness/c11.py history_findings"})
        mt = "(" + ", ".join(model_t[:2]) + ")" if len(model_t) > 1 else (model_t[0] if model_t else "tt")
        items.append({"case": f"(let L := {L} in {' && '.join(parts)})",
                      "model": f"let L := {L} in (match assoc R L with Some n => analyze (loader_of L) true run_fuel R n | None => OutOfFuel end, {mt})",
                      "replay": {**replay, "analyze": a}})

    # the implicit-context-lookup witness in the model: a filter that reads the context
    eng = Engine({"main": "{{ 'Hello' | t }}"})
    eng.load_all()
    run = run_render(eng, {"z": 1})
    me = model_events(eng, run["events"])
    if me is not None and run["status"] == "ok":
        reads = f"(fun f => if str_eqb f {C.cstr('t')} then [{C.cstr('translations')}] else [])"
        items.append({"case": f"(let L := {c_loader(eng)} in let R := {C.cstr('main')} in chk_trace L R {reads} {oracle_terms(run['decisions'])} {C.clist(me, 'event')})",
                      "model": f"let L := {c_loader(eng)} in let R := {C.cstr('main')} in model_trace L R {reads} {oracle_terms(run['decisions'])}",
                      "replay": {"templates": eng.templates, "events": run["events"]}})

    C.correspond(chk, "c11", IMPORTS, "", items, what="Analysis.analyze/analyze_async/helpers/run", shard=16 if not thorough else 40)
    C.proofs_verdict(chk, proofs_ok)

    chk.coverage.update({
        "evaluations": len(items) + stats["renders"],
        "distinct_nontrivial": len(nontrivial),
        "rule": ("programs = main template + 0-3 partials (include/render with with/for/as/keyword arguments) and, for 35%, "
                 "a 1-2 level extends chain with blocks and block.super, generated from a grammar over every node and expression "
                 "class of the model; each program is analysed (sync, async, include_partials on/off, helper methods) and rendered "
                 "with 6 data sets (all truthy / all falsy+empty lists / mixed; the first 3-4 completed renders are also replayed on the model); non-trivial = a program whose renders produced "
                 "context lookups or filter calls and rendered at least two distinct tag nodes"),
        "samples": samples,
        "distribution": {**stats, "translate_programs": n_translate},
        "exhaustive": False,
        "tier_proved": "model of the analysis visitor and of a tracing interpreter for the fragment (all programs, loaders, oracles)",
    })
    chk.assumptions += [
        "values are abstract in the interpreter model: every data-dependent decision (truthiness, loop length, when-match, lambda applications, cycle index, partial with/for binding) is an arbitrary oracle value",
        "partial and parent names are string literals (a dynamic include name makes analyze() raise TemplateNotFoundError)",
        "filters are context-free unless listed in the `reads` table (known finding implicit-context-lookup); custom tags/filters, translate, break/continue are outside the fragment",
        "span exactness is checked on the engine only (no lexer model here; C17 proves token_text_eq)",
        "Python-side reification of node/expression objects (attribute walk) and the monkeypatched observation hooks are trusted harness code",
    ]
