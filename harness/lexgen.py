"""Source-text generators for the lexer tie (C17, C02): the valid corpus
(compliance suite, template literals of the test suite, the Appendix-A
corner cases), a grammar of lexically rich templates (arbitrary whitespace,
every comment form, raw blocks, liquid tags, template strings, unicode), and
the malformed stream (every prefix, single edits, random strings).
All randomness comes from the `random.Random` passed in (seeded by C.rng)."""

from __future__ import annotations

import ast
import json
import random
from pathlib import Path

from . import common as C

# Places where a naive reading of the regexes is wrong (DESIGN Appendix A) and
# every past disagreement / defect witness: always run.
APPENDIX = [
    "", "\n", "a\n", "a\n\n", "{{ 'a' -}} \n", "{% raw %}x", "{%raw%}a{% endraw %}b{% endraw %}",
    "{%\xa0if x %}", "{{\u2003x }}", "{% commentx %}", "{% comment%}a{%endcomment%}", "{% comment\u00e9 %}",
    "{## a #} b ##}", "{## a #}", "{#-#}{#--#}", "{#- a -#}", "{#+~#}", "{#}", "{##}", "{###}", "{#-}", "{# #",
    "{%#%}", "{% # a\nb %}", "{%-#-%}", "{%- # c ~%}", "a{%", "a{#", "a{", "{", "{{", "{%", "{% ", "{%-", "{{-",
    "{{ 1.e3 }}", "{{ -x }}", "{{ x-1 }}", "{{ 1e }}", "{{ 1.5e }}", "{{ 1e-5 1E+5 1e5 -1.0e-7 1.5E3 }}",
    "{{ 1..2 }}", "{{ (1..2) }}", "{{ (a..b) }}", "{{ (a.b..c[1]) }}", "{{ ('a'..\"b\") }}", "{{ (x..1.5) }}",
    "{{ ..1) }}", "{{ 1..) }}", "{{ (1.. 2) }}", "{{ [1..2) }}", "{{ (true..2) }}", "{{ (1 .. x) }}",
    "{{ a..b }}{{ (c) }}", "{{ \"${ (1..3) }\" }}", "{{ 1..\"${ 2) }\" }}", "{{ \"a${ x | f: (1..3) }b\" }}",
    "{{ '", "{{ \"", "{{ 'a", "{{ 'a\\", "{{ 'a\\q' }}", "{{ '\\'' }}", "{{ \"\\\"\" }}", "{{ '' }}{{ \"\" }}",
    "{{ \"${\" }}", "{{ \"${}\" }}", "{{ \"${x\" }}", "{{ \"a${b}c${ d }\" }}", "{{ '${ \"${x}\" }' }}", "{{ \"$\" }}",
    "{{ \"$ {x}\" }}", "{{ 'a${1}' }}", "{{ \"\\${x}\" }}",
    "{{ a.b }}", "{{ a . b }}", "{{ a.b.c[0]['k'][\"k\"][d.e] }}", "{{ a[ 1 ] }}", "{{ a[ 'x' ] }}", "{{ a[ b ] }}",
    "{{ a[b }}", "{{ a[b }}{{ c.d] }}", "{{ a[b..c] }}", "{{ a] }}", "{{ a.b] }}", "{{ a[] }}", "{{ a[ }}", "{{ a[",
    "{{ a[1", "{{ a['x'", "{{ a['x' }}", "{{ a. }}", "{{ a.1 }}", "{{ a.-1 }}", "{{ a.1.b }}", "{{ [a] }}",
    "{{ [a][b] }}", "{{ ['a'] }}", "{{ [1] }}", "{{ [ }}", "{{ a[b[c]] }}", "{{ a[-1] }}", "{{ a['it\\'s'] }}",
    "{{ a[\"it\\'s\"] }}", "{{ a['\\q'] }}", "{{ a.b..c }}", "{{ a..", "{{ a.", "{{ \u00e9.\u00fc }}", "{{ a.\U0001F600 }}",
    "{{ ['some thing'].0 }}", "{% for x in [\"a\"].0 %}", "{{ a['b'].0.1 }}", "{{ ['a'].0.b | f: ['c'].1, k: [d].0 }}", "{{ \"${ ['a'].0 }\" }}",
    "{{ ['a'] .0 }}", "{{ ['a'].0}}", "{{ ['a'].-1 }}", "{{ ['a'].0[1].2 }}", "{{ [a].0 }}", "{{ ['a'].0",
    "{{ x y }}", "{{ x | f: a, b: 1 }}", "{{ x || y }}", "{{ a => b }}", "{{ a <> b }}", "{{ ! ? }}", "{{ a }",
    "{{ a %}", "{% a }}", "{% a }", "{% a %", "{% if a >= b and c <> d or not e contains 'x' %}", "{% if",
    "{%if%}", "{% ifX %}", "{% if\u00e9 %}", "{% 1 %}", "{% %}", "{%%}", "{% If %}",
    "{% liquid %}", "{% liquid", "{% liquid\n", "{%liquid%}", "{% liquid -%}", "{% liquid echo 1 %}",
    "{% liquid\n  assign x = 1\n  # comment\n  echo x -%}z", "{% liquid\necho 'a\nb'\n%}", "{% liquid # c %}",
    "{% liquid\n# c\n# d %}", "{% liquid\ncomment\n a\nendcomment\n echo 1 %}",
    "{% liquid\n comment\n a\n endcomment\n echo 1 %}", "{% liquid\ncomment\ncomment\nendcomment\nendcomment\necho 1 %}",
    "{% liquid comment endcomment %}", "{% liquid\ncomment\n# x\nendcomment x y\n%}", "{% liquid\ncomment %}",
    "{% liquid\ncomment\n\tc x\n\tendcomment\n echo 'a'\n%}", "{% liquid\n  comment\n    indented text\n\n  \t\n    # c\n  endcomment\n%}",
    "{% liquid comment\n  comment\n   x\n  endcomment\n endcomment\n echo 1 %}", "{% liquid\ncomment\n\n\nendcomment %}",
    "{% liquid\ncomment\r\n\t a\r\n  endcomment\r\n%}", "{% liquid\ncomment\n   %}", "{% liquid\ncomment\n  X\n endcomment %}",
    "{% liquid\ncomment\n  {{ x }}\n endcomment %}", "{% liquid\ncomment\n  endcomment -%}b", "{% liquid\ncomment\n \u00a0 x\n endcomment %}",
    "{% liquid\nX %}", "{% liquid\nifX %}", "{% liquid\nif\u00e9 %}", "{% liquid\necho 1\r\necho 2\r\n%}",
    "{% liquid\necho @ %}", "{% liquid\necho", "{% liquid\n\n\n%}", "{% liquid echo 1 }}",
    "{% comment %}", "{% comment %}x", "{% comment %}x{% endcomment %}y", "a{% comment %}x{% endcomment %}b{{ y }}",
    "{% comment %}{% comment %}a{% endcomment %}b{% endcomment %}c", "{% comment %}{% raw %}{% endcomment %}{% endraw %}{% endcomment %}",
    "{% comment %}{% endraw %}{% endcomment %}", "{% comment %}{% raw %}{% endcomment %}", "{%- comment -%}a{%- endcomment ~%}",
    "{% comment %}{% endcommentx -%}", "{% comment %}{%endcomment", "{% comment %}{% endcomment a %} %}",
    "ab{# c #}{{ x }}", "ab{% # c %}{{ x }}", "{# a #}{# b #}c", "{% raw %}{{ x }}{% endraw %}",
    "{% raw %}a{% endraw %}b{{ c }}", "x{%- raw -%}{{ y }}{%- endraw -%}z{% if %}", "{% raw %}{% endraw %}{% raw %}{% endraw %}",
    "{# a #}b{# c #}{{ d }}{% # e %}f", "{%- # x -%}{%- # y -%}", "{% comment %}a{% endcomment %}{% comment %}b{% endcomment %}c",
    "{%- raw +%}a{%~ endraw -%}", "{% raw %}{% endraw %}", "{% raw x %}a{% endraw %}", "{% rawx %}",
    "Hello, {{ you }}!", "{{ x }}\n{{ y }}\n", "\u00e9\u2028{{ x }}\r\n", "{{ x }}\U0001F600{% y %}",
]

EDIT_ALPHABET = list("{}%#-+~'\"$\\.[]()|:,=<>!? \n\r\tae10_") + ["\u00e9", "\xa0", "\u2028", "\U0001F600"]

RANDOM_UNITS = EDIT_ALPHABET + [
    "{{", "}}", "{%", "%}", "{#", "#}", "{% ", " %}", "{{ ", " }}", "raw", "endraw", "comment", "endcomment",
    "liquid", "if", "x", "a.b", "..", "${", "1.5", "'a'", '"b"', "=>", "||", "<>", "# ", "\r\n",
]


def corpus(repo: Path) -> list[str]:
    out: list[str] = list(APPENDIX)
    cts = repo / "tests" / "liquid2-compliance-test-suite" / "cts.json"
    if cts.exists():
        for t in json.loads(cts.read_text())["tests"]:
            out.append(t["template"])
            out += list((t.get("templates") or {}).values())
    for p in sorted((repo / "tests").glob("*.py")):
        try:
            tree = ast.parse(p.read_text())
        except SyntaxError:
            continue
        for node in ast.walk(tree):
            if isinstance(node, ast.Constant) and isinstance(node.value, str):
                v = node.value
                if ("{{" in v or "{%" in v or "{#" in v) and len(v) <= 600:
                    out.append(v)
    seen: set[str] = set()
    uniq = []
    for s in out:
        if s not in seen and not any(0xD800 <= ord(c) <= 0xDFFF for c in s):
            seen.add(s)
            uniq.append(s)
    return uniq


# ---------------------------------------------------------------- grammar

WORDS = ["x", "foo", "a-b", "_y", "true", "false", "nil", "null", "and", "or", "not", "in", "contains", "if",
         "else", "with", "required", "as", "for", "\u00fcn\u00ef", "\u65e5\u672c", "x1", "liquid", "comment", "raw",
         "endraw", "endcomment", "e", "E5", "size", "first"]
NUMBERS = ["0", "1", "42", "-7", "1.5", "-0.25", "1e3", "1E+3", "2e-3", "1.5e10", "1.e3", "1e", "007",
           "9007199254740993", "1.5E-2", "-1e-1", "3.", "1e+"]
SYMS = ["|", ":", ",", "==", "!=", "<>", "<", ">", "<=", ">=", "=", "=>", "||", "(", ")", "!", "?", "..",
        "and", "or", "contains"]
JUNK = ["[", "]", ".", "}", "%", "#", "$", "-", "@", "&", "{", "\\", ";", "^"]
WSS = [" ", " ", " ", "  ", "\n", "\t", "\r\n", "", "", " \n "]
UWS = ["\xa0", "\u2003", "\u2028", "\x0b", "\x1c", "\x85"]
WCM = ["", "", "", "-", "+", "~"]
TAGS = ["if", "elsif", "else", "endif", "for", "endfor", "assign", "echo", "case", "when", "render", "include",
        "unless", "capture", "endcapture", "increment", "with", "macro", "call", "extends", "block", "translate"]


def ws(r: random.Random, p_uni: float = 0.0) -> str:
    if r.random() < p_uni:
        return r.choice(UWS)
    return r.choice(WSS)


def g_string(r: random.Random, depth: int) -> str:
    q = r.choice("'\"")
    parts = []
    for _ in range(r.randint(0, 4)):
        k = r.random()
        if k < 0.45:
            parts.append(r.choice(["a", "hello", " ", "x y", "\u00e9", "$", "{", "}", "#{", "%}", "}}", "\n", "\U0001F600"]))
        elif k < 0.65:
            parts.append(r.choice(["\\n", "\\t", "\\\\", "\\'", '\\"', "\\u0041", "\\$", "\\/", "\\b"]))
        elif k < 0.70:
            parts.append(r.choice(["\\q", "\\ ", "\\x", "\\"]))
        elif k < 0.75:
            parts.append("'" if q == '"' else '"')
        elif depth > 0:
            parts.append("${" + ws(r) + g_expr(r, depth - 1, 3) + ws(r) + "}")
        else:
            parts.append("${x}")
    close = q if r.random() > 0.04 else ""
    return q + "".join(parts) + close


def g_path(r: random.Random, depth: int) -> str:
    out = r.choice(WORDS) if r.random() > 0.1 else ""
    for _ in range(r.randint(0 if out else 1, 4)):
        k = r.random()
        if k < 0.35 and out:
            out += "." + ws(r) * (r.random() < 0.15) + r.choice(WORDS + ["1", "-1", "", "\U0001F600"])
        elif k < 0.5:
            out += "[" + ws(r) + str(r.choice([0, 1, -1, 12, "-0"])) + ws(r) + "]"
        elif k < 0.7:
            s = g_string(r, 0)
            out += "[" + ws(r) + s + ws(r) + "]"
        elif k < 0.9 and depth > 0:
            out += "[" + ws(r) * (r.random() < 0.3) + g_path(r, depth - 1) + "]"
        elif k < 0.95:
            out += r.choice(["[", "]", "[]", "[ ]", ".."])
        else:
            out += "[" + r.choice(WORDS) + "]"
    return out


def g_atom(r: random.Random, depth: int) -> str:
    k = r.random()
    if k < 0.25:
        return r.choice(WORDS)
    if k < 0.45:
        return g_path(r, depth)
    if k < 0.6:
        return r.choice(NUMBERS)
    if k < 0.78:
        return g_string(r, depth)
    if k < 0.9:
        a = r.choice([r.choice(NUMBERS), g_path(r, 0), r.choice(WORDS), g_string(r, 0)])
        b = r.choice([r.choice(NUMBERS), g_path(r, 0), r.choice(WORDS), g_string(r, 0)])
        op, cl = ("(", ")") if r.random() > 0.15 else r.choice([("", ")"), ("(", ""), ("[", ")"), ("((", ")")])
        return op + ws(r) * (r.random() < 0.2) + a + ws(r) * (r.random() < 0.2) + ".." + ws(r) * (r.random() < 0.2) + b + cl
    return r.choice(JUNK)


def g_expr(r: random.Random, depth: int, n: int = 6) -> str:
    out = []
    for _ in range(r.randint(0, n)):
        out.append(g_atom(r, depth) if r.random() < 0.6 else r.choice(SYMS))
        out.append(ws(r))
    return "".join(out)


def g_output(r: random.Random) -> str:
    close = "}}" if r.random() > 0.05 else r.choice(["}", "%}", "", "} }"])
    return "{{" + r.choice(WCM) + ws(r, 0.1) + g_expr(r, 2) + r.choice(WCM) + close


def g_tag(r: random.Random) -> str:
    close = "%}" if r.random() > 0.05 else r.choice(["}}", "}", "%", ""])
    name = r.choice(TAGS) if r.random() > 0.05 else r.choice(["If", "x_1", "endifX", "if\u00e9", "", "1", "comment\u00e9"])
    return "{%" + r.choice(WCM) + ws(r, 0.1) + name + ws(r) + g_expr(r, 2) + r.choice(WCM) + close


def g_comment(r: random.Random) -> str:
    n = r.randint(1, 3)
    text = "".join(r.choice(["a", " ", "#", "}", "{", "#}", "{#", "-", "+", "~", "\n", "{{ x }}", "{% y %}", "\u00e9", "##}"])
                   for _ in range(r.randint(0, 6)))
    m = n if r.random() > 0.1 else r.randint(0, 3)
    return "{" + "#" * n + r.choice(WCM) + text + r.choice(WCM) + "#" * m + "}"


def g_inline_comment(r: random.Random) -> str:
    text = "".join(r.choice(["a", " ", "#", "%", "}", "-", "\n", "\n#", "{{", "\u00e9", "%}"][: 10 if r.random() > 0.1 else 11])
                   for _ in range(r.randint(0, 6)))
    return "{%" + r.choice(WCM) + ws(r, 0.1) + "#" + text + r.choice(WCM) + "%}"


def g_block_comment(r: random.Random, depth: int = 2) -> str:
    body = []
    for _ in range(r.randint(0, 4)):
        k = r.random()
        if k < 0.4:
            body.append(r.choice(["text", " ", "\n", "{{ x }}", "{% if %}", "{#", "%}", "\u00e9"]))
        elif k < 0.55 and depth > 0:
            body.append(g_block_comment(r, depth - 1))
        elif k < 0.7:
            body.append("{%" + r.choice(WCM) + ws(r) + "raw" + ws(r) + "%}" + r.choice(["", "x", "{% endcomment %}"])
                        + ("{%" + ws(r) + "endraw" + ws(r) + r.choice(WCM) + "%}") * (r.random() < 0.8))
        elif k < 0.8:
            body.append(r.choice(["{% endraw %}", "{% commentary %}", "{% endcomments %}", "{%comment%}", "{% endcomment"]))
        else:
            body.append(g_output(r))
    close = "{%" + r.choice(WCM) + ws(r, 0.1) + "endcomment" + ws(r) + r.choice(["", "", "junk "]) + r.choice(WCM) + "%}"
    if r.random() < 0.07:
        close = ""
    return "{%" + r.choice(WCM) + ws(r, 0.1) + "comment" + r.choice(["", " ", " x ", "\n"]) + r.choice(WCM) + "%}" + "".join(body) + close


def g_raw(r: random.Random) -> str:
    text = "".join(r.choice(["a", " ", "{{ x }}", "{% y %}", "{%", "%}", "{% endraw", "\n", "{# c #}", "\u00e9", "{% raw %}"])
                   for _ in range(r.randint(0, 5)))
    close = "{%" + r.choice(WCM) + ws(r, 0.1) + "endraw" + ws(r, 0.1) + r.choice(WCM) + "%}"
    if r.random() < 0.07:
        close = r.choice(["", "{% endraw x %}", "{% endraws %}"])
    return "{%" + r.choice(WCM) + ws(r, 0.1) + "raw" + ws(r, 0.1) + r.choice(WCM) + "%}" + text + close


def g_liquid(r: random.Random) -> str:
    lines = []
    for _ in range(r.randint(0, 5)):
        k = r.random()
        ind = r.choice(["", "", "  ", "\t", "\n", " \n  "])
        if k < 0.5:
            lines.append(ind + r.choice(TAGS + ["echo", "assign"]) + r.choice([" ", "  ", "\t"]) + g_expr(r, 1, 4).replace("\n", " ").replace("\r", ""))
        elif k < 0.65:
            lines.append(ind + "#" + r.choice(["", " c", " c %", "# d", " {{ x }}", " \u00e9", " -"]))
        elif k < 0.8:
            inner = "".join(r.choice(["", "", " ", "  ", "\t", "\n", " \n  "]) +
                            r.choice(["a b\n", "# x\n", "comment\n", "endcomment\n", "a\n", "echo 1\n", "\n", "X\n", "if\u00e9\n",
                                      "comment\n  y\n  endcomment\n", "\t\n"])
                            for _ in range(r.randint(0, 4)))
            lines.append(ind + "comment" + r.choice(["\n", " x\n", "\r\n", " "]) + inner +
                         r.choice(["endcomment", "endcomment x", " endcomment", "\tendcomment", "   endcomment -", ""]))
        elif k < 0.9:
            lines.append(ind + r.choice(["X", "1", "if\u00e9", "echo 'a\nb'", "echo @", "", "{{ x }}"]))
        else:
            lines.append(ind + g_string(r, 1))
    sep = r.choice(["\n", "\n", "\r\n", "\n\n"])
    close = r.choice(WCM) + "%}" if r.random() > 0.06 else r.choice(["", "}}", "%"])
    return "{%" + r.choice(WCM) + ws(r, 0.1) + "liquid" + r.choice(["", " ", "\n", " \n  "]) + sep.join(lines) + r.choice(["", "\n", " "]) + close


def g_content(r: random.Random) -> str:
    return "".join(r.choice(["a", "Hello", " ", "\n", "\r\n", ",", "\u00e9", "\u2028", "\U0001F600", "{", "}", "%", "#",
                             "{ {", "%}", "}}", "#}", "<b>", "\t"]) for _ in range(r.randint(1, 5)))


def g_template(r: random.Random) -> str:
    makers = [g_content, g_content, g_output, g_output, g_tag, g_tag, g_comment, g_inline_comment,
              g_block_comment, g_raw, g_liquid]
    out = "".join(r.choice(makers)(r) for _ in range(r.randint(1, 5)))
    if r.random() < 0.3:
        out += r.choice(["\n", " \n", "\r\n", " "])
    return out


def g_random(r: random.Random, maxlen: int = 40) -> str:
    out = ""
    for _ in range(r.randint(1, 14)):
        out += r.choice(RANDOM_UNITS)
    return out[:maxlen]


def edits(r: random.Random, base: str, k: int) -> list[tuple[int, int, str]]:
    """k single-character edits of base as (i, j, inserted): base[:i] + inserted + base[j:]."""
    out = []
    n = len(base)
    for _ in range(k):
        kind = r.random()
        if n == 0 or kind < 0.4:          # insert
            i = r.randint(0, n)
            out.append((i, i, r.choice(EDIT_ALPHABET)))
        elif kind < 0.7:                  # delete
            i = r.randrange(n)
            out.append((i, i + 1, ""))
        else:                             # replace
            i = r.randrange(n)
            out.append((i, i + 1, r.choice(EDIT_ALPHABET)))
    return out


# ---------------------------------------------------------------- sources with an error at a known line

FILLERS = ["text", "{{ a }}", "{% assign v = 1 %}", "", "  indented {{ b }}", "{# c #}", "{% if a %}x{% endif %}",
           "{% liquid\n  assign w = 2\n  echo w\n%}", "{% comment %}\nmulti\n{% endcomment %}", "\u00e9\u00e9 {{ 'q' }}"]
ERROR_LINES = ["{% endif %}", "{% endfor %}", "{% endcase %}", "{% endunless %}", "{% else %}", "{% when 1 %}", "{% if %}", "{% for %}",
               "{% assign %}", "{% case %}", "{% nosuchtag %}", "{{ x | nosuch }}", "{{ 1 | divided_by: 0 }}", "{{ a b }}",
               "{{ ( }}", "{{ 'x }}", "{{ x. }}", "{{ x[ }}", "{% include 'nosuch' %}", "{% render 'nosuch' %}", "{% render nosuch %}",
               "{{ 1 | plus: , }}", "{% liquid\n echo 1\n endx\n%}", "{% liquid\ncomment\n x\n%}", "{{ 1 | divided_by: 0 }}{{ y }}",
               "{% extends 'nosuch' %}", "{% cycle %}", "{% echo %}", "{{ \"${ 1 | nosuch }\" }}", "{% for i in (1..3) %}{% endif %}",
               "{% break %}{{ 1 | modulo: 0 }}", "{{", "{%", "{% if x", "{% comment %}",
               # an unexpected token where a primitive is expected, with and without a token after it
               "{% if a == , b %}x{% endif %}", "{{ a if , else c }}", "{% if a == | %}x{% endif %}", "{% if a and ) %}{% endif %}",
               "{% unless , %}{% endunless %}", "{{ a if b else | }}", "{% if not , %}{% endif %}", "{% case x %}{% when , %}{% endcase %}",
               # lexer errors raised after the scan pointer moved on from the start of the offending text
               "{% liquid\n echo a ^ b\n%}", "{% liquid\n@ %}", "{% comment %}a{% raw %}{% endcomment %}", "{% liquid\ncomment\necho 'b' %}",
               "{% liquid\n assign x = 1}",
               # a bad escape sequence: in a plain literal, after escaped quotes, in a bracketed path segment
               "{{ \"ab\\uDC00\" }}", "{{ 'it\\'s \\'so\\' \\uDC00' }}", "{{ some_long_name[\"ab\\uDC00\"] }}", "{{ a['b\\uDC00'].c }}"]


def error_line_sources(r: random.Random, tier: str) -> list[str]:
    """Multi-line sources with one erroneous construct at the start (column 0)
    or after indentation of every line of 1..5-line templates, with and without
    a final newline."""
    out: list[str] = []
    for err in ERROR_LINES:
        for k in range(1, 6):
            for j in range(k):
                if tier != "thorough" and (k + j + len(err)) % 2 and k > 2:
                    continue
                lines = [r.choice(FILLERS) for _ in range(k)]
                lines[j] = (r.choice(["", "", "  ", "\t", "ab "]) + err)
                for sep in (["\n"] if tier != "thorough" else ["\n", "\r\n"]):
                    src = sep.join(lines)
                    out.append(src)
                    if r.random() < 0.5:
                        out.append(src + sep)
    seen: set[str] = set()
    return [s for s in out if not (s in seen or seen.add(s))]


# ---------------------------------------------------------------- nested paths with known positions

PATH_CONTEXTS = [
    ("{{ ", " }}", True), ("{{ ", " | upcase }}", True), ("{{ a | append: ", " }}", True), ("{% if ", " %}t{% endif %}", True),
    ("{% for i in ", " %}{% endfor %}", True), ("{% echo ", " %}", True), ("line1\n\n  {{ ", " }}\nend", True),
    ("{% liquid\n echo ", "\n%}", True), ('{{ "${ ', ' }" }}', True), ("{% case ", " %}{% when 1 %}{% endcase %}", True),
    ("{% assign v = ", " %}{{ v }}", False), ("{% if true %}\n{{\n  ", "\n}}{% endif %}", True),
    ("{% unless ", " %}{% endunless %}", True), ("{{ a if ", " else a }}", True), ("{% cycle ", ", 1 %}", False),
    ("{% with w: ", " %}{{ w }}{% endwith %}", False), ("{% for i in (1..2) %}\n  {% if i == ", " %}{% endif %}\n{% endfor %}", True),
    ("\u00e9\u00e9\n{{ a }}{{ ", " }}", True), ("{% comment %}\n{% endcomment %}\n{# x\ny #}{{ ", " }}", True),
]


def nested_path(r: random.Random, depth: int, counter: list[int], start: int = 0, sh: bool = False) -> dict:
    """A variable path with nested bracketed paths; every path node records the
    absolute offset of its first character, its own text and its root name."""
    counter[0] += 1
    root = f"nv{counter[0]}"
    node = {"root": root, "start": start, "children": []}
    text = root
    for _ in range(r.randint(1, 3)):
        k = r.random()
        if sh and k < 0.2:
            text += "." + r.choice(["0", "1", "12", "-1"])      # shorthand index (env.shorthand_indexes)
        elif k < 0.3:
            text += "." + r.choice(["title", "b", "x-y", "size"])
        elif k < 0.4:
            text += "[" + r.choice(["0", "1", "-1"]) + "]"
        elif k < 0.5:
            text += "[" + r.choice(["'k'", '"k"', "'a b'"]) + "]"
        elif depth > 0:
            ws = r.choice(["", "", "", " ", "\n  ", "\n"])
            child = nested_path(r, depth - 1, counter, start + len(text) + 1 + len(ws), sh)
            node["children"].append(child)
            text += "[" + ws + child["text"] + "]"
        else:
            text += ".p"
    if sh and r.random() < 0.5:
        text += "." + r.choice(["0", "1", "7"])                  # the path ENDS in a shorthand index
    node["text"] = text
    return node


def path_nodes(node: dict) -> list[dict]:
    out = [node]
    for c in node["children"]:
        out += path_nodes(c)
    return out


def nested_path_cases(r: random.Random, tier: str) -> list[tuple[str, list[dict], bool, bool]]:
    """(source, path nodes with absolute positions, must-raise-under-StrictUndefined, shorthand_indexes)."""
    out = []
    n = 400 if tier == "thorough" else 60
    for sh in (False, True):
        fixed = 0
        for k in range(n):
            pre, post, must = PATH_CONTEXTS[k % len(PATH_CONTEXTS)]
            counter = [0]
            node = nested_path(r, r.randint(1, 3), counter, len(pre), sh)
            if not node["children"] and fixed < n // 2:
                node = nested_path(r, 2, [0], len(pre), sh)
                fixed += 1
            out.append((pre + node["text"] + post, path_nodes(node), must, sh))
    return out


# ---------------------------------------------------------------- multi-template programs with a render-time error

FAILING = [  # (construct, needs StrictUndefined)
    ("{% include 'nosuch' %}", False), ("{% render 'nosuch' %}", False), ("{{ 1 | divided_by: 0 }}", False), ("{{ 'a' | slice: 'z' }}", False),
    ("{% for z in 5 %}{% endfor %}", False), ("{{ nope.x }}", True), ("{% if nope %}{% endif %}", True), ("{{ 7 | modulo: 0 | upcase }}", False),
    ("{% break %}", False), ("{% assign v = 1 | divided_by: 0 %}", False), ("{{ \"${ 1 | divided_by: 0 }\" }}", False),
]
HISTORIES = [  # steps that run BEFORE the failing construct; {P} partial names are defined below
    "", "{% for i in (1..3) %}\n{% include 'row_break' %}\n{% endfor %}", "{% for i in (1..3) %}{% include 'row_continue' %}{% endfor %}",
    "{% for i in (1..2) %}{% for j in (1..2) %}{% include 'row_break' %}{% endfor %}{% include 'row_continue' %}{% endfor %}",
    "{% include 'plain' %}", "{% render 'plain' %}", "{% for i in (1..2) %}{% render 'plain' %}{% endfor %}",
    "{% macro m %}{% render 'plain' %}{% endmacro %}{% call m %}", "{% for i in (1..3) %}{% include 'nested_break' %}{% endfor %}",
    "{% capture c %}{% for i in (1..2) %}{% include 'row_break' %}{% endfor %}{% endcapture %}",
    "{% for i in (1..2) %}{% include 'row_break' with i as k %}{% endfor %}", "{% include 'row_loop' %}",
    "{% liquid for i in (1..3)\n include 'row_continue'\n endfor %}", "{% for i in (1..3) %}{% if i == 2 %}{% break %}{% endif %}{% include 'plain' %}{% endfor %}",
]
PARTIALS = {
    "row_break": "r{{ i }}{% if i == 2 %}{% break %}{% endif %}-", "row_continue": "c{% if i == 1 %}{% continue %}{% endif %}{{ i }}\n",
    "plain": "p\n{{ 1 | plus: 1 }}", "nested_break": "{% include 'row_break' %}", "row_loop": "{% for q in (1..3) %}{% include 'row_break' with q as i %}{% endfor %}",
}


def program_cases(r: random.Random, tier: str) -> list[tuple[dict[str, str], str, str, bool]]:
    """(templates, entry, name of the template that contains the failing
    construct, strict undefined). The failing construct sits after the history,
    several lines down, in the entry template, in an included partial, in the
    overriding block of a child or in the base template after the block."""
    out = []
    fillers = ["text", "{{ 'ok' }}", "", "  {% assign w = 1 %}", "{# c #}"]
    n = 0
    for hist in HISTORIES:
        for fail, strict in FAILING:
            n += 1
            if tier != "thorough" and n % 2 and hist not in HISTORIES[1:4]:
                continue
            pre = "\n".join(r.choice(fillers) for _ in range(r.randint(0, 3)))
            mid = "\n".join(r.choice(fillers) for _ in range(r.randint(1, 3)))
            indent = r.choice(["", "  ", "\t"])
            body = pre + "\n" + hist + "\n" + mid + "\n" + indent + fail + "\nend"
            kind = n % 4
            if kind in (1, 2) and "break" in fail:
                # a stray break inside an overriding block is reported at the block tag of the base, one at the top
                # level of an included partial travels to the includer (reported at its include tag, or it ends a loop there)
                kind = 0
            t = dict(PARTIALS)
            if kind == 0:
                t["main"] = body
                out.append((t, "main", "main", strict))
            elif kind == 1:
                t["inner"] = body
                t["main"] = "m1\n" + r.choice(["{% include 'inner' %}", "{% for u in (1..1) %}{% include 'inner' %}{% endfor %}"]) + "\nm3"
                out.append((t, "main", "inner", strict))
            elif kind == 2:
                t["base"] = "B1\n{% block b %}base{% endblock %}\nB3"
                t["main"] = "{% extends 'base' %}\n{% block b %}" + body + "{% endblock %}"
                out.append((t, "main", "main", strict))
            else:
                t["base"] = "B1\n{% block b %}base{% endblock %}\n" + body
                t["main"] = "{% extends 'base' %}{% block b %}\n" + hist + "\nchild{% endblock %}"
                out.append((t, "main", "base", strict))

    # errors whose token belongs to a template other than the one being rendered when they are raised
    def fill(lo: int, hi: int) -> str:
        return "".join(r.choice(fillers) + "\n" for _ in range(r.randint(lo, hi)))

    for rep in range(6 if tier == "thorough" else 2):
        # a duplicate block in a base (or middle) template of the chain
        t = dict(PARTIALS)
        t["base"] = "B1\n{% block a %}1{% endblock %}\n" + fill(1, 4) + r.choice(["", "  "]) + "{% block a %}2{% endblock %}\nend"
        t["mid"] = "{% extends 'base' %}" + fill(0, 2)
        t["main"] = r.choice(["{% extends 'base' %}{% block a %}L{% endblock %}", "{% extends 'mid' %}\n{% block a %}L{% endblock %}"])
        out.append((t, "main", "base", False))
        t = dict(PARTIALS)
        t["base"] = "B1\n{% block a %}1{% endblock %}"
        t["mid"] = "{% extends 'base' %}\n" + fill(1, 3) + "{% block a %}m{% endblock %}\n" + fill(0, 2) + "{% block a %}n{% endblock %}"
        t["main"] = "{% extends 'mid' %}"
        out.append((t, "main", "mid", False))
        # the body of a macro defined in an included template, called from the includer
        for fail, strict in FAILING:
            if "break" in fail or (rep and tier != "thorough" and "divided_by" not in fail):
                continue
            t = dict(PARTIALS)
            t["inc"] = fill(2, 5) + r.choice(["", "  ", "\t"]) + "{% macro m %}" + r.choice(["", "text ", "\n"]) + fail + "{% endmacro %}\n" + fill(0, 2)
            t["main"] = r.choice(["{% include 'inc' %}{% call m %}", "x{% include 'inc' %}\n{% for i in (1..2) %}{% call m %}{% endfor %}",
                                  "{% include 'inc' %}{% capture c %}{% call m %}{% endcapture %}"])
            out.append((t, "main", "inc", strict))
        # an undefined value made in one template and used (under StrictUndefined) in another: the error
        # carries the token of the place that made it, so it must name that template
        items = "{% assign items = 'a,b' | split: ',' %}"
        for main, item in [
            (items + fill(0, 2) + "text {% render 'item' for items as item %}", fill(0, 3) + "{{ forloop.parentloop.index }}"),
            (items + "{% render 'item' for items as item %}", fill(1, 3) + "  {% if forloop.parentloop %}{% endif %}"),
            (fill(0, 3) + "text {% render 'item', a: nosuch %}", fill(1, 3) + "{{ a }}"),
            (fill(0, 3) + "{% render 'item', a: nosuch.b %}", fill(1, 3) + "{{ a.c }}"),
            (fill(0, 3) + " {% include 'item' with nosuch as x %}", fill(1, 3) + "{{ x }}"),
            (fill(0, 3) + "{% include 'item', x: nosuch.y %}", fill(1, 3) + "{% if x %}{% endif %}"),
            (fill(0, 3) + "{% assign x = nosuch %}\n{% include 'item' %}", fill(1, 3) + "{{ x }}"),
            ("{% include 'item' %}" + fill(1, 3) + "text {% call m nosuch %}", fill(1, 3) + "{% macro m a %}{{ a }}{% endmacro %}"),
            ("{% include 'item' %}" + fill(1, 3) + "text {% call m %}", fill(1, 3) + "{% macro m a %}{{ a }}{% endmacro %}"),
        ]:
            t = dict(PARTIALS)
            t["main"], t["item"] = main, item
            out.append((t, "main", "main", True))
    return out


# ---------------------------------------------------------------- translatable messages nested in blocks

def extraction_cases(r: random.Random, tier: str) -> list[str]:
    """Templates whose translatable messages are 'M<k>' strings, each on a line
    of its own, nested in blocks that start on earlier lines."""
    opens = [("{% if x %}", "{% endif %}"), ("{% for i in y %}", "{% endfor %}"), ("{% unless x %}", "{% endunless %}"),
             ("{% case x %}\n{% when 1 %}", "{% endcase %}"), ("{% capture c %}", "{% endcapture %}"), ("{% with a: 1 %}", "{% endwith %}"),
             ("{% if x %}\n{% else %}", "{% endif %}"), ("{% for i in y %}\n{% if i %}", "{% endif %}\n{% endfor %}")]
    out = []
    for _ in range(120 if tier == "thorough" else 25):
        k = 0
        lines: list[str] = []
        closers: list[str] = []
        for _step in range(r.randint(3, 9)):
            c = r.random()
            if c < 0.3 and len(closers) < 3:
                o, cl = r.choice(opens)
                lines += o.split("\n")
                closers.append(cl)
            elif c < 0.4 and closers:
                lines += closers.pop().split("\n")
            elif c < 0.55:
                lines.append(r.choice(["", "text", "  {{ z }}", "{# c #}"]))
            else:
                k += 1
                m = f"M{k}"
                form = r.choice(["{{ '@M@' | t }}", "  {% assign m = '@M@' | t %}", "{{ '@M@' | gettext }}", "\t{% echo '@M@' | t: v: 1 %}",
                                 "{% translate %}@M@{% endtranslate %}", "{{ z }} {{ \"@M@\" | t }}", "{% liquid", "{{ '@M@' | t | upcase }}"])
                if form == "{% liquid":
                    lines += ["{% liquid", "  if x", f"    echo '{m}' | t", "  endif", "%}"]
                else:
                    lines.append(form.replace('@M@', m))
        while closers:
            lines += closers.pop().split("\n")
        out.append("\n".join(lines))
    return out


# ---------------------------------------------------------------- indexes at CPython's int/str digit limit

def range_leak_sources() -> list[str]:
    """A `..` outside parentheses (the parser's to reject) followed, in a later
    markup or line statement, by a parenthesis: the lexer's range detection
    must not outlive the markup it started in."""
    strays = ["{{ a..b }}", "{% if a..b %}x{% endif %}", "{% assign v = 1..2 %}", "{{ .. }}", "{% liquid echo a..b\n echo (1..2) %}"]
    later = ["{{ (c) }}", "{{ items | map: (x, i) => x }}", "{% if (a or b) and c %}y{% endif %}", "{{ (1..3) }}", "{% for i in (1..2) %}{% endfor %}",
             "{% liquid echo 1\n echo (c) %}", "{{ 'a${ (c) }b' }}", "{{ f(x) }}", "{{ ) }}"]
    out = [a + "\ntext\n" + b for a in strays for b in later]
    out += ["{% liquid echo a..b\n echo (c) %}", "{% liquid echo a..b\n assign v = (x) %}{{ (1..2) }}", "{{ 'a${ b..c }d' }}{{ (e) }}",
            "{{ 'a${ b..c }d' | f: (e) }}", "{{ a..b | f: (c) }}", "{{ (a..b }}\n{{ c) }}"]
    return out


def hyphen_sources() -> list[str]:
    """A hyphen directly after a name: part of the name, unless the two
    characters that close the markup follow it (then it is whitespace control)."""
    names = ["x", "a.b", "a-b", "a.b-c", "true", "a['k'].b", "x-"]
    out = []
    for n in names:
        for tail in ["-}}", "- }}", "-%}", "-}", "-%", "--}}", "-~}}", "-}}}", "-", "-}} -}}", "-.b}}", "-[0]}}"]:
            out += ["{{" + n + tail, "{{ " + n + tail + " z", "{% if " + n + tail + "t{% endif %}", "{% capture " + n + tail + "{% endcapture %}",
                    "{% liquid echo " + n + tail + "\n%}"]
    return out


def long_index_sources() -> list[str]:
    """Array indexes with exactly and just over sys.get_int_max_str_digits()
    digits (leading zeros keep the VALUE small, so the expected token is cheap
    to write down). Empty when the interpreter's limit is not the default 4300
    that Kernels/Lex.v models."""
    import sys

    if getattr(sys, "get_int_max_str_digits", lambda: 4300)() != 4300:
        return []
    ok, bad = "0" * 4299 + "7", "0" * 4300 + "7"
    return ["{{ a[" + ok + "] }}", "{{ a[" + bad + "] }}", "{{ a[-" + ok + "] }}", "{{ a[ -" + bad + " ] }}",
            "{{ a." + ok + " }}", "{{ a.b." + bad + " }}", "{{ ['x'].-" + ok + ".c }}", "{{ x[y[" + bad + "]] }}"]
