"""C17 — tokens tile the source and every reported position lies inside it.

Tie: the COMPLETE outcome of `liquid2.tokenize(env, src)` (every field of every
markup and expression token, or the error class and index, or the escaping
Python exception) is compared for equality with `Lex.lex shorthand src`
evaluated by vm_compute, on the valid corpus, grammar-generated lexically rich
templates, every prefix and sampled single-character edits of those, and
random strings.  The Unicode tables of Kernels/LexUni.v are compared with the
running CPython's.  Oracle: the four C17 statements evaluated on the Python
tokens (harness/lexdump.py: oracle).
"""

from __future__ import annotations

import re
import warnings
from typing import Any

from . import common as C
from . import lexdump as L
from . import lexgen as G

IMPORTS = "From LQ Require Import Kernels.LexUni Kernels.Lex Kernels.ErrCtx."
NEEDED = ["theories/Base/Str.v", "theories/Kernels/LexUni.v", "theories/Kernels/Lex.v",
          "theories/Kernels/ErrCtx.v", "theories/Proofs/LexMatch_proofs.v", "theories/Proofs/Lex_proofs.v",
          "theories/Proofs/LexNest_proofs.v", "theories/Proofs/LexText_proofs.v", "theories/Proofs/ErrCtx_proofs.v"]

GROUP = 6000     # cases per correspond() call
SHARDS = 24      # shard files per call


class Cases:
    """Sources are `base[:i] + ins + base[j:]`; each base is a Coq Definition."""

    def __init__(self) -> None:
        self.bases: list[str] = []
        self.base_id: dict[str, int] = {}
        self.items: list[tuple[int, int, int, str, bool, str]] = []   # base, i, j, ins, shorthand, family
        self.seen: set[tuple[str, bool]] = set()

    def base(self, s: str) -> int:
        if s not in self.base_id:
            self.base_id[s] = len(self.bases)
            self.bases.append(s)
        return self.base_id[s]

    def add(self, base: str, i: int, j: int, ins: str, sh: bool, family: str) -> None:
        src = base[:i] + ins + base[j:]
        if (src, sh) in self.seen:
            return
        self.seen.add((src, sh))
        self.items.append((self.base(base), i, j, ins, sh, family))

    def whole(self, s: str, sh: bool, family: str) -> None:
        self.add(s, len(s), len(s), "", sh, family)

    def src(self, it: tuple) -> str:
        b = self.bases[it[0]]
        return b[:it[1]] + it[3] + b[it[2]:]

    def uses(self) -> dict[int, int]:
        u: dict[int, int] = {}
        for it in self.items:
            u[it[0]] = u.get(it[0], 0) + 1
        return u

    def s_term(self, it: tuple, shared: set[int]) -> str:
        """Coq term of the source: a literal, or built from a shared base Definition."""
        b, i, j, ins = it[0], it[1], it[2], it[3]
        if b not in shared:
            return C.cstr(self.src(it))
        n = len(self.bases[b])
        if i == n and j == n and not ins:
            return f"B{b}"
        if j == n and not ins:
            return f"(firstn {i} B{b})"
        mid = f" ++ {C.cstr(ins)}" if ins else ""
        return f"(firstn {i} B{b}{mid} ++ skipn {j} B{b})"


def build(tier: str) -> Cases:
    thorough = tier == "thorough"
    r = C.rng("c17", tier)
    cs = Cases()
    corpus = G.corpus(C.REPO)
    appendix = set(G.APPENDIX)
    # 1. the corpus itself, both settings of shorthand_indexes for the path-bearing ones
    for s in corpus:
        cs.whole(s, False, "corpus")
        if "." in s and (thorough or s in appendix or r.random() < 0.15):
            cs.whole(s, True, "corpus")
    for s in G.long_index_sources():
        cs.whole(s, False, "corpus")
        cs.whole(s, True, "corpus")
    for s in G.range_leak_sources():
        cs.whole(s, False, "generated")
    for n, s in enumerate(G.hyphen_sources()):
        if thorough or n % 3 == 0 or n < 60:
            cs.whole(s, n % 2 == 1, "generated")
    # 2. grammar-generated templates
    gen = [G.g_template(r) for _ in range(2500 if thorough else 260)]
    gen = [g for g in gen if len(g) <= 400]
    for g in gen:
        cs.whole(g, r.random() < 0.3, "generated")
    # 3. every prefix
    pre_pool = [s for s in corpus if s in appendix]
    rest = [s for s in corpus if s not in appendix and len(s) <= 200]
    r.shuffle(rest)
    pre_pool += rest[:700] if thorough else rest[:40]
    gsel = list(gen)
    r.shuffle(gsel)
    pre_pool += gsel[: (250 if thorough else 25)]
    for s in pre_pool:
        sh = r.random() < 0.2
        for k in range(len(s)):
            cs.add(s, k, len(s), "", sh, "prefix")
    # 4. single-character edits
    ed_pool = list(corpus) + gen
    for s in ed_pool:
        if len(s) > 300:
            continue
        k = (max(3, len(s) // 5) if thorough else (3 if s in appendix else (1 if r.random() < 0.5 else 0)))
        for (i, j, ins) in G.edits(r, s, k):
            cs.add(s, i, j, ins, r.random() < 0.2, "edit")
    # 5. random strings
    for _ in range(8000 if thorough else 500):
        cs.whole(G.g_random(r), r.random() < 0.2, "random")
    return cs


def unicode_table_cases() -> list[dict[str, Any]]:
    """LexUni.v's tables == the running CPython's, over all code points."""
    def ranges(pred: Any) -> list[tuple[int, int]]:
        out, start = [], None
        for c in range(0x110000):
            if pred(c):
                if start is None:
                    start = c
            elif start is not None:
                out.append((start, c - 1))
                start = None
        if start is not None:
            out.append((start, 0x10FFFF))
        return out

    ws, ww = re.compile(r"\s"), re.compile(r"\w")
    tabs = {
        "space_ranges": ranges(lambda c: ws.match(chr(c)) is not None),
        "word_ranges": ranges(lambda c: ww.match(chr(c)) is not None),
        "linebreak_ranges": ranges(lambda c: len((chr(c) + "x").splitlines()) == 2),
    }
    sp2 = ranges(lambda c: chr(c).isspace())
    strip = ranges(lambda c: (chr(c) + "x").rstrip() != (chr(c) + "x") or ("x" + chr(c)).rstrip() == "x")
    items = []
    for name, rs in tabs.items():
        term = C.clist((f"({a},{b})" for a, b in rs), "(N*N)")
        items.append({"case": f"ranges_eqb {name} {term}", "model": name,
                      "replay": {"table": name, "cpython_ranges": len(rs)}})
    same = sp2 == tabs["space_ranges"] and strip == tabs["space_ranges"]
    items.append({"case": C.cbool(same), "model": "space_ranges",
                  "replay": {"table": "str.isspace / str.rstrip set == re \\s", "same": same}})
    return items


def main(chk: C.Check, build_: C.Build) -> None:
    warnings.simplefilter("ignore")
    proofs_ok = C.proof_stage(chk, build_, NEEDED)
    cs = build(chk.tier)

    fam: dict[str, int] = {}
    outcomes = {"ok": 0, "lerr": 0, "lerr_eoi": 0, "lerr_notoken": 0, "pyexc": 0}
    kinds_seen: set[str] = set()
    nontrivial = 0
    ast_nodes = 0
    loc_checked = 0
    kept = L.KeptErrors()
    kept_failures = 0

    def recheck_kept() -> None:
        """Parse a few more templates (their errors reach the end of input),
        then look again at every error raised so far."""
        nonlocal kept_failures
        from liquid2.exceptions import LiquidError as _LE
        env = L.env_for(False)
        for more in ("{% if x %}\n\nunclosed, and longer than most of the kept sources" + " ." * 40, "{% for a in b %}", "{{ x |", "{% assign v = %}",
                     "a\n{% case x %}{% when 1 %}", "{% liquid if x\n echo 1 %}"):
            try:
                env.from_string(more)
            except _LE:
                pass
            except Exception:  # noqa: BLE001  (C02's business)
                pass
        for fail, replay in kept.recheck():
            kept_failures += 1
            if kept_failures <= 5:
                chk.finding("oracle:" + fail.split(":")[0], fail, replay)

    loc_line_gt1 = 0
    loc_col0_line_gt1 = 0
    items: list[dict[str, Any]] = []
    samples = []
    shared = {b for b, k in cs.uses().items() if k >= 3}
    for n, it in enumerate(cs.items):
        src = cs.src(it)
        sh = it[4]
        fam[it[5]] = fam.get(it[5], 0) + 1
        out = L.outcome(src, sh)
        outcomes[out[0]] += 1
        if out[0] == "lerr":
            if out[2] is None:
                outcomes["lerr_notoken"] += 1
            elif out[2] == len(src):
                outcomes["lerr_eoi"] += 1
        if out[0] == "ok":
            ks = {type(t).__name__ for t in out[1]}
            kinds_seen |= ks
            if len(out[1]) >= 2 or ks - {"ContentToken"}:
                nontrivial += 1
        elif out[0] == "lerr":
            nontrivial += 1
        fail = L.oracle(out, src)
        if fail:
            chk.finding("oracle:" + fail.split(":")[0], fail,
                        {"source": src, "shorthand_indexes": sh, "outcome": L.outcome_json(out),
                         "how": "liquid2.tokenize(Environment(), source); harness/lexdump.py oracle"})
        if out[0] == "pyexc":
            chk.finding(f"PyExc {out[1]} @ {out[2]}", f"tokenize raised {out[1]} in {out[2]}",
                        {"source": src, "shorthand_indexes": sh})
        if out[0] == "lerr":
            kept.keep(out[3], src, "liquid2.tokenize")
            if len(kept.items) >= 150:
                recheck_kept()
            lfail = L.location_check(out[3], src)
            loc_checked += out[2] is not None
            if lfail:
                chk.finding("oracle:" + lfail.split(":")[0], lfail,
                            {"source": src, "token_start": out[2], "how": "tokenize; exc.context(), detailed_message(), str()"})
        if out[0] == "ok" and not sh and it[5] in ("corpus", "generated"):
            cnt, afail = L.ast_positions(src)
            ast_nodes += cnt
            if afail:
                chk.finding("oracle:ast-position", afail,
                            {"source": src, "how": "Environment().from_string(source); walk nodes and expressions"})
        s_term = cs.s_term(it, shared)
        model = f"lex {C.cbool(sh)} {s_term}"
        try:
            exp = L.outcome_term(out, src)
            case = f"(let s := {s_term} in lex_eqb (lex {C.cbool(sh)} s) {exp})"
        except L.Unrepresentable as e:
            case = "false"
            chk.notes.append(f"token dump not representable ({e}) for {src!r}")
        items.append({"case": case, "model": model, "base": it[0],
                      "replay": {"source": src, "shorthand_indexes": sh, "family": it[5],
                                 "implementation": L.outcome_json(out)}})
        if n % max(1, len(cs.items) // 5) == 0 and len(samples) < 5:
            samples.append({"source": src, "shorthand_indexes": sh, "family": it[5],
                            "outcome": L.outcome_json(out)})

    # error locations through the parser and the renderer: an erroneous construct
    # at every line start of multi-line sources, and the whole corpus
    from liquid2.exceptions import LiquidError
    lenv = L.env_for(False)
    for src in G.error_line_sources(C.rng("c17-lines", chk.tier), chk.tier) + [s for s in G.corpus(C.REPO) if len(s) <= 600]:
        try:
            lenv.from_string(src).render()
            continue
        except LiquidError as e:
            err = e
        except Exception:  # noqa: BLE001  (C02's business)
            continue
        kept.keep(err, src, "Environment().from_string(source).render()")
        if len(kept.items) >= 40:
            recheck_kept()
        tok = getattr(err, "token", None)
        if tok is None or tok.start < 0 or getattr(tok, "source", None) != src:
            continue
        loc_checked += 1
        exp = L.expected_location(src, tok.start)
        if exp and exp[0] > 1:
            loc_line_gt1 += 1
            loc_col0_line_gt1 += exp[1] == 0
        lfail = L.location_check(err, src)
        if lfail:
            chk.finding("oracle:" + lfail.split(":")[0], lfail,
                        {"source": src, "error": type(err).__name__, "token_start": tok.start,
                         "how": "Environment().from_string(source).render(); exc.context(), detailed_message(), str()"})

    recheck_kept()

    # static-analysis variable spans and StrictUndefined error locations (nested paths)
    var_spans = 0
    path_checks = 0
    for src in G.corpus(C.REPO):
        if len(src) > 600:
            continue
        cnt, vfail = L.variable_spans(src)
        var_spans += cnt
        if vfail:
            chk.finding("oracle:" + vfail.split(":")[0], vfail,
                        {"source": src, "how": "Environment().from_string(source).analyze() / analyze_async(); source[span] re-parsed"})
    for src in G.APPENDIX:
        if "." in src:
            cnt, vfail = L.variable_spans(src, True)
            var_spans += cnt
            if vfail:
                chk.finding("oracle:" + vfail.split(":")[0], vfail,
                            {"source": src, "shorthand_indexes": True, "how": "analyze() with shorthand_indexes; source[span] re-parsed"})
    for src, nodes, must, psh in G.nested_path_cases(C.rng("c17-paths", chk.tier), chk.tier):
        cnt, vfail = L.nested_path_check(src, nodes, must, psh)
        path_checks += cnt
        if vfail:
            chk.finding("oracle:" + vfail.split(":")[0], vfail,
                        {"source": src, "shorthand_indexes": psh, "paths": [{k: nd[k] for k in ("root", "start", "text")} for nd in nodes],
                         "how": "analyze(); Environment(undefined=StrictUndefined) render / render_async with all roots but one bound"})

    # render-time errors of multi-template programs (include / render / extends, break and
    # continue unwinding through partials, macros): named template, span, line and column
    prog_checks = 0
    for templates, entry, expect, strict in G.program_cases(C.rng("c17-programs", chk.tier), chk.tier):
        cnt, pfail = L.program_check(templates, entry, expect, strict)
        prog_checks += cnt
        if pfail:
            chk.finding("oracle:" + pfail.split(":")[0], pfail,
                        {"templates": templates, "entry": entry, "failing_construct_in": expect, "strict_undefined": strict,
                         "how": "Environment(loader=DictLoader(templates)).get_template(entry).render() / render_async()"})

    # line numbers of translatable messages nested in blocks that start on earlier lines
    extr_checks = 0
    for src in G.extraction_cases(C.rng("c17-extract", chk.tier), chk.tier):
        cnt, efail = L.extraction_check(src)
        extr_checks += cnt
        if efail:
            chk.finding("oracle:" + efail.split(":")[0], efail,
                        {"source": src, "how": "liquid2.messages.extract_from_template(Environment().from_string(source))"})

    # correspondence, in groups that share base definitions
    items.sort(key=lambda x: x["base"])
    for gi in range(0, len(items), GROUP):
        grp = items[gi:gi + GROUP]
        used = sorted({x["base"] for x in grp} & shared)
        defs = "\n".join(f"Definition B{b} : str := {C.cstr(cs.bases[b])}." for b in used)
        L.correspond(chk, f"c17_{gi // GROUP}", IMPORTS, defs, grp, what="Lex.lex",
                     shard=max(50, -(-len(grp) // SHARDS)))
    L.correspond(chk, "c17_uni", IMPORTS, "", unicode_table_cases(), what="LexUni tables", shard=50)
    C.proofs_verdict(chk, proofs_ok)

    chk.coverage.update({
        "evaluations": len(cs.items),
        "distinct_nontrivial": nontrivial,
        "rule": ("distinct (source, shorthand_indexes) pairs whose complete tokenize() outcome was compared with the model; "
                 "non-trivial = the source produced markup other than a single content token, or a syntax error "
                 "(i.e. the scanner left lex_markup's CONTENT branch)"),
        "samples": samples,
        "distribution": {"families": fam, "outcomes": outcomes, "bases": len(cs.bases), "ast_nodes_and_expressions_checked": ast_nodes,
                         "error_locations_checked": loc_checked, "kept_errors_rechecked_after_later_parses": kept.rechecked, "multi_template_render_error_locations_checked": prog_checks, "extracted_message_lines_checked": extr_checks, "analysis_variable_spans_checked": var_spans,
                         "nested_path_span_and_undefined_location_checks": path_checks, "of_which_on_a_line_after_the_first": loc_line_gt1,
                         "of_which_at_column_0_of_a_later_line": loc_col0_line_gt1,
                         "markup_token_classes_seen": sorted(kinds_seen)},
        "alphabet": "all of Unicode for the \\s/\\w/linebreak tables (compared exhaustively with CPython); generated sources use ASCII plus "
                    "U+00A0 U+00E9 U+00FC U+00EF U+2003 U+2028 U+0085 U+001C U+000B U+65E5 U+672C U+1F600 and whatever the corpus contains",
        "exhaustive": False,
        "tier_proved": "kernel (complete lexer model, all strings)",
    })
    chk.assumptions += [
        "the model is of the lexer WITH /verif/proposed_fixes/C17/0001-0004 and C02/0001-0003 applied",
        "CPython's re engine and str methods are modelled (ordered alternation, greedy/lazy quantifiers, back-reference, \\b), not verified",
        "ErrorToken.value / markup_start / markup_stop and exception messages are not compared (error class and index are)",
        "AST node positions (node.token) are the positions of these tokens; the parser is not modelled",
    ]
