"""Generator, Liquid printer and Coq printer for the Core Liquid Fragment
(Core/Syntax.v).  Shared by the C01 and C07 checks.

Programs are generated as ASTs (nested tuples), typed loosely by the data they
will be rendered with so that conditions are not constantly false.  Everything
random comes from the `random.Random` passed in.
"""

from __future__ import annotations

import random
from typing import Any

from . import common as C

# ---------------------------------------------------------------- data

SCALAR_STRS = ["", "a", "b", "ab", "hello", " ", "x y", "A", "10", "é"]
VARS = ["a", "b", "c", "n", "s", "xs", "d", "t"]
KEYS = ["k", "m", "size", "first", "title"]


def gen_scalar(r: random.Random) -> Any:
    k = r.random()
    if k < 0.3:
        return r.choice([0, 1, 2, 3, -1, 7, 10, 42])
    if k < 0.65:
        return r.choice(SCALAR_STRS)
    if k < 0.8:
        return r.choice([True, False])
    return None


def gen_value(r: random.Random, depth: int = 2) -> Any:
    k = r.random()
    if depth <= 0 or k < 0.45:
        return gen_scalar(r)
    if k < 0.8:
        n = r.choice([0, 1, 2, 3, 3, 4])
        if r.random() < 0.7:
            return [gen_scalar(r) for _ in range(n)]
        return [gen_value(r, depth - 1) for _ in range(n)]
    n = r.choice([0, 1, 2, 3])
    ks = r.sample(KEYS, n)
    return {kk: gen_value(r, depth - 1) for kk in ks}


def gen_data(r: random.Random) -> dict[str, Any]:
    d: dict[str, Any] = {}
    if r.random() < 0.07:
        return d            # rendering without any data is a boundary of its own
    for v in VARS:
        if r.random() < 0.8:
            d[v] = gen_value(r)
    # make a few variables reliably typed
    if r.random() < 0.8:
        d["xs"] = [gen_scalar(r) for _ in range(r.choice([0, 1, 2, 3, 4, 5]))]
    if r.random() < 0.8:
        d["n"] = r.choice([0, 1, 2, 3, 5])
    if r.random() < 0.8:
        d["d"] = {kk: gen_scalar(r) for kk in r.sample(KEYS, r.choice([0, 1, 2, 3]))}
    if r.random() < 0.8:
        d["s"] = r.choice(SCALAR_STRS)
    if r.random() < 0.7:
        d["flag"] = r.choice([True, False, 1, 0])
    return d


# ---------------------------------------------------------------- expressions
# expr := ("lit", v) | ("range", e, e) | ("path", root, [seg]) | ("not", e) | ("and", a, b)
#       | ("or", a, b) | ("cmp", op, a, b) | ("filter", e, name, [args]) | ("tern", cond, a, alt|None)
# seg := ("key", k) | ("idx", i) | ("expr", pathexpr)

FILTERS = {
    "upcase": 0, "downcase": 0, "append": 1, "prepend": 1, "size": 0, "default": 1,
    "plus": 1, "minus": 1, "times": 1, "join": 1, "first": 0, "last": 0,
}
CMPOPS = ["==", "!=", "<", ">", "<=", ">=", "contains", "in", "<>"]


def gen_path(r: random.Random, scope: list[str], depth: int = 2) -> tuple:
    root = r.choice(scope) if scope and r.random() < 0.9 else r.choice(VARS + ["zz"])
    segs: list[tuple] = []
    while depth > 0 and r.random() < 0.35:
        k = r.random()
        if k < 0.5:
            segs.append(("key", r.choice(KEYS + ["last", "length", "index", "nope"])))
        elif k < 0.85:
            segs.append(("idx", r.choice([0, 1, 2, -1, 5])))
        else:
            segs.append(("expr", ("path", r.choice(scope or VARS), [])))
        depth -= 1
    return ("path", root, segs)


def gen_lit(r: random.Random) -> tuple:
    k = r.random()
    if k < 0.35:
        return ("lit", r.choice([0, 1, 2, 3, 10, -2, 42]))
    if k < 0.7:
        return ("lit", r.choice(["", "a", "b", "hello", "x y", "é", ", "]))
    if k < 0.8:
        return ("lit", r.choice([True, False]))
    if k < 0.88:
        return ("lit", None)
    if k < 0.94:
        return ("lit", "EMPTY")
    return ("lit", "BLANK")


def gen_tstr(r: random.Random, scope: list[str]) -> tuple:
    """A template string: literal chunks and ${ filtered expressions }."""
    parts: list[tuple] = []
    for _ in range(r.choice([1, 2, 3])):
        if r.random() < 0.6:
            parts.append(("lit", r.choice(["a", " b ", "x=", "é", "-", "$", "{", "1"])))
        parts.append(("interp", gen_filtered(r, scope, r.random() < 0.3, False)))
    if r.random() < 0.5:
        parts.append(("lit", r.choice(["!", " z", "}"])))
    return ("tstr", parts)


def gen_primitive(r: random.Random, scope: list[str], tstr: bool = True) -> tuple:
    k = r.random()
    if k < 0.55:
        return gen_path(r, scope)
    if k < 0.88 or (k < 0.92 and not tstr):
        return gen_lit(r)
    if k < 0.92:
        return gen_tstr(r, scope)
    lo = ("lit", r.choice([0, 1, 2])) if r.random() < 0.7 else ("path", "n", [])
    hi = ("lit", r.choice([0, 2, 3, 4])) if r.random() < 0.7 else ("path", "n", [])
    return ("range", lo, hi)


def gen_filtered(r: random.Random, scope: list[str], allow_tern: bool = True, tstr: bool = True) -> tuple:
    e = gen_primitive(r, scope, tstr)
    if allow_tern and r.random() < 0.05:
        # array literal: comma separated primitives (a trailing comma makes a one item array)
        e = ("array", [e] + [gen_primitive(r, scope, False) for _ in range(r.choice([0, 1, 1, 2]))])
    for _ in range(r.choice([0, 0, 0, 1, 1, 2])):
        name = r.choice(list(FILTERS))
        args = []
        if FILTERS[name] == 1 and (name not in ("default", "join") or r.random() < 0.8):
            a = gen_primitive(r, scope)
            while a[0] == "range" or (a[0] == "lit" and a[1] in ("EMPTY", "BLANK")):
                a = gen_primitive(r, scope)
            args.append(a)
        e = ("filter", e, name, args)
    if r.random() < 0.1:
        # a lambda-aware filter with an arrow function x => e or (x, i) => e; the
        # parameters often shadow variables of the template
        param = r.choice(["i", "x", "a", "it"])
        lf = r.choice(["map", "where", "reject", "find", "find_index", "has"])
        seq = r.choice([("path", "xs", []), ("path", "xs", []), ("path", "s", []), ("range", ("lit", 1), ("lit", 3)),
                        ("path", "d", []), gen_path(r, scope, 1)])
        if lf == "map":
            body: tuple = ("path", param, [("key", r.choice(KEYS))] if r.random() < 0.6 else [])
        else:
            # the body may read a free variable: a global, or a render / with / macro argument
            body = r.choice([("cmp", r.choice(["==", "!=", ">", "<"]), ("path", param, []),
                              r.choice([("lit", 1), ("lit", 2), ("lit", "a"), ("path", "n", []), ("path", "a", []), ("path", "w", []), ("path", "v", [])])),
                             ("path", param, []), ("path", param, [("key", r.choice(KEYS))]),
                             ("and", ("path", param, []), ("cmp", "!=", ("path", param, []), ("lit", 2)))])
        iparam = None
        if r.random() < 0.4:
            iparam = r.choice(["j", "n", "w", "i", "x"])
            if r.random() < 0.6:
                ib = ("cmp", r.choice(["==", ">", "<", "!="]), ("path", iparam, []), ("lit", r.choice([0, 1, 2])))
                body = ib if (lf != "map" and r.random() < 0.5) else (("and", body, ib) if lf != "map" else ("path", iparam, []))
        e = ("lfilter", seq, lf, param, body, iparam)
        if r.random() < 0.5:
            e = ("filter", e, r.choice(["join", "size", "first", "default"]), [])
        return e
    if allow_tern and r.random() < 0.12:
        cond = gen_bool(r, scope, 1)
        alt = gen_filtered(r, scope, False) if r.random() < 0.6 else None
        # a ternary's left operand may carry filters; alternative too
        e = ("tern", cond, e, alt)
        if r.random() < 0.4:
            # tail filters (`a if c else b || f | g`) apply to whichever branch was taken,
            # also to the nil of a false condition without else
            for _ in range(r.choice([1, 1, 2])):
                name = r.choice(["default", "default", "append", "prepend", "upcase", "size", "join", "first", "plus"])
                args = []
                if FILTERS[name] == 1 and (name not in ("default", "join") or r.random() < 0.8):
                    args.append(r.choice([("lit", "x"), ("lit", 1), ("path", "n", []), ("path", "s", [])]))
                e = ("filter", e, name, args)
        return e
    return e


def gen_bool(r: random.Random, scope: list[str], depth: int = 2) -> tuple:
    k = r.random()
    if depth <= 0 or k < 0.3:
        return gen_primitive(r, scope)
    if k < 0.7:
        op = r.choice(CMPOPS)
        if op in ("==", "!=", "<>") and r.random() < 0.45:
            # operands that Python would (wrongly, for Liquid) consider equal, in both orders
            pairs = [(("lit", True), ("lit", 1)), (("lit", False), ("lit", 0)), (("path", "flag", []), ("lit", 1)),
                     (("path", "flag", []), ("lit", 0)), (("lit", 1), ("lit", "1")), (("lit", None), ("lit", False)),
                     (("lit", ""), ("lit", "EMPTY")), (("lit", " "), ("lit", "BLANK")), (("path", "n", []), ("path", "flag", [])),
                     (("lit", None), ("path", "zz", [])), (("path", "xs", []), ("lit", "EMPTY")), (("lit", 0), ("lit", None))]
            a, b = r.choice(pairs)
            if r.random() < 0.5:
                a, b = b, a
            return ("cmp", op, a, b)
        if op in ("<", ">", "<=", ">=") and r.random() < 0.8:
            # mostly well-typed orderings
            if r.random() < 0.6:
                pick = lambda: r.choice([("lit", r.choice([0, 1, 2, 3])), ("path", "n", []),
                                         ("path", "xs", [("key", "size")])])
            else:
                pick = lambda: r.choice([("lit", r.choice(["a", "b", "hello"])), ("path", "s", [])])
            return ("cmp", op, pick(), pick())
        if op in ("contains", "in") and r.random() < 0.7:
            hay = r.choice([("path", "xs", []), ("path", "s", []), ("lit", "hello"), ("path", "d", [])])
            ndl = gen_lit(r) if r.random() < 0.6 else gen_path(r, scope, 1)
            return ("cmp", op, hay, ndl) if op == "contains" else ("cmp", op, ndl, hay)
        return ("cmp", op, gen_primitive(r, scope), gen_primitive(r, scope))
    if k < 0.8:
        return ("not", gen_bool(r, scope, depth - 1))
    if k < 0.9:
        return ("and", gen_bool(r, scope, depth - 1), gen_bool(r, scope, depth - 1))
    return ("or", gen_bool(r, scope, depth - 1), gen_bool(r, scope, depth - 1))


# ---------------------------------------------------------------- nodes
# ("content", text) ("output", e) ("echo", e) ("assign", x, e) ("capture", x, body)
# ("if", cond, body, [(cond, body)], els|None) ("unless", ...) ("case", e, [([e], body)], els|None)
# ("for", x, iter, lim|None, off: None|"continue"|e, reversed, body, els|None) ("break",) ("continue",)
# ("increment", x) ("decrement", x) ("cycle", group|None, [e]) ("raw", text) ("comment",)
# ("with", [(k, e)], body) ("render", name, var|None, [(k,e)]) ("include", name_e, var|None, [(k,e)])
# ("macro", name, [(p, default|None)], body) ("call", name, [e], [(k,e)])

TEXTS = ["", " ", "\n", "  \n", "x", "Hello", " a ", "<b>", "é!", "1 ", ", ", "\u00a0", "\r\n\u2003y\x1c", "\x0b z\u3000\n"]
PARTIALS = ["p1", "p2", "p3"]


def to_lines_ast(x: Any) -> Any:
    """A block in which everything can be written as a line statement of a
    {% liquid %} tag: text and output become echo, raw becomes a comment, a
    nested liquid tag is spliced."""
    if is_block(x):
        out: list[tuple] = []
        for n in x:
            if n[0] == "content":
                if n[1]:
                    out.append(("echo", ("lit", n[1] if ("\n" not in n[1] and "\r" not in n[1]) else "nl")))
            elif n[0] == "output":
                out.append(("echo", n[1]))
            elif n[0] == "raw":
                out.append(("comment", 2))
            elif n[0] == "liquid":
                out.extend(to_lines_ast(n[1]))
            else:
                out.append(to_lines_ast(n))
        return out
    if isinstance(x, tuple):
        return tuple(to_lines_ast(e) for e in x)
    if isinstance(x, list):
        return [to_lines_ast(e) for e in x]
    return x


class Gen:
    def __init__(self, r: random.Random, *, partials: bool = True, max_nodes: int = 40) -> None:
        self.r = r
        self.partials = partials
        self.budget = max_nodes
        self.macros: list[tuple[str, list[str]]] = []

    def block(self, scope: list[str], depth: int, in_loop: bool, n: int | None = None) -> list[tuple]:
        r = self.r
        n = r.choice([0, 1, 1, 2, 2, 3]) if n is None else n
        out = []
        for _ in range(n):
            nd = self.node(scope, depth, in_loop)
            out.append(nd)
            if self.partials and r.random() < 0.05:
                # the same partial twice with different arguments: each call evaluates its arrow
                # functions over its own arguments
                for _ in range(2):
                    args = [(k, r.choice([("lit", 1), ("lit", 2), ("lit", 3), ("lit", "x"), ("path", "n", [])])) for k in ("a", "w", "v") if r.random() < 0.8]
                    out.append(("render", "pl", None, args) if r.random() < 0.7 else ("include", ("lit", "pl"), None, args))
            if r.random() < 0.03:
                # a `when` block that changes the subject: each `when` compares the subject as it is then
                x = r.choice(["n", "a", "t"])
                v1, v2 = r.sample([1, 2, 3, "a"], 2)
                out.append(("assign", x, ("lit", v1)))
                out.append(("case", ("path", x, []),
                            [([("lit", v1)], [("assign", x, ("lit", v2)), ("content", "one ")]),
                             ([("lit", v2), ("lit", 9)], [("content", "two ")]),
                             ([("lit", v1)], [("content", "again ")])],
                            [("content", "else ")] if r.random() < 0.5 else None))
            if depth > 0 and r.random() < 0.03:
                # the same call node runs twice while the macro is redefined in between (same
                # parameter names, other order / defaults): arguments are bound afresh each time
                d1 = [("a", None), ("q", ("lit", "Q1"))]
                d2 = [("q", ("lit", "Q2")), ("a", ("lit", "A2"))]
                mbody = [("output", ("path", "a", [])), ("content", "/"), ("output", ("path", "q", [])), ("content", ";")]
                out.append(("for", "i", ("range", ("lit", 1), ("lit", r.choice([2, 3]))), None, None, False,
                            [("if", ("path", "forloop", [("key", "first")]), [("macro", "mr", d1, mbody)], [], [("macro", "mr", d2, mbody)]),
                             ("call", "mr", [("lit", r.choice([1, "x"]))], []),
                             ("call", "mr", [], [("q", ("lit", 5))] if r.random() < 0.5 else [])], None))
            if r.random() < 0.16:
                # a comment or raw tag between markup and text: the markers on its right-hand
                # end decide how the text after it is trimmed
                out.append(("comment", r.choice([0, 1, 2])) if r.random() < 0.6 else ("raw", r.choice(["", "r", " r\n", "\n"])))
                out.append(("content", r.choice([" a", "\n b ", " ", "  c\n"])))
            if nd[0] == "for" and r.random() < 0.5:
                # names bound inside the loop must be gone (or back to their outer value) afterwards
                out.append(("output", ("path", nd[1], [])))
                out.append(("output", ("path", "forloop", [("key", "index")])))
                out.append(("output", ("path", r.choice(["w", "v", "a", "it"]), [])))
        return out

    def blank_nest(self, scope: list[str], depth: int, in_loop: bool) -> tuple:
        """A block whose only non-whitespace child is a multi-branch construct in
        which some branches print and the others are blank: the static blank flag
        of the inner construct must account for every branch."""
        r = self.r

        def branch() -> list[tuple]:
            k = r.random()
            if k < 0.45:
                return r.choice([[], [("content", " ")], [("content", "\n ")], [("assign", "t", ("lit", 1))],
                                 [("content", " "), ("comment", r.choice([0, 1, 2]))], [("capture", "c", [("content", "z")])]])
            if k < 0.8:
                return [("content", r.choice(["x", " y ", "Z\n"]))]
            return [("output", gen_primitive(r, scope))]

        def cond() -> tuple:
            return r.choice([("lit", True), ("lit", False), ("path", "flag", []), ("path", "xs", []),
                             ("cmp", "==", ("path", "n", []), ("lit", 1)), ("path", "nope", [])])

        def inner(d: int) -> tuple:
            k = r.random()
            if d > 0 and k < 0.2:
                return wrap(inner(d - 1))
            if k < 0.5:
                it = r.choice([("range", ("lit", 1), ("lit", 0)), ("range", ("lit", 1), ("lit", 2)), ("path", "xs", []),
                               ("path", "nope", []), ("path", "d", [])])
                return ("for", r.choice(["i", "x"]), it, None, None, False, branch(), branch() if r.random() < 0.85 else None)
            if k < 0.8:
                alts = [(cond(), branch()) for _ in range(r.choice([0, 1, 2]))]
                return (r.choice(["if", "if", "unless"]), cond(), branch(), alts, branch() if r.random() < 0.7 else None)
            whens = [([r.choice([("lit", 1), ("lit", 2), ("lit", True), ("path", "n", [])]) for _ in range(r.choice([1, 2]))], branch())
                     for _ in range(r.choice([1, 2]))]
            return ("case", r.choice([("lit", 1), ("path", "n", []), ("path", "flag", [])]), whens, branch() if r.random() < 0.7 else None)

        def pad(n: tuple) -> list[tuple]:
            out = [n]
            if r.random() < 0.5:
                out.insert(0, ("content", r.choice([" ", "\n"])))
            if r.random() < 0.5:
                out.append(("content", r.choice([" ", "\n  "])))
            return out

        def wrap(n: tuple) -> tuple:
            k = r.random()
            if k < 0.3:
                return ("if", ("lit", True), pad(n), [], None)
            if k < 0.4:
                return ("unless", ("lit", False), pad(n), [], None)
            if k < 0.55:
                return ("case", ("lit", 1), [([("lit", 1)], pad(n))], None)
            if k < 0.7:
                return ("with", [("w", ("lit", 1))], pad(n))
            if k < 0.85:
                return ("for", "j", ("range", ("lit", 1), ("lit", r.choice([1, 2]))), None, None, False, pad(n), None)
            return ("if", ("lit", False), [("content", " ")], [], pad(n))

        return wrap(inner(1))

    def node(self, scope: list[str], depth: int, in_loop: bool) -> tuple:
        r = self.r
        self.budget -= 1
        k = r.random()
        if depth <= 0 or self.budget <= 0:
            k = k * 0.5
        if k < 0.13 or (k < 0.16 and depth <= 0):
            return ("content", r.choice(TEXTS))
        if k < 0.16:
            return self.blank_nest(scope, depth, in_loop)
        if k < 0.32:
            return ("output", gen_filtered(r, scope))
        if k < 0.35:
            return ("echo", gen_filtered(r, scope))
        if k < 0.42:
            x = r.choice(VARS)
            if x not in scope:
                scope.append(x)
            return ("assign", x, gen_filtered(r, scope))
        if k < 0.45:
            return ("increment", r.choice(["a", "n", "cnt"])) if r.random() < 0.6 else ("decrement", r.choice(["a", "cnt"]))
        if k < 0.48:
            grp = r.choice([None, None, "g", "h"])
            return ("cycle", grp, [gen_primitive(r, scope) for _ in range(r.choice([1, 2, 3]))])
        if k < 0.5:
            if depth > 0 and r.random() < 0.4:
                # {% liquid %}: the same constructs written as line statements
                return ("liquid", to_lines_ast(self.block(scope, depth - 1, in_loop, n=r.choice([1, 2, 3, 4]))))
            return r.choice([("comment", r.choice([0, 1, 2])), ("raw", r.choice(["", "raw {{ x }}", " ", " r\n"]))])
        # block tags
        if k < 0.6:
            alts = [(gen_bool(r, scope), self.block(scope, depth - 1, in_loop)) for _ in range(r.choice([0, 0, 1, 2]))]
            els = self.block(scope, depth - 1, in_loop) if r.random() < 0.5 else None
            tag = "if" if r.random() < 0.8 else "unless"
            return (tag, gen_bool(r, scope), self.block(scope, depth - 1, in_loop), alts, els)
        if k < 0.67:
            whens = []
            # a case block may have no `when` at all: only its else block (if any) renders
            for _ in range(r.choice([0, 1, 1, 2, 2, 3])):
                alts = [gen_primitive(r, scope) for _ in range(r.choice([1, 1, 2]))]
                whens.append((alts, self.block(scope, depth - 1, in_loop)))
            els = self.block(scope, depth - 1, in_loop) if r.random() < 0.6 else None
            subject = gen_primitive(r, scope)
            if whens and r.random() < 0.25:
                subject = r.choice([("path", "flag", []), ("lit", True), ("lit", 1), ("path", "n", [])])
                whens[0] = ([r.choice([("lit", 1), ("lit", True), ("lit", 0), ("lit", False)])], whens[0][1])
            return ("case", subject, whens, els)
        if k < 0.8:
            # mostly fresh names; sometimes a name that is also in the data, so the loop
            # variable (whatever its value: nil, false ...) must hide the outer one
            x = r.choice(["i", "j", "x", "i", "j", "x", "a", "n"])
            kk = r.random()
            if kk < 0.08:
                it = ("array", [gen_primitive(r, scope, False) for _ in range(r.choice([1, 2, 3]))])
            elif kk < 0.55:
                it = ("path", r.choice(["xs", "xs", "d", "s", "a", "b"]), [])
            elif kk < 0.85:
                it = ("range", ("lit", r.choice([0, 1, 2])), ("lit", r.choice([1, 2, 3, 4])))
            else:
                it = gen_path(r, scope, 1)
            lim = None
            if r.random() < 0.3:
                lim = ("lit", r.choice([0, 1, 2, 3])) if r.random() < 0.7 else ("path", "n", [])
            off: Any = None
            if r.random() < 0.3:
                off = "continue" if r.random() < 0.45 else (("lit", r.choice([0, 1, 2])) if r.random() < 0.7 else ("path", "n", []))
            if it[0] == "array":
                lim, off = None, None      # arguments are not allowed to follow an array literal
            inner = scope + [x, "forloop"]
            body = self.block(inner, depth - 1, True)
            if r.random() < 0.25:
                body.insert(r.randint(0, len(body)), ("if", gen_bool(r, inner, 1), [r.choice([("break",), ("continue",)])], [], None))
            els = self.block(scope, depth - 1, in_loop) if r.random() < 0.3 else None
            return ("for", x, it, lim, off, r.random() < 0.2 and it[0] != "array", body, els)
        if k < 0.84:
            return ("capture", r.choice(["c", "t"]), self.block(scope, depth - 1, in_loop))
        if k < 0.88:
            args = [(r.choice(["a", "w", "v"]), ("lit", None) if r.random() < 0.12 else gen_primitive(r, scope)) for _ in range(r.choice([1, 1, 2]))]
            body = self.block(scope + [a for a, _ in args], depth - 1, in_loop)
            if r.random() < 0.5:
                body.insert(0, ("output", ("path", args[0][0], [])))
            if in_loop and r.random() < 0.4:
                ex = r.choice([("break",), ("continue",)])
                body.append(ex if r.random() < 0.5 else ("if", gen_bool(r, scope, 1), [ex], [], None))
            return ("with", args, body)
        if k < 0.9 and in_loop:
            return r.choice([("break",), ("continue",)])
        if k < 0.955 and self.partials:
            name = r.choice(PARTIALS + ["pl"] + ["missing"] * (1 if r.random() < 0.1 else 0))
            args = [(r.choice(["a", "w", "v"]), gen_primitive(r, scope)) for _ in range(r.choice([0, 0, 1, 2]))]
            if r.random() < 0.5:
                var = None
                if r.random() < 0.4:
                    var = (r.random() < 0.5, gen_path(r, scope, 1), r.choice([None, "it"]))
                return ("render", name, var, args)
            var2 = None
            if r.random() < 0.4:
                var2 = (gen_path(r, scope, 1), r.choice([None, "it"]))
            return ("include", ("lit", name), var2, args)
        if k < 0.98 or not self.macros:
            name = r.choice(["f", "mg"])
            params = [(p, (gen_lit(r) if r.random() < 0.4 else None)) for p in r.sample(["p", "q", "a"], r.choice([0, 1, 2]))]
            self.macros.append((name, [p for p, _ in params]))
            return ("macro", name, params, self.block([p for p, _ in params], depth - 1, False))
        name, params = r.choice(self.macros)
        npos = r.randint(0, len(params))
        args = [gen_primitive(r, scope) for _ in range(npos)]
        kw = [(p, gen_primitive(r, scope)) for p in params[npos:] if r.random() < 0.5]
        return ("call", name, args, kw)


def gen_program(r: random.Random, *, depth: int = 3, partials: bool = True) -> dict[str, Any]:
    g = Gen(r, partials=partials)
    scope = list(VARS)
    main = g.block(scope, depth, False, n=r.choice([1, 2, 3, 4, 5]))
    loader = {}
    if partials:
        for p in PARTIALS:
            gp = Gen(r, partials=r.random() < 0.35, max_nodes=10)
            loader[p] = gp.block(list(VARS) + ["it", "w", "v", p], 2, False, n=r.choice([1, 2, 3]))
            if r.random() < 0.25:
                ex = r.choice([("break",), ("continue",)])
                loader[p].append(ex if r.random() < 0.5 else ("if", gen_bool(r, list(VARS), 1), [ex], [], None))
        # a partial whose arrow functions read free variables that callers pass as arguments:
        # they are evaluated in the partial's own scope, on every call
        loader["pl"] = [
            ("output", ("filter", ("lfilter", ("range", ("lit", 1), ("lit", 3)), "where", "q", ("cmp", "!=", ("path", "q", []), ("path", "a", [])), None), "join", [("lit", "")])),
            ("content", "/"),
            ("output", ("filter", ("lfilter", ("range", ("lit", 1), ("lit", 2)), "map", "q", ("path", "w", []), None), "join", [("lit", ".")])),
            ("content", "/"),
            ("output", ("lfilter", ("range", ("lit", 1), ("lit", 3)), "find", "q", ("cmp", "==", ("path", "q", []), ("path", "v", [])), r.choice([None, "j"]))),
        ]
    return {"main": main, "loader": loader}


# ---------------------------------------------------------------- Liquid printer


def sp(r: random.Random | None) -> str:
    if r is None:
        return " "
    return r.choice([" ", " ", " ", "  ", "\t", " \n "])


def p_str(s: str) -> str:
    return "'" + s.replace("\\", "\\\\").replace("'", "\\'") + "'"


SHORTHAND = False


def p_expr(e: tuple, top: bool = True) -> str:
    t = e[0]
    if t == "lit":
        v = e[1]
        if v is None:
            return "nil"
        if v is True:
            return "true"
        if v is False:
            return "false"
        if v == "EMPTY":
            return "empty"
        if v == "BLANK":
            return "blank"
        if isinstance(v, int):
            return str(v)
        return p_str(v)
    if t == "range":
        return f"({p_expr(e[1])}..{p_expr(e[2])})"
    if t == "array":
        return p_expr(e[1][0]) + "," if len(e[1]) == 1 else ", ".join(p_expr(x) for x in e[1])
    if t == "tstr":
        return '"' + "".join(x[1] if x[0] == "lit" else "${" + p_expr(x[1]) + "}" for x in e[1]) + '"'
    if t == "path":
        out = e[1]
        for s in e[2]:
            if s[0] == "key":
                out += "." + s[1]
            elif s[0] == "idx":
                out += f".{s[1]}" if (SHORTHAND and s[1] >= 0) else f"[{s[1]}]"
            else:
                out += f"[{p_expr(s[1])}]"
        return out
    if t == "not":
        return "not " + p_bool_operand(e[1])
    if t in ("and", "or"):
        return f"{p_bool_operand(e[1])} {t} {p_bool_operand(e[2])}"
    if t == "cmp":
        return f"{p_expr(e[2])} {e[1]} {p_expr(e[3])}"
    if t == "filter":
        args = ", ".join(p_expr(a) for a in e[3])
        return p_expr(e[1]) + (" || " if e[1][0] == "tern" else " | ") + e[2] + (": " + args if args else "")
    if t == "lfilter":
        ps = e[3] if len(e) < 6 or e[5] is None else f"({e[3]}, {e[5]})"
        return f"{p_expr(e[1])} | {e[2]}: {ps} => {p_expr(e[4])}"
    if t == "tern":
        s = f"{p_expr(e[2])} if {p_expr(e[1])}"
        if e[3] is not None:
            s += f" else {p_expr(e[3])}"
        return s
    raise ValueError(e)


def p_bool_operand(e: tuple) -> str:
    if e[0] in ("and", "or", "not", "cmp"):
        return "(" + p_expr(e) + ")"
    return p_expr(e)


def iter_key(x: str, it: tuple) -> str:
    """LoopExpression: f"{identifier}-{iterable}" with str(iterable)."""
    return f"{x}-{p_expr(it)}"


# Marker slots and text pieces are written as private-use sentinels; `finish`
# replaces them.  OT/CT: tag delimiters, OO/CO: output delimiters.
SL, SR, TB, TE = "\ue000", "\ue001", "\ue002", "\ue003"
OT, CT, OO, CO = "{%" + SL, SR + "%}", "{{" + SL, SR + "}}"
MARKERS = ["", "", "", "-", "~", "+"]


def canon(x: Any) -> Any:
    """Adjacent content merged and empty content dropped (what the lexer sees)."""
    if is_block(x):
        out: list[tuple] = []
        for n in x:
            if n[0] == "content":
                if n[1] == "":
                    continue
                if out and out[-1][0] == "content":
                    out[-1] = ("content", out[-1][1] + n[1])
                    continue
                out.append(n)
            else:
                out.append(canon(n))
        return out
    if isinstance(x, tuple):
        return tuple(canon(e) for e in x)
    if isinstance(x, list):
        return [canon(e) for e in x]
    if isinstance(x, dict):
        return {k: canon(v) for k, v in x.items()}
    return x


def finish(s: str, mr: random.Random | None) -> tuple[str, list[tuple[str, str]]]:
    """Fill the marker slots (all empty when mr is None) and return the source and,
    for every text piece in document order, the markers that face it:
    (right marker of the markup before it, left marker of the markup after it);
    '' where there is no marker or no markup (the default trim mode applies)."""
    out: list[str] = []
    pieces: list[tuple[str, str]] = []       # ("C", marker) ("O", marker) ("T", "")
    i = 0
    n = len(s)
    while i < n:
        ch = s[i]
        if ch == SL or ch == SR:
            m = mr.choice(MARKERS) if mr is not None else ""
            out.append(m)
            pieces.append(("O" if ch == SL else "C", m))
            i += 1
        elif ch == TB:
            j = s.index(TE, i)
            out.append(s[i + 1:j])
            pieces.append(("T", ""))
            i = j + 1
        else:
            out.append(ch)
            i += 1
    modes = []
    for k, (kind, _) in enumerate(pieces):
        if kind != "T":
            continue
        left = pieces[k - 1][1] if k > 0 and pieces[k - 1][0] == "C" else ""
        right = pieces[k + 1][1] if k + 1 < len(pieces) and pieces[k + 1][0] == "O" else ""
        modes.append((left, right))
    return "".join(out), modes


def p_source(nodes: list[tuple], r: random.Random | None = None, mr: random.Random | None = None) -> tuple[str, list[tuple[str, str]]]:
    """Source text of a canonical block with layout from r and markers from mr."""
    return finish(p_nodes_raw(nodes, r), mr)


def p_nodes(nodes: list[tuple], r: random.Random | None = None) -> str:
    return finish(p_nodes_raw(canon(nodes), r), None)[0]


def p_nodes_raw(nodes: list[tuple], r: random.Random | None = None) -> str:
    return "".join(p_node(n, r) for n in nodes)


# Lines inside a liquid-tag comment block are indented like any other line only
# since /repo 7016023 (defect 31: "unclosed comment block" for an indented endcomment).
LIQUID_COMMENT_INDENT = True
NOIND = "\ue004"


def p_lines(nodes: list[tuple]) -> list[str]:
    """The line statements of a {% liquid %} tag for a block made of tags only."""
    out: list[str] = []
    for n in nodes:
        t = n[0]
        if t in ("echo", "assign", "break", "continue", "increment", "decrement", "cycle", "render", "include", "call"):
            inner = p_node(n, None)
            assert inner.startswith(OT) and inner.endswith(CT) and "\n" not in inner, inner
            out.append(inner[len(OT):-len(CT)].strip())
        elif t == "comment":
            out += ["comment", NOIND + "c {{ x }}", NOIND + "endcomment"] if n[1:] == (0,) else ["# c x"]
        elif t == "capture":
            out += [f"capture {n[1]}"] + p_lines(n[2]) + ["endcapture"]
        elif t in ("if", "unless"):
            out += [f"{t} {p_expr(n[1])}"] + p_lines(n[2])
            for c, b in n[3]:
                out += [f"elsif {p_expr(c)}"] + p_lines(b)
            if n[4] is not None:
                out += ["else"] + p_lines(n[4])
            out.append(f"end{t}")
        elif t == "case":
            out.append(f"case {p_expr(n[1])}")
            for alts, b in n[2]:
                out += ["when " + ", ".join(p_expr(a) for a in alts)] + p_lines(b)
            if n[3] is not None:
                out += ["else"] + p_lines(n[3])
            out.append("endcase")
        elif t == "for":
            _, x, it, lim, off, rev, fbody, els = n
            head = f"for {x} in {p_expr(it)}"
            if lim is not None:
                head += f" limit: {p_expr(lim)}"
            if off is not None:
                head += " offset: " + ("continue" if off == "continue" else p_expr(off))
            if rev:
                head += " reversed"
            out += [head] + p_lines(fbody)
            if els is not None:
                out += ["else"] + p_lines(els)
            out.append("endfor")
        elif t == "with":
            out += ["with " + p_args(n[1])] + p_lines(n[2]) + ["endwith"]
        elif t == "macro":
            ps = "".join(", " + p + (f" = {p_expr(d)}" if d is not None else "") for p, d in n[2])
            out += [f"macro {n[1]}{ps}"] + p_lines(n[3]) + ["endmacro"]
        else:
            raise ValueError(n)
    return out


def p_args(args: list[tuple]) -> str:
    return ", ".join(f"{k}: {p_expr(v)}" for k, v in args)


def p_node(n: tuple, r: random.Random | None = None) -> str:
    t = n[0]
    s = sp(r)
    body = lambda b: p_nodes_raw(b, r)  # noqa: E731
    if t == "content":
        return TB + n[1] + TE
    if t == "output":
        return OO + s + p_expr(n[1]) + sp(r) + CO
    if t == "echo":
        return OT + s + "echo " + p_expr(n[1]) + sp(r) + CT
    if t == "assign":
        return OT + s + f"assign {n[1]} = " + p_expr(n[2]) + sp(r) + CT
    if t == "capture":
        return OT + s + f"capture {n[1]}" + sp(r) + CT + body(n[2]) + OT + " endcapture " + CT
    if t in ("if", "unless"):
        out = OT + s + f"{t} " + p_expr(n[1]) + sp(r) + CT + body(n[2])
        for c, b in n[3]:
            out += OT + " elsif " + p_expr(c) + " " + CT + body(b)
        if n[4] is not None:
            out += OT + " else " + CT + body(n[4])
        return out + OT + sp(r) + f"end{t} " + CT
    if t == "case":
        out = OT + " case " + p_expr(n[1]) + " " + CT
        for alts, b in n[2]:
            out += OT + " when " + ", ".join(p_expr(a) for a in alts) + " " + CT + body(b)
        if n[3] is not None:
            out += OT + " else " + CT + body(n[3])
        return out + OT + " endcase " + CT
    if t == "for":
        _, x, it, lim, off, rev, fbody, els = n
        out = OT + s + f"for {x} in {p_expr(it)}"
        if lim is not None:
            out += f" limit: {p_expr(lim)}"
        if off is not None:
            out += " offset: " + ("continue" if off == "continue" else p_expr(off))
        if rev:
            out += " reversed"
        out += sp(r) + CT + body(fbody)
        if els is not None:
            out += OT + " else " + CT + body(els)
        return out + OT + " endfor " + CT
    if t in ("break", "continue"):
        return OT + " " + t + " " + CT
    if t in ("increment", "decrement"):
        return OT + s + f"{t} {n[1]} " + CT
    if t == "cycle":
        grp = f"{n[1]}: " if n[1] else ""
        return OT + " cycle " + grp + ", ".join(p_expr(e) for e in n[2]) + " " + CT
    if t == "raw":
        return OT + " raw " + CT + TB + n[1] + TE + OT + " endraw " + CT
    if t == "comment":
        style = n[1] if len(n) > 1 else 0
        if style == 1:
            return "{#" + SL + " c {{ x }} " + SR + "#}"
        if style == 2:
            return OT + " # c x " + CT
        return OT + " comment %} c {{ x }} {% endcomment " + CT
    if t == "with":
        return OT + " with " + p_args(n[1]) + " " + CT + body(n[2]) + OT + " endwith " + CT
    if t == "liquid":
        ind = (lambda: r.choice(["", " ", "  ", "\t"])) if r is not None else (lambda: "")
        lines = "".join((ind() if (LIQUID_COMMENT_INDENT or not ln.startswith(NOIND)) else "") + ln.lstrip(NOIND) + "\n" for ln in p_lines(n[1]))
        return OT + " liquid" + ("\n" if lines else " ") + lines + ind() + CT
    if t == "render":
        out = OT + " render " + p_str(n[1])
        if n[2] is not None:
            loop, ve, alias = n[2]
            out += (" for " if loop else " with ") + p_expr(ve) + (f" as {alias}" if alias else "")
        if n[3]:
            out += ", " + p_args(n[3])
        return out + " " + CT
    if t == "include":
        out = OT + " include " + p_expr(n[1])
        if n[2] is not None:
            ve, alias = n[2]
            out += " with " + p_expr(ve) + (f" as {alias}" if alias else "")
        if n[3]:
            out += ", " + p_args(n[3])
        return out + " " + CT
    if t == "macro":
        ps = "".join(", " + p + (f" = {p_expr(d)}" if d is not None else "") for p, d in n[2])
        return OT + " macro " + n[1] + ps + " " + CT + body(n[3]) + OT + " endmacro " + CT
    if t == "call":
        parts = [p_expr(a) for a in n[2]] + [f"{k}: {p_expr(v)}" for k, v in n[3]]
        return OT + " call " + n[1] + ("".join(", " + p for p in parts)) + " " + CT
    raise ValueError(n)


# ---------------------------------------------------------------- Coq printer


def c_val(v: Any) -> str:
    if v is None:
        return "VNil"
    if v is True or v is False:
        return f"(VBool {C.cbool(v)})"
    if isinstance(v, int):
        return f"(VInt {C.cZ(v)})"
    if isinstance(v, str):
        return f"(VStr {C.cstr(v)})"
    if isinstance(v, (list, tuple)):
        return "(VList " + C.clist([c_val(x) for x in v], "val") + ")"
    if isinstance(v, dict):
        return "(VDict " + C.clist([C.cpair(C.cstr(k), c_val(x)) for k, x in v.items()], "(str * val)") + ")"
    raise ValueError(v)


_CMP = {"==": "OEq", "!=": "ONe", "<>": "ONe", "<": "OLt", ">": "OGt", "<=": "OLe", ">=": "OGe",
        "contains": "OContains", "in": "OIn"}
_FN = {k: "F" + k.capitalize() for k in FILTERS}


def c_expr(e: tuple) -> str:
    t = e[0]
    if t == "lit":
        if e[1] == "EMPTY":
            return "(ELit VEmpty)"
        if e[1] == "BLANK":
            return "(ELit VBlank)"
        return f"(ELit {c_val(e[1])})"
    if t == "range":
        return f"(ERange {c_expr(e[1])} {c_expr(e[2])})"
    if t == "path":
        segs = []
        for s in e[2]:
            if s[0] == "key":
                segs.append(f"SKey {C.cstr(s[1])}")
            elif s[0] == "idx":
                segs.append(f"SIdx {C.cZ(s[1])}")
            else:
                segs.append(f"SExpr {c_expr(s[1])}")
        return f"(EPath {C.cstr(e[1])} {C.clist(segs, 'seg')})"
    if t == "not":
        return f"(ENot {c_expr(e[1])})"
    if t == "and":
        return f"(EAnd {c_expr(e[1])} {c_expr(e[2])})"
    if t == "or":
        return f"(EOr {c_expr(e[1])} {c_expr(e[2])})"
    if t == "cmp":
        return f"(ECmp {_CMP[e[1]]} {c_expr(e[2])} {c_expr(e[3])})"
    if t == "array":
        return f"(EArray {C.clist([c_expr(x) for x in e[1]], 'expr')})"
    if t == "tstr":
        return "(ETemplate " + C.clist([c_expr(("lit", x[1])) if x[0] == "lit" else c_expr(x[1]) for x in e[1]], "expr") + ")"
    if t == "filter":
        return f"(EFilter {c_expr(e[1])} {_FN[e[2]]} {C.clist([c_expr(a) for a in e[3]], 'expr')})"
    if t == "lfilter":
        lf = {"map": "LMap", "where": "LWhere", "reject": "LReject", "find": "LFind", "find_index": "LFindIndex", "has": "LHas"}[e[2]]
        ip = C.copt(C.cstr(e[5]) if len(e) > 5 and e[5] is not None else None, "str")
        return f"(EFilterL {c_expr(e[1])} {lf} {C.cstr(e[3])} {ip} {c_expr(e[4])})"
    if t == "tern":
        alt = C.copt(c_expr(e[3]) if e[3] is not None else None, "expr")
        return f"(ETernary {c_expr(e[1])} {c_expr(e[2])} {alt})"
    raise ValueError(e)


NODE_TAGS = {"content", "contentm", "rawm", "liquid", "output", "echo", "assign", "capture", "if", "unless", "case", "for", "break",
             "continue", "increment", "decrement", "cycle", "raw", "comment", "with", "render", "include",
             "macro", "call"}



def is_block(x: Any) -> bool:
    return isinstance(x, list) and all(isinstance(n, tuple) and n and isinstance(n[0], str) and n[0] in NODE_TAGS for n in x)


def model_ast(x: Any, mode: str, sides: Any = None) -> Any:
    """The AST the parser builds: canonical program, each content trimmed, blank
    computed on the untrimmed text.  sides: the marker pairs of the text pieces in
    document order as `finish` returns them (for a program: {template name: pairs});
    None = no explicit markers."""
    if isinstance(x, dict) and "main" in x and "loader" in x:
        sd = sides or {}
        return {"main": model_ast(x["main"], mode, sd.get("main")),
                "loader": {k: model_ast(v, mode, sd.get(k)) for k, v in x["loader"].items()}}
    it = iter(sides) if sides is not None else None
    out = _mast(canon(x), mode, it)
    if it is not None and next(it, None) is not None:
        raise ValueError("text pieces and content nodes out of step")
    return out


def _mast(x: Any, mode: str, it: Any) -> Any:
    if is_block(x):
        res = []
        for n in x:
            if n[0] == "content":
                res.append(("contentm", n[1], mode, next(it) if it is not None else ("", "")))
            elif n[0] == "raw":
                # RawTag.parse trims the inner text with the tag's inner markers
                res.append(("rawm", n[1], mode, next(it) if it is not None else ("", "")))
            else:
                res.append(_mast(n, mode, it))
        return res
    if isinstance(x, tuple):
        return tuple(_mast(e, mode, it) for e in x)
    if isinstance(x, list):
        return [_mast(e, mode, it) for e in x]
    if isinstance(x, dict):
        return {k: _mast(v, mode, it) for k, v in x.items()}
    return x


def c_block(nodes: list[tuple]) -> str:
    return C.clist([c_node(n) for n in nodes], "node")


def c_oblock(nodes: list[tuple] | None) -> str:
    return C.copt(c_block(nodes) if nodes is not None else None, "(list node)")


def c_kw(args: list[tuple]) -> str:
    return C.clist([C.cpair(C.cstr(k), c_expr(v)) for k, v in args], "(str * expr)")


_WC = {"": "Trim.Default", "+": "Trim.Plus", "-": "Trim.Minus", "~": "Trim.Tilde"}


def c_trim(text: str, mode: str, sides: tuple[str, str]) -> str:
    if mode == "+" and sides in (("", ""), ("+", "+")):
        return C.cstr(text)
    return f"Trim.trim {_WC[mode]} {C.cstr(text)} {_WC[sides[0]]} {_WC[sides[1]]}"


def c_node(n: tuple) -> str:
    t = n[0]
    if t == "content":
        blank = (not n[1]) or n[1].isspace()
        return f"(NContent {C.cstr(n[1])} {C.cbool(blank)})"
    if t == "contentm":
        # the text as Environment.trim leaves it (Kernels/Trim.v, the C18 kernel) and
        # the blank flag of the untrimmed text (str.isspace)
        return f"(NContent ({c_trim(n[1], n[2], n[3])}) (Trim.py_isspace {C.cstr(n[1])}))"
    if t == "rawm":
        return f"(NRaw ({c_trim(n[1], n[2], n[3])}))"
    if t == "output":
        return f"(NOutput {c_expr(n[1])})"
    if t == "echo":
        return f"(NEcho {c_expr(n[1])})"
    if t == "assign":
        return f"(NAssign {C.cstr(n[1])} {c_expr(n[2])})"
    if t == "capture":
        return f"(NCapture {C.cstr(n[1])} {c_block(n[2])})"
    if t in ("if", "unless"):
        alts = C.clist([C.cpair(c_expr(c), c_block(b)) for c, b in n[3]], "(expr * list node)")
        ctor = "NIf" if t == "if" else "NUnless"
        return f"({ctor} {c_expr(n[1])} {c_block(n[2])} {alts} {c_oblock(n[4])})"
    if t == "case":
        whens = C.clist([C.cpair(C.clist([c_expr(a) for a in alts], "expr"), c_block(b)) for alts, b in n[2]],
                        "(list expr * list node)")
        return f"(NCase {c_expr(n[1])} {whens} {c_oblock(n[3])})"
    if t == "for":
        _, x, it, lim, off, rev, body, els = n
        offc = "OffNone" if off is None else ("OffContinue" if off == "continue" else f"(OffExpr {c_expr(off)})")
        return (f"(NFor {C.cstr(x)} {C.cstr(iter_key(x, it))} {c_expr(it)} "
                f"{C.copt(c_expr(lim) if lim is not None else None, 'expr')} {offc} {C.cbool(rev)} "
                f"{c_block(body)} {c_oblock(els)})")
    if t == "break":
        return "NBreak"
    if t == "continue":
        return "NContinue"
    if t == "increment":
        return f"(NIncrement {C.cstr(n[1])})"
    if t == "decrement":
        return f"(NDecrement {C.cstr(n[1])})"
    if t == "cycle":
        key = repr((n[1], [p_expr(e) for e in n[2]]))
        return f"(NCycle (Some {C.cstr(key)}) {C.clist([c_expr(e) for e in n[2]], 'expr')})"
    if t == "raw":
        return f"(NRaw {C.cstr(n[1])})"
    if t == "comment":
        return "NComment"
    if t == "liquid":
        return f"(NLiquid {c_block(n[1])})"
    if t == "with":
        return f"(NWith {c_kw(n[1])} {c_block(n[2])})"
    if t == "render":
        var = None
        if n[2] is not None:
            loop, ve, alias = n[2]
            var = f"({C.cbool(loop)}, {c_expr(ve)}, {C.copt(C.cstr(alias) if alias else None, 'str')})"
        return f"(NRender {C.cstr(n[1])} {C.copt(var, '(bool * expr * option str)')} {c_kw(n[3])})"
    if t == "include":
        var = None
        if n[2] is not None:
            ve, alias = n[2]
            var = f"({c_expr(ve)}, {C.copt(C.cstr(alias) if alias else None, 'str')})"
        return f"(NInclude {c_expr(n[1])} {C.copt(var, '(expr * option str)')} {c_kw(n[3])})"
    if t == "macro":
        ps = C.clist([C.cpair(C.cstr(p), C.copt(c_expr(d) if d is not None else None, "expr")) for p, d in n[2]],
                     "(str * option expr)")
        return f"(NMacro {C.cstr(n[1])} {ps} {c_block(n[3])})"
    if t == "call":
        return f"(NCall {C.cstr(n[1])} {C.clist([c_expr(a) for a in n[2]], 'expr')} {c_kw(n[3])})"
    raise ValueError(n)


def c_loader(loader: dict[str, list[tuple]]) -> str:
    return C.clist([C.cpair(C.cstr(k), c_block(v)) for k, v in loader.items()], "(str * list node)")


def c_ns(d: dict[str, Any]) -> str:
    return C.clist([C.cpair(C.cstr(k), c_val(v)) for k, v in d.items()], "(str * val)")


def count_numerals(s: str) -> int:
    return s.count(";") + s.count("(")
