"""C04 program-level direct oracle: generated templates with captures,
partials (render / include), macros, loops, template-string interpolation,
translate blocks, block.super, cycle / echo / assign / liquid tags ..., plain
literals, data strings over {< > & ' " a}* nested in lists and dicts, as dict
keys and as filter arguments.  Oracle only (no model run): the syntactic
corollary and the origin check of harness/c04.py."""

from __future__ import annotations

import re
from typing import Any

from . import common as C
from . import c04 as X

TEXT = ["", " ", "a", "Hi ", " - ", ", ", ": ", "x;y ", "lt", "amp; ", "#39; ", "\n", " gt; ", "p "]
STRUCT_F = ["upcase", "downcase", "capitalize", "strip", "lstrip", "rstrip", "escape", "newline_to_br",
            "strip_newlines"]
WILD_F = ["url_encode", "url_decode", "json", "strip_html", "escape_once", "truncate: 3", "truncatewords: 1",
          "slice: 1, 2", "size", "remove: 'l'", "replace: 't', 'g'", "split: ';' | join: '#'",
          "reverse | join", "sort | join", "first", "last"]


class Gen:
    def __init__(self, r, data: dict[str, Any]) -> None:  # noqa: ANN001
        self.r = r
        self.data = data
        self.strs = [k for k, v in data.items() if isinstance(v, str)]
        self.raw = list(self.strs)
        self.lists = [k for k, v in data.items() if isinstance(v, list) and all(isinstance(x, str) for x in v)]
        self.dicts = [k for k, v in data.items() if isinstance(v, dict)]
        self.nested = [k for k, v in data.items() if isinstance(v, list) and not all(isinstance(x, str) for x in v)]
        self.wild = False
        self.in_tstr = False
        self.last_nested = False
        self.nvar = 0
        self.partials: dict[str, str] = {}
        self.scope_strs: list[str] = []   # locally bound string-valued names

    def fresh(self, p: str = "v") -> str:
        self.nvar += 1
        return f"{p}{self.nvar}"

    def text(self) -> str:
        return self.r.choice(TEXT)

    def svar(self) -> str:
        pool = self.strs + self.scope_strs
        return self.r.choice(pool)

    def cvar(self) -> str:
        """A variable for a condition: raw render data only.  A condition over a
        captured / escaped value legitimately differs between the two renders of
        the origin oracle ('&amp;' contains 'a', the private-use twin does not)."""
        return self.r.choice(self.raw)

    def sarg(self) -> str:
        """A string-valued filter argument: data, a template string with
        interpolated data, or a plain literal."""
        k = self.r.random()
        if k < 0.5:
            return self.svar()
        if k < 0.65 and not self.in_tstr:
            self.in_tstr = True
            try:
                return self.tstr()
            finally:
                self.in_tstr = False
        return "'" + self.r.choice(["", " ", "a", ", ", "lt;", "x"]) + "'"

    def sexpr(self, depth: int = 0) -> str:
        """A string-valued expression."""
        r = self.r
        k = r.random()
        if k < 0.35:
            e = self.svar()
        elif k < 0.45 and self.lists:
            e = f"{r.choice(self.lists)}[{r.choice([0, 1, -1])}]"
        elif k < 0.55 and self.dicts:
            d = r.choice(self.dicts)
            e = f"{d}[{self.cvar()}]" if r.random() < 0.5 else f"{d}.name"
        elif k < 0.65 and self.lists:
            e = f"{r.choice(self.lists)} | join: {self.sarg()}"
        elif k < 0.72 and self.lists:
            e = f"{r.choice(self.lists)} | first"
        elif k < 0.80 and depth == 0:
            parts = []
            for _ in range(r.randint(1, 3)):
                parts.append(r.choice(["a", " b ", "lt;", ""]))
                inner = self.svar() + ("" if r.random() < 0.6 else " | " + r.choice(STRUCT_F))
                parts.append("${" + inner + "}")
            e = '"' + "".join(parts) + '"'
        elif k < 0.85:
            e = "'" + r.choice(["lit", "a b", "x;"]) + "'"
        elif k < 0.90 and self.nested:
            e = r.choice(self.nested)
            self.last_nested = True
        else:
            e = self.svar()
        for _ in range(r.choice([0, 0, 1, 1, 2])):
            j = r.random()
            if j < 0.5:
                e += " | " + r.choice(STRUCT_F)
            elif j < 0.7:
                e += f" | append: {self.sarg()}"
            elif j < 0.85:
                e += f" | prepend: {self.sarg()}"
            elif j < 0.96:
                e += f" | default: {self.sarg()}"
            else:
                self.wild = True
                e += " | " + r.choice(WILD_F)
        return e

    def pexpr(self) -> str:
        """A primitive (filter-less) string-valued expression, for tag arguments."""
        r = self.r
        k = r.random()
        if k < 0.5:
            return self.svar()
        if k < 0.62 and self.lists:
            return f"{r.choice(self.lists)}[{r.choice([0, 1, -1])}]"
        if k < 0.74 and self.dicts:
            d = r.choice(self.dicts)
            return f"{d}[{self.cvar()}]" if r.random() < 0.5 else f"{d}.name"
        if k < 0.88:
            return self.tstr()
        return "'" + r.choice(["lit", "a b", "x;"]) + "'"

    def tstr(self) -> str:
        """A template string with DATA interpolations (paths, filters inside ${})."""
        r = self.r
        parts = []
        outer, self.in_tstr = self.in_tstr, True
        for _ in range(r.randint(1, 3)):
            parts.append(r.choice(["row-", "a", " b ", "lt;", "", "x;"]))
            k = r.random()
            if k < 0.5:
                inner = self.svar()
            elif k < 0.65 and self.lists:
                inner = f"{r.choice(self.lists)}[{r.choice([0, -1])}]"
            elif k < 0.8 and self.lists:
                inner = f"{r.choice(self.lists)} | join: {self.sarg()}"
            elif k < 0.9 and self.dicts:
                inner = f"{r.choice(self.dicts)}.name"
            else:
                inner = self.svar()
            j = r.random()
            if j < 0.3:
                inner += " | " + r.choice(STRUCT_F)
            elif j < 0.45:
                inner += f" | append: {self.sarg()}"
            elif j < 0.55:
                inner += f" | default: {self.sarg()} | " + r.choice(STRUCT_F)
            parts.append("${" + inner + "}")
        parts.append(r.choice(["", "-z", " b"]))
        self.in_tstr = outer
        return '"' + "".join(parts) + '"'

    def witem(self) -> str:
        """An item for a tag that WRITES a primitive expression (cycle): template
        strings with interpolated data, variables, paths, literals, numbers."""
        r = self.r
        k = r.random()
        if k < 0.40:
            return self.tstr()
        if k < 0.65:
            return self.svar()
        if k < 0.75 and self.lists:
            return f"{r.choice(self.lists)}[{r.choice([0, 1, -1])}]"
        if k < 0.82 and self.dicts:
            d = r.choice(self.dicts)
            return f"{d}[{self.cvar()}]" if r.random() < 0.5 else f"{d}.name"
        if k < 0.92:
            return "'" + r.choice(["alt", "a b", "x;", ""]) + "'"
        return r.choice(["7", "nil", "true", "(1..3)"])

    def cycle_tag(self, n_items: int | None = None) -> str:
        r = self.r
        n = n_items or r.choice([1, 2, 2, 3, 4])
        items = ", ".join(self.witem() for _ in range(n))
        name = r.choice(["", "", "", "g1: ", "'g 2': "])
        tag = "{% cycle " + name + items + " %}"
        return tag * r.choice([1, 1, 2, 3])     # the same tag again advances to the next item

    def stmt(self, depth: int) -> str:
        r = self.r
        k = r.random()
        if depth >= 3:
            k = k * 0.3
        if k < 0.22:
            return "{{ " + self.sexpr() + " }}"
        if k < 0.27:
            return "{% echo " + (self.tstr() + (" | " + self.r.choice(STRUCT_F) if self.r.random() < 0.3 else "")
                                 if self.r.random() < 0.4 else self.sexpr()) + " %}"
        if k < 0.33:
            v = self.fresh()
            self.last_nested = False
            out = "{% assign " + v + " = " + self.sexpr() + " %}"
            if not self.last_nested:   # a list used later as a text argument is repr()ed: not twin-stable
                self.scope_strs.append(v)
            return out
        if k < 0.43:
            v = self.fresh("c")
            body = self.block(depth + 1)
            self.scope_strs.append(v)
            return "{% capture " + v + " %}" + body + "{% endcapture %}"
        if k < 0.53:
            x = self.fresh("i")
            if self.dicts and r.random() < 0.35:
                d = r.choice(self.dicts)
                return ("{% for " + x + " in " + d + " %}" + self.text() + "{{ " + x + "[0] }}={{ " + x + "[1] }}"
                        + "{% endfor %}")
            if self.nested and r.random() < 0.3:
                n = r.choice(self.nested)
                return "{% for " + x + " in " + n + " %}{{ " + x + " }}" + self.text() + "{% endfor %}"
            if not self.lists:
                return self.text()
            lst = r.choice(self.lists)
            self.scope_strs.append(x)
            body = self.block(depth + 1)
            if r.random() < 0.4:
                body += self.cycle_tag()
            if r.random() < 0.3:
                body += "{{ forloop.index }}"
            self.scope_strs.remove(x)
            lim = r.choice(["", " limit: 2", " reversed", " offset: 1"])
            return "{% for " + x + " in " + lst + lim + " %}" + body + "{% else %}" + self.text() + "{% endfor %}"
        if k < 0.60:
            a, b = self.cvar(), self.cvar()
            cond = r.choice([f"{a} == {b}", f"{a} contains 'a'", f"{a}", f"{a} != blank", f"{a} and {b}"])
            tag = r.choice(["if", "unless"])
            return "{% " + tag + " " + cond + " %}" + self.block(depth + 1) + "{% else %}" + self.block(depth + 1) + "{% end" + tag + " %}"
        if k < 0.64:
            a = self.cvar()
            return ("{% case " + a + " %}{% when 'a' %}" + self.block(depth + 1) + "{% when " + self.cvar() + " %}"
                    + self.block(depth + 1) + "{% else %}" + self.block(depth + 1) + "{% endcase %}")
        if k < 0.74:
            name = self.partial(depth)
            j = r.random()
            if j < 0.35:
                return "{% render '" + name + "', x: " + self.pexpr() + " %}"
            if j < 0.55 and self.lists:
                return "{% render '" + name + "' for " + r.choice(self.lists) + " as x %}"
            if j < 0.75:
                return "{% include '" + name + "' with " + self.svar() + " as x %}"
            if j < 0.9 and self.lists:
                return "{% include '" + name + "' for " + r.choice(self.lists) + " as x %}"
            return "{% include '" + name + "', x: " + self.svar() + " %}"
        if k < 0.80:
            m = self.fresh("m")
            saved = self.scope_strs
            self.scope_strs = ["a", "b"]
            strs, self.strs = self.strs, []
            body = self.block(depth + 1)
            self.strs = strs
            self.scope_strs = saved
            return ("{% macro " + m + ", a, b='d' %}" + body + "{% endmacro %}"
                    + "{% call " + m + ", " + self.pexpr() + " %}" + self.text()
                    + "{% call " + m + ", " + self.svar() + ", b: " + self.pexpr() + " %}")
        if k < 0.87:
            j = r.random()
            if j < 0.4:
                return ("{% translate you: " + self.pexpr() + " %}Hello, {{ you }}!" + self.text().replace("\n", " ")
                        + "{% endtranslate %}")
            if j < 0.6:
                return ("{% translate count: " + r.choice(["1", "2", "0"]) + ", you: " + self.svar() + ", context: " + self.svar()
                        + " %}One {{ you }}{% plural %}Many {{ you }} {{ count }}{% endtranslate %}")
            if j < 0.8:
                return "{{ 'Hi %(x)s and %(y)s' | t: x: " + self.svar() + ", y: " + self.pexpr() + " }}"
            if j < 0.9:
                return "{{ " + self.svar() + " | t }}"
            return "{{ " + self.svar() + " | gettext: x: " + self.svar() + " }}"
        if k < 0.91:
            a = self.fresh("w")
            self.scope_strs.append(a)
            body = self.block(depth + 1)
            self.scope_strs.remove(a)
            return "{% with " + a + ": " + self.pexpr() + " %}" + body + "{% endwith %}"
        if k < 0.95:
            v = self.fresh()
            first = "echo " + self.sexpr(1)
            self.last_nested = False
            lines = [first, "echo " + self.tstr(), "cycle " + self.witem() + ", " + self.witem(),
                     "assign " + v + " = " + self.sexpr(1), "echo " + v,
                     "if " + self.cvar(), "echo " + self.svar() + " | upcase", "endif"]
            if not self.last_nested:
                self.scope_strs.append(v)
            return "{% liquid\n" + "\n".join(lines) + "\n%}"
        if k < 0.97:
            return "{{ " + self.svar() + " if " + self.cvar() + " else " + self.sexpr(1) + " }}"
        if self.dicts and r.random() < 0.5:
            self.wild = True
            return "{{ " + r.choice(self.dicts) + " }}"
        return self.text()

    def extra_stmt(self, depth: int) -> str:
        """Output-writing constructs besides {{ }}: increment / decrement, cycle
        outside a loop, a loop over the characters of a data string, tablerow."""
        r = self.r
        k = r.random()
        if k < 0.2:
            return "{% " + r.choice(["increment", "decrement"]) + " " + r.choice(["n1", "n2"]) + " %}"
        if k < 0.4:
            return self.cycle_tag()
        if k < 0.65:
            x = self.fresh("ch")
            self.scope_strs.append(x)
            body = "{{ " + x + " }}" + self.text() + ("{% echo " + x + " | upcase %}" if r.random() < 0.5 else "")
            self.scope_strs.remove(x)
            return "{% for " + x + " in " + self.cvar() + " %}" + body + "{% endfor %}"
        if self.lists:
            x = self.fresh("t")
            self.scope_strs.append(x)
            body = self.text() + "{{ " + x + " }}" + (self.stmt(depth + 1) if depth < 2 else "")
            if r.random() < 0.4:
                body += "{% echo " + x + " | append: " + self.sarg() + " %}"
            self.scope_strs.remove(x)
            return ("{% tablerow " + x + " in " + r.choice(self.lists) + " cols: " + str(r.choice([1, 2, 3])) + " %}"
                    + body + "{% endtablerow %}")
        return "{% echo " + self.sexpr(1) + " %}"

    def block(self, depth: int) -> str:
        n = self.r.choice([1, 1, 2, 2, 3])
        saved = list(self.scope_strs)
        out = "".join(self.text() + (self.extra_stmt(depth) if self.r.random() < 0.15 else self.stmt(depth)) for _ in range(n))
        # names assigned inside stay visible (assign/capture are template-scoped) except in isolated scopes
        self.scope_strs = [s for s in self.scope_strs if s in saved or s.startswith(("v", "c"))]
        return out

    def partial(self, depth: int) -> str:
        name = f"p{len(self.partials) + 1}"
        self.partials[name] = ""   # reserve
        saved, self.scope_strs = self.scope_strs, ["x"]
        strs, self.strs = self.strs, []      # `render` is isolated; keep partials to their own argument
        lists, self.lists = self.lists, []
        dicts, self.dicts = self.dicts, []
        nested, self.nested = self.nested, []
        body = self.block(depth + 1)
        self.strs, self.lists, self.dicts, self.nested = strs, lists, dicts, nested
        self.scope_strs = saved
        self.partials[name] = body
        return name


def gen_data(r) -> dict[str, Any]:  # noqa: ANN001
    def s(n: int = 6) -> str:
        if r.random() < 0.2:
            return r.choice(["<>&'\"", "<script>alert('x')</script>", "", "a", "&", "<", "\"'", "&lt;", "a&amp;a"])
        return "".join(r.choice("<>&'\"a") for _ in range(r.randint(1, n)))
    data: dict[str, Any] = {"s0": s(), "s1": s(), "s2": s(3)}
    data["l0"] = [s(4) for _ in range(r.randint(0, 3))]
    if r.random() < 0.7:
        data["l1"] = [s(3) for _ in range(r.randint(1, 4))]
    if r.random() < 0.7:
        data["d0"] = {s(3) or "k": s(4) for _ in range(r.randint(1, 3))}
        data["d0"]["name"] = s(4)
        data["d0"][data["s0"]] = s(4)
    if r.random() < 0.5:
        data["n0"] = [s(3), [s(2), [s(2)]], 7, None, {"k" + s(2): s(2)} if r.random() < 0.15 else s(1)]
    return data


def gen_program(r) -> tuple[dict[str, str], dict[str, Any], bool]:  # noqa: ANN001
    data = gen_data(r)
    g = Gen(r, data)
    if any(isinstance(x, dict) for x in data.get("n0", [])):
        g.wild = True   # a dict rendered by str(): repr() of private-use characters differs
    if r.random() < 0.2:
        # inheritance with block.super
        base = ("B" + g.text() + "{% block content %}base " + g.block(1) + "{% endblock %}" + g.text()
                + "{% block foot %}f{{ " + g.svar() + " }}{% endblock %}E")
        mid = "{% extends 'base' %}{% block content %}mid {{ block.super }} " + g.block(1) + "{% endblock %}"
        child = ("{% extends 'mid' %}{% block content %}child [{{ block.super }}] " + g.block(1)
                 + "{% capture s %}{{ block.super }}{% endcapture %}{{ s | upcase }}{% endblock %}"
                 + "{% block foot %}{{ block.super | append: " + g.sarg() + " }}{% endblock %}")
        templates = {"base": base, "mid": mid, "main": child}
    else:
        templates = {"main": g.block(0)}
    templates.update(g.partials)
    return templates, data, g.wild


def make_env(kind: str, templates: dict[str, str]) -> Any:
    """The environments the property is evaluated on.
    default                : liquid2.shopify.Environment(auto_escape=True)  (default environment + tablerow)
    register_default_args  : + register_translation_filters(env)            (documented helper, default arguments:
                             replace=True, autoescape_message=False - it REPLACES the escaping filters that
                             Environment.__init__ registered with auto_escape_message=env.auto_escape)
    register_replace       : + register_translation_filters(env, replace=True)   (the same, spelled out)
    debug_undefined        : undefined=DebugUndefined (its message embeds path keys that come from data)"""
    from liquid2 import DictLoader
    from liquid2.shopify import Environment
    if kind == "debug_undefined":
        from liquid2.undefined import DebugUndefined
        return Environment(auto_escape=True, loader=DictLoader(templates), undefined=DebugUndefined)
    env = Environment(auto_escape=True, loader=DictLoader(templates))
    if kind != "default":
        from liquid2.builtin import register_translation_filters
        if kind == "register_replace":
            register_translation_filters(env, replace=True)
        else:
            register_translation_filters(env)
    return env


def render_program(templates: dict[str, str], data: dict[str, Any], mode: str = "sync", kind: str = "default") -> str:
    """Render 'main' under the sync or the async API (template loading included)."""
    env = make_env(kind, templates)
    if mode == "sync":
        return env.get_template("main").render(**data)
    tmpl = X.arun(env.get_template_async("main"))
    return X.arun(tmpl.render_async(**data))


FIXED: list[tuple[dict[str, str], dict[str, Any]]] = [
    ({"main": "{% capture c %}{{ s }}{% endcapture %}{{ c }}{{ c | upcase }}{{ c | append: s }}"}, {"s": "<a&'\">"}),
    ({"main": "{% render 'p', x: s %}{% include 'p' with s as x %}", "p": "[{{ x }}|{{ x | escape }}]"}, {"s": "<a&'\">"}),
    ({"main": "{% macro m, a, b='d' %}({{ a }},{{ b }}){% endmacro %}{% call m, s %}{% call m, s, b: s %}"}, {"s": "<a&'\">"}),
    ({"main": "{% for p in d %}{{ p[0] }}={{ p[1] }};{% endfor %}{{ d[k] }}"}, {"d": {"<k>": "<v>", "&": "'"}, "k": "<k>"}),
    ({"main": '{{ "a ${s} b ${s | upcase}" }}{% assign v = "x${s}" %}{{ v }}{{ v | append: s }}'}, {"s": "<a&'\">"}),
    ({"main": "{% translate you: s %}Hello, {{ you }}!{% endtranslate %}{{ 'Hi %(x)s' | t: x: s }}{{ s | t }}"}, {"s": "<a&'\">"}),
    ({"main": "{% extends 'base' %}{% block b %}[{{ block.super }}]{{ s }}{% endblock %}",
      "base": "B{% block b %}base {{ s }}{% endblock %}E"}, {"s": "<a&'\">"}),
    ({"main": "{{ l }}{{ n }}{{ l | join: s }}{{ l | join: ', ' }}{% for x in l %}{% cycle s, x %}{% endfor %}"},
     {"l": ["<", "&"], "n": ["<", ["&", [">"]]], "s": "'\""}),
    ({"main": "{% liquid\necho s\nassign v = s | upcase\necho v\n%}{% echo s | append: s %}"}, {"s": "<a&'\">"}),
    ({"main": "{{ s if s else 'x' }}{{ 'x' if n else s | append: s }}{% with a: s %}{{ a }}{% endwith %}"}, {"s": "<a&'\">", "n": None}),
    # every construct that writes to the output, in both API modes (an async twin that forgets auto_escape)
    ({"main": "{% echo s %}{% echo l %}{% echo s | append: s %}"}, {"s": "<a&'\">", "l": ["<", ["&"]]}),
    ({"main": "{% liquid\n  assign y = s | upcase\n  echo y\n  cycle s, y\n  increment n\n%}"}, {"s": "<a&'\">"}),
    ({"main": "{% capture c %}{% echo s %}{% cycle s, s %}{% endcapture %}{{ c }}{% echo c %}"}, {"s": "<a&'\">"}),
    ({"main": "{% for item in l %}{% render 'item', item: item, tail: s %}{% include 'item' %}{% endfor %}",
      "item": "{% echo item | append: tail %}{{ item }}{% cycle item, tail %}"}, {"s": "<a&'\">", "l": ["<b>", "&'"], "tail": "\">"}),
    ({"main": "{% macro m, a %}{% echo \"v ${a}\" %}{{ a }}{% cycle a %}{% endmacro %}{% call m, s %}"}, {"s": "<a&'\">"}),
    ({"main": "{% cycle s, t %}{% cycle s, t %}{% increment n %}{% decrement n %}{% increment s %}"}, {"s": "<a&'\">", "t": "'\""}),
    ({"main": "{% for ch in s %}[{{ ch }}{% echo ch %}{% cycle ch %}]{% endfor %}"}, {"s": "<a&'\">"}),
    ({"main": "{% tablerow x in l cols: 2 %}{{ x }}{% echo x %}{% cycle x, s %}{% endtablerow %}"}, {"s": "<a&'\">", "l": ["<", "&", "'\""]}),
    ({"main": "{% translate you: s, count: 2 %}One {{ you }}{% plural %}Many {{ you }}{% endtranslate %}{{ s | t: x: s }}{% echo 'Hi %(x)s' | t: x: s %}"},
     {"s": "<a&'\">"}),
    ({"main": "{% extends 'base' %}{% block b %}[{{ block.super }}|{% echo block.super %}]{% echo s %}{% endblock %}",
      "base": "B{% block b %}base {% echo s %}{% cycle s %}{% endblock %}E"}, {"s": "<a&'\">"}),
    ({"main": "{% echo \"a ${s} b\" %}{% assign v = \"x${s}\" %}{% echo v %}{% with a: s %}{% echo a %}{% endwith %}"}, {"s": "<a&'\">"}),
    # template strings keep their literal text and escape the interpolated values (fix 611e27a): in an
    # output statement, assign, echo, a filter argument, a capture, a partial argument; both API modes
    ({"main": "{{ \"[b]${x}[/b]\" }}{% assign v = \"[i]${x | upcase}[/i]\" %}{{ v }}{{ v | append: x }}{% echo \"[u]${x}[/u]\" %}"
              "{{ x | append: \"[a]${x}[/a]\" }}{{ l | join: \"[s]${x}\" }}{% capture c %}{{ \"[c]${x}\" }}{% endcapture %}{{ c }}{{ c | upcase }}"
              "{% render 'p', y: \"[r]${x}\" %}{{ \"${x}${l}${n}\" }}", "p": "{{ y }}{% echo y | prepend: \"[p]${y}\" %}"},
     {"x": "<a&'\">", "l": ["<", ["&"]], "n": None}),
    # items of a writing tag that are not plain paths: template strings with interpolated data, mixed lists
    ({"main": "{% for x in l %}<{% cycle \"row-${cls}\", 'alt' %}>{% endfor %}".replace("<", "[").replace(">", "]")},
     {"cls": "\"><script>", "l": [1, 2, 3]}),
    ({"main": "{% cycle \"row-${s}\", \"alt-${s | upcase}-${l | join: s}\" %}{% cycle \"row-${s}\", \"alt-${s | upcase}-${l | join: s}\" %}"},
     {"s": "<a&'\">", "l": ["<", "&"]}),
    ({"main": "{% for x in l %}{% cycle g: x, \"t-${x}\", 'lit', 7, s, d.name, \"${d.name | append: x}\" %}{% endfor %}"},
     {"s": "<a&'\">", "l": ["<", "&", "'", "\"", ">", "a", "<b>"], "d": {"name": "<n>"}}),
    ({"main": "{% liquid\n  cycle \"a${s}\", s\n  cycle \"a${s}\", s\n  echo \"e${s | downcase}\"\n%}{% capture c %}{% cycle \"c${s}\" %}{% endcapture %}{{ c }}"},
     {"s": "<a&'\">"}),
    ({"main": "{% render 'p', x: \"r${s}\" %}{% include 'p' with \"i${s}\" as x %}{% macro m, a %}{% cycle \"m${a}\", a %}{% endmacro %}{% call m, \"k${s}\" %}"
              "{% with w: \"w${s}\" %}{% cycle w, \"z${w}\" %}{% endwith %}{% translate you: \"t${s}\" %}Hi {{ you }}{% endtranslate %}",
      "p": "[{% cycle x, \"p${x}\" %}{% cycle x, \"p${x}\" %}]"}, {"s": "<a&'\">"}),
]


def program_level(chk: C.Check, r, n: int) -> dict[str, Any]:  # noqa: ANN001
    stats = {"programs": 0, "render_errors": 0, "origin_checked": 0, "wild": 0, "constructs": {}, "renders": {}}
    nontrivial: set[str] = set()
    samples: list[dict[str, Any]] = []
    progs: list[tuple[dict[str, str], dict[str, Any], bool]] = [(t, d, False) for t, d in FIXED]
    for _ in range(n):
        progs.append(gen_program(r))
    for templates, data, wild in progs:
        src = "\n".join(f"[{k}] {v}" for k, v in templates.items())
        outs: dict[str, str] = {}
        for mode in ("sync", "async"):
            try:
                outs[mode] = render_program(templates, data, mode)
            except Exception as e:  # noqa: BLE001
                stats.setdefault("error_kinds", {})
                key = f"{mode}:{type(e).__name__}"
                stats["error_kinds"][key] = stats["error_kinds"].get(key, 0) + 1
        if not outs:
            stats["render_errors"] += 1
            continue
        stats["programs"] += 1
        for tag in set(re.findall(r"\{%-?\s*(\w+)", src)) | ({"template_string"} if "${" in src else set()) | (
                {"block.super"} if "block.super" in src else set()):
            stats["constructs"][tag] = stats["constructs"].get(tag, 0) + 1
        all_src = " ".join(templates.values())
        if wild:
            stats["wild"] += 1
        for mode, out in outs.items():
            stats["renders"][mode] = stats["renders"].get(mode, 0) + 1
            fail = X.syntactic_oracle(all_src + (" | slice" if wild else ""), out)
            if fail is None and not wild:
                stats["origin_checked"] += 1
                f2 = X.origin_oracle(lambda _s, d, t=templates, m=mode: render_program(t, d, m), all_src, data, out)
                if f2:
                    fail = "origin: " + f2
            if fail:
                api = "render" if mode == "sync" else "render_async"
                chk.finding("oracle-program:" + fail.split(":")[0][:40],
                            f"[{api}] program {src!r} with {data!r} renders {out!r}: {fail}",
                            {"templates": templates, "data": data, "output": out, "mode": mode,
                             "how": f"liquid2.shopify.Environment(auto_escape=True, loader=DictLoader(templates)).get_template('main').{api}(**data)"})
        out = outs.get("sync", next(iter(outs.values())))
        if any(c in repr(data) for c in "<>&") and any(e in out for e in X.ENT.values()):
            nontrivial.add(src + repr(data))
        if len(samples) < 3 and stats["programs"] % 151 == 12:
            samples.append({"templates": templates, "data": data, "output": outs})
    return {"programs": stats["programs"], "stats": stats, "nontrivial": nontrivial, "samples": samples}


# ---------------------------------------------------------------- special streams

TRANSLATION_SIG = "register_translation_filters-unescaped-message"


def gen_translation_program(r, data: dict[str, Any]) -> dict[str, str]:  # noqa: ANN001
    """Translation filters with messages, plural forms, contexts and message
    variables that come from data; `date` with a data FORMAT and a literal left."""
    strs = [k for k, v in data.items() if isinstance(v, str) and k != "f0"]   # f0 has a % directive: not a message

    def sv() -> str:
        return r.choice(strs)

    def lit() -> str:
        return "'" + r.choice(["one", "Hi", "a b", "x;", "lt;"]) + "'"

    def msg() -> str:
        return sv() if r.random() < 0.7 else lit()

    def kw() -> str:
        return "" if r.random() < 0.6 else f", x: {sv()}"

    def tail() -> str:
        return "" if r.random() < 0.6 else " | " + r.choice(STRUCT_F + ["append: " + sv(), "prepend: " + lit()])

    forms = [
        lambda: f"{{{{ {msg()} | t{(': x: ' + sv()) if r.random() < 0.3 else ''}{tail()} }}}}",
        lambda: f"{{{{ {msg()} | gettext{(': x: ' + sv()) if r.random() < 0.3 else ''}{tail()} }}}}",
        lambda: f"{{{{ {msg()} | t: plural: {msg()}, count: {r.choice(['2', '0', '5', 'n2', '1'])}{kw()}{tail()} }}}}",
        lambda: f"{{{{ {msg()} | t: {msg()}, plural: {msg()}, count: {r.choice(['2', 'n2', '1'])}{tail()} }}}}",
        lambda: f"{{{{ {msg()} | t: {msg()}{tail()} }}}}",
        lambda: f"{{{{ {msg()} | ngettext: {msg()}, {r.choice(['2', '0', 'n2', '1'])}{kw()}{tail()} }}}}",
        lambda: f"{{{{ {msg()} | pgettext: {msg()}{kw()}{tail()} }}}}",
        lambda: f"{{{{ {msg()} | npgettext: {msg()}, {msg()}, {r.choice(['2', 'n2', '1'])}{kw()}{tail()} }}}}",
        lambda: f"{{{{ 'Hi %(x)s and %(y)s' | t: x: {sv()}, y: {sv()}{tail()} }}}}",
        lambda: f"{{% echo {msg()} | t: plural: {msg()}, count: 3 %}}",
        lambda: f"{{% capture c %}}{{{{ {msg()} | t }}}}{{% endcapture %}}{{{{ c }}}}{{{{ c | upcase }}}}",
        lambda: f"{{% for m in l0 %}}{{{{ m | t }}}}{{{{ 'one' | ngettext: m, 2 }}}}{{% endfor %}}",
        # date: the FORMAT comes from data, the left value is a literal
        lambda: f"{{{{ 'now' | date: {r.choice(['f0', 'f1'])}{tail()} }}}}",
        lambda: f"{{{{ 'today' | date: {r.choice(['f0', 'f1'])} }}}}",
        lambda: f"{{% assign dl = '2020-01-02' %}}{{{{ dl | date: {r.choice(['f0', 'f1'])}{tail()} }}}}",
        lambda: f"{{{{ missing | default: 'now' | date: {r.choice(['f0', 'f1'])} }}}}",
        lambda: f"{{% echo 'now' | date: {r.choice(['f0', 'f1'])} %}}{{% for f in l0 %}}{{{{ '2001-02-03' | date: f }}}}{{% endfor %}}",
    ]
    return {"main": "".join(r.choice(TEXT) + r.choice(forms)() for _ in range(r.randint(1, 4)))}


def gen_undefined_program(r, data: dict[str, Any]) -> dict[str, str]:  # noqa: ANN001
    """Paths that do not resolve, whose keys come from data (DebugUndefined
    spells the path in what it renders)."""
    strs = [k for k, v in data.items() if isinstance(v, str)]

    def k() -> str:
        return r.choice(strs)

    def tail() -> str:
        return "" if r.random() < 0.6 else " | " + r.choice(STRUCT_F + ["append: " + k(), "default: " + k(), "join: " + k(), "first"])

    forms = [
        lambda: f"{{{{ d0[{k()}]{tail()} }}}}",
        lambda: f"{{{{ d0[{k()}].more[{k()}]{tail()} }}}}",
        lambda: f"{{{{ nosuch[{k()}]{tail()} }}}}{{{{ nosuch }}}}",
        lambda: f"{{{{ {k()}[{k()}]{tail()} }}}}{{{{ l0[99] }}}}{{{{ n2[{k()}] }}}}",
        lambda: f"{{% for key in l0 %}}{{{{ d0[key] }}}}{{% echo e0[key]{tail()} %}}{{% cycle d0[key], key %}}{{% endfor %}}",
        lambda: f"{{% render 'pu', key: {k()}, u: d0 %}}{{% include 'pu' with {k()} as key %}}",
        lambda: f"{{% capture c %}}{{{{ d0[{k()}] }}}}{{% endcapture %}}{{{{ c }}}}{{{{ c | upcase }}}}",
        lambda: f'{{{{ "a ${{d0[{k()}]}} b" }}}}{{% assign v = d0[{k()}] %}}{{{{ v }}}}{{% echo v %}}',
        lambda: f"{{% macro mu, a %}}{{{{ a }}}}{{{{ e0[a] }}}}{{% endmacro %}}{{% call mu, d0[{k()}] %}}{{% call mu, {k()} %}}",
        lambda: f"{{% with w: d0[{k()}] %}}{{{{ w }}}}{{% endwith %}}{{{{ d0[{k()}] | t }}}}",
        lambda: f"{{% translate you: d0[{k()}] %}}Hello, {{{{ you }}}}!{{% endtranslate %}}",
    ]
    return {"main": "".join(r.choice(TEXT) + r.choice(forms)() for _ in range(r.randint(1, 4))),
            "pu": "[{{ u[key] }}|{{ u[key] | upcase }}|{% echo nosuch[key] %}|{{ key }}]"}


def special_streams(chk: C.Check, r, n: int) -> dict[str, Any]:  # noqa: ANN001
    """Oracle-only streams for configurations and constructs the main program
    generator does not reach: the documented `register_translation_filters`
    paths, data-supplied plural forms / contexts / message variables, `date`
    with a data format and a literal left value, and `DebugUndefined`."""
    stats: dict[str, Any] = {"renders": {}, "programs": 0, "origin_checked": 0}
    nontrivial: set[str] = set()
    progs: list[tuple[str, dict[str, str], dict[str, Any], bool]] = []
    for _ in range(n):
        data = gen_data(r)
        data.setdefault("d0", {"k": "v"})
        data.update({"e0": {}, "n2": 2, "f0": data["s0"] + "%Y" + data["s1"], "f1": data["s2"]})
        tp = gen_translation_program(r, data)
        for kind in ("default", "register_default_args", "register_replace"):
            progs.append((kind, tp, data, True))
        progs.append(("debug_undefined", gen_undefined_program(r, data), data, False))
    for kind, templates, data, origin in progs:
        src = "\n".join(f"[{k}] {v}" for k, v in templates.items())
        all_src = " ".join(templates.values())
        ok = False
        for mode in ("sync", "async"):
            try:
                out = render_program(templates, data, mode, kind)
            except Exception as e:  # noqa: BLE001
                key = f"{kind}:{mode}:{type(e).__name__}"
                stats.setdefault("error_kinds", {})
                stats["error_kinds"][key] = stats["error_kinds"].get(key, 0) + 1
                continue
            ok = True
            stats["renders"][f"{kind}:{mode}"] = stats["renders"].get(f"{kind}:{mode}", 0) + 1
            fail = X.syntactic_oracle(all_src, out)
            if fail is None and origin:
                stats["origin_checked"] += 1
                f2 = X.origin_oracle(lambda _s, d, t=templates, m=mode, kd=kind: render_program(t, d, m, kd), all_src, data, out)
                if f2:
                    fail = "origin: " + f2
            if fail:
                api = "render" if mode == "sync" else "render_async"
                # the helper's filters with autoescape_message=False: one mechanism, one signature
                is_tr = kind in ("register_default_args", "register_replace") and re.search(r"\|\s*(t|gettext|ngettext|pgettext|npgettext)\b", all_src)
                sig = TRANSLATION_SIG if is_tr else "oracle-program:" + fail.split(":")[0][:40]
                chk.finding(sig, f"[{kind} environment, {api}] program {src!r} with {data!r} renders {out!r}: {fail}",
                            {"templates": templates, "data": data, "output": out, "mode": mode, "environment": kind,
                             "how": "harness/c04_programs.py make_env(kind, templates).get_template('main')." + api + "(**data)"})
        if ok:
            stats["programs"] += 1
            if any(c in repr(data) for c in "<>&"):
                nontrivial.add(kind + src + repr(data))
    return {"programs": stats["programs"], "stats": stats, "nontrivial": nontrivial}
