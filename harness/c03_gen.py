"""C03 program / data / loader generators (seeded; see harness/c03.py).

Programs are generated as Liquid source text from a grammar that covers every
built-in tag (output, echo, assign, capture, if, unless, case, for + break /
continue / offset:continue, tablerow (Shopify environment), cycle, increment,
decrement, raw, comment, liquid, with, macro / call, include, render, extends /
block, translate) over a fixed pool of variables, with partial templates that
live in SUB-DIRECTORIES and print the variable that `with` / `for` binds.
"""

from __future__ import annotations

import random
from typing import Any

PARTIALS = ["snippets/foo.html", "snippets/row.liquid", "parts/deep/bar.html", "plain", "snippets/card.x.html"]
PARTIAL_KEYS = {"snippets/foo.html": "foo", "snippets/row.liquid": "row", "parts/deep/bar.html": "bar",
                "plain": "plain", "snippets/card.x.html": "card"}
SCALARS = ["a", "b", "c", "n", "s", "u"]          # u is never defined
ARRAYS = ["xs", "ys", "zs"]
FILTERS0 = ["upcase", "downcase", "size", "first", "last", "reverse", "sort", "escape", "strip",
            "capitalize", "abs", "compact", "uniq", "json"]
FILTERS1 = [("append", "str"), ("prepend", "str"), ("plus", "num"), ("minus", "num"), ("times", "num"),
            ("divided_by", "num0"), ("modulo", "num0"), ("default", "any"), ("join", "str"), ("split", "str"),
            ("truncate", "num"), ("slice", "num"), ("at_least", "num"), ("map", "key"), ("where", "key"),
            ("concat", "arr"), ("remove", "str"), ("replace", "str")]


class Gen:
    def __init__(self, r: random.Random, *, shopify: bool = False, max_depth: int = 3,
                 partials: bool = True, weird: bool = True) -> None:
        self.r = r
        self.shopify = shopify
        self.max_depth = max_depth
        self.partials = partials
        self.weird = weird
        self.macros: list[str] = []
        self.loopvars: list[str] = []
        self.counter = 0

    # ------------------------------------------------------------ expressions
    def ident(self) -> str:
        r = self.r
        pool = SCALARS + ARRAYS + ["d", "o", "v", "foo", "row", "bar", "card", "plain", "q", "cap"] + self.loopvars
        return r.choice(pool)

    def path(self) -> str:
        r = self.r
        x = r.random()
        if x < 0.35:
            return self.ident()
        if x < 0.5:
            return r.choice(["o.x", "o.y", "o.items", "o.nested.x", "o.size", "o.first", "o.missing", "o.items.size",
                             "o.items.first", "o.items[1]", "o.nested.items.last", "os[0].x", "os.first.y", "os.size"])
        if x < 0.65:
            return r.choice(["d.k", "d.t", "d.size", "d.first", "d['k']", "d[b]", "d.inner.k", "d.missing.k"])
        if x < 0.8:
            return r.choice(["xs[0]", "xs.first", "xs.last", "xs.size", "xs[n]", "xs[-1]", "ys[0].k", "ys.first.t",
                             "ys[9].k", "zs.size", "zs.first"])
        if x < 0.9 and self.loopvars:
            v = r.choice(self.loopvars)
            return r.choice([v, v + ".k", v + ".x", "forloop.index", "forloop.first", "forloop.last", "forloop.length",
                             "forloop.parentloop.index", "forloop.rindex0", "forloop.name"])
        return r.choice(["o[s]", "o['x']", "d[o.key]", "xs[o.idx]", "s.size", "b.first", "a.size"])

    def literal(self) -> str:
        r = self.r
        return r.choice(["1", "2", "0", "-3", "1.5", "'x'", "'a b'", '"<i>"', "true", "false", "nil", "''", "'2'",
                         "(1..3)", "(n..3)", "'k'", "empty", "blank"][: (None if self.weird else 12)])

    def primitive(self) -> str:
        return self.path() if self.r.random() < 0.65 else self.literal()

    def arg(self, kind: str) -> str:
        r = self.r
        if kind == "str":
            return r.choice(["'z'", "'-'", "b", "s", "' '", "o.x"])
        if kind == "num":
            return r.choice(["1", "2", "n", "a", "3", "o.idx", "xs.size"])
        if kind == "num0":
            return r.choice(["2", "3", "n", "0", "a", "o.idx"])
        if kind == "key":
            return r.choice(["'k'", "'t'", "'x'", "x => x.k", "i => i.t"])
        if kind == "arr":
            return r.choice(["xs", "ys", "zs", "o.items"])
        return self.primitive()

    def filtered(self, depth: int = 0) -> str:
        r = self.r
        e = self.primitive()
        for _ in range(r.choice([0, 0, 1, 1, 2, 3])):
            if r.random() < 0.5:
                e += " | " + r.choice(FILTERS0)
            else:
                f, k = r.choice(FILTERS1)
                e += f" | {f}: {self.arg(k)}"
        if depth < 1 and r.random() < 0.12:
            e += f" if {self.cond(1)} else {self.primitive()}"
            if r.random() < 0.4:
                e += " | " + r.choice(FILTERS0)
            if r.random() < 0.3:
                e += " || upcase"
        if self.weird and r.random() < 0.004:
            e += " | nosuchfilter"
        if self.weird and r.random() < 0.05:
            e += " | t"
        return e

    def cond(self, depth: int = 0) -> str:
        r = self.r
        x = r.random()
        if depth >= 2 or x < 0.3:
            return self.primitive()
        if x < 0.6:
            op = r.choice(["==", "!=", "==", "!=", "==", "!=", "<", ">", "<=", ">=", "contains", "in"] if self.weird else ["==", "!=", "==", "<"])
            return f"{self.primitive()} {op} {self.primitive()}"
        if x < 0.8:
            return f"{self.cond(depth + 1)} {r.choice(['and', 'or'])} {self.cond(depth + 1)}"
        if x < 0.9:
            return f"not {self.cond(depth + 1)}"
        return f"({self.cond(depth + 1)})"

    # ------------------------------------------------------------------ tags
    def text(self) -> str:
        return self.r.choice(["x", " ", "\n", "T ", "<b>", "-", "ab", ""])

    def wc(self) -> tuple[str, str]:
        r = self.r
        if r.random() < 0.85:
            return "", ""
        return r.choice(["-", "~", ""]), r.choice(["-", "~", ""])

    def tag(self, body: str) -> str:
        a, b = self.wc()
        return "{%" + a + " " + body + " " + b + "%}"

    def nodes(self, depth: int, n: int | None = None, in_loop: bool = False, in_render: bool = False) -> str:
        r = self.r
        k = n if n is not None else r.choice([1, 1, 2, 2, 3, 4])
        return "".join(self.node(depth, in_loop, in_render) for _ in range(k))

    def node(self, depth: int, in_loop: bool = False, in_render: bool = False) -> str:  # noqa: PLR0911, PLR0912
        r = self.r
        leafy = depth >= self.max_depth
        kinds = ["text", "out", "out", "out", "assign", "echo", "cycle", "incr", "raw", "comment"]
        if not leafy:
            kinds += ["if", "if", "unless", "case", "for", "for", "capture", "with", "liquid", "macro", "translate"]
            if self.shopify:
                kinds += ["tablerow"]
            if self.partials:
                kinds += ["include", "include", "render", "render"]
        if in_loop:
            kinds += ["break", "continue"]
        if self.macros:
            kinds += ["call", "call"]
        kind = r.choice(kinds)
        d = depth + 1
        if kind == "text":
            return self.text()
        if kind == "out":
            a, b = self.wc()
            return "{{" + a + " " + self.filtered() + " " + b + "}}"
        if kind == "echo":
            return self.tag("echo " + self.filtered())
        if kind == "assign":
            return self.tag(f"assign {r.choice(['q', 'a', 'cap', 'xs'])} = {self.filtered(1)}")
        if kind == "cycle":
            grp = r.choice(["", "'g': ", "a: "])
            return self.tag(f"cycle {grp}'one', 'two', {self.primitive()}")
        if kind == "incr":
            return self.tag(r.choice(["increment", "decrement"]) + " " + r.choice(["q", "cnt", "a"]))
        if kind == "raw":
            return "{% raw %}{{ a }}{% endraw %}"
        if kind == "comment":
            return r.choice(["{# c #}", "{% comment %}x{{ a }}{% endcomment %}", "{% # inline %}"])
        if kind == "break":
            return self.tag("break") if r.random() < 0.5 else self.tag(f"if {self.cond()}") + self.tag("break") + self.tag("endif")
        if kind == "continue":
            return self.tag("continue") if r.random() < 0.5 else self.tag(f"if {self.cond()}") + self.tag("continue") + self.tag("endif")
        if kind in ("if", "unless"):
            s = self.tag(f"{kind} {self.cond()}") + self.nodes(d, None, in_loop, in_render)
            for _ in range(r.choice([0, 0, 1, 2, 3])):
                s += self.tag(f"elsif {self.cond()}") + self.nodes(d, None, in_loop, in_render)
            if r.random() < 0.5:
                s += self.tag("else") + self.nodes(d, None, in_loop, in_render)
            return s + self.tag("end" + kind)
        if kind == "case":
            s = self.tag(f"case {self.primitive()}")
            for _ in range(r.choice([1, 2, 3])):
                ws = [self.primitive() for _ in range(r.choice([1, 1, 2, 3]))]
                s += self.tag("when " + r.choice([", ", " or "]).join(ws)) + self.nodes(d, None, in_loop, in_render)
            if r.random() < 0.6:
                s += self.tag("else") + self.nodes(d, None, in_loop, in_render)
            return s + self.tag("endcase")
        if kind in ("for", "tablerow"):
            v = r.choice(["x", "i", "item"])
            it = r.choice(["xs", "ys", "zs", "o.items", "os", "(1..3)", "(1..n)", "d", "s", "u", "a", "o.nested.items", "(1..9)", "xs"])
            args = ""
            if r.random() < 0.3:
                args += " limit: " + r.choice(["1", "2", "n", "o.idx", "'1'"])
            if r.random() < 0.3:
                args += " offset: " + r.choice(["1", "continue", "n", "'1'", "o.idx", "continue"])
            if kind == "tablerow" and r.random() < 0.6:
                args += " cols: " + r.choice(["2", "n", "1"])
            if r.random() < 0.2:
                args += " reversed"
            self.loopvars.append(v)
            body = self.nodes(d, None, kind == "for", in_render)
            s = self.tag(f"{kind} {v} in {it}{args}") + body
            if kind == "for" and r.random() < 0.3:
                s += self.tag("else") + self.nodes(d, 1, in_loop, in_render)
            self.loopvars.pop()
            return s + self.tag("end" + kind)
        if kind == "capture":
            return self.tag("capture cap") + self.nodes(d, None, in_loop, in_render) + self.tag("endcapture")
        if kind == "with":
            return self.tag(f"with q: {self.primitive()}, v: {self.primitive()}") + self.nodes(d, None, in_loop, in_render) + self.tag("endwith")
        if kind == "liquid":
            lines = ["liquid"]
            for _ in range(r.choice([1, 2, 3])):
                lk = r.choice(["echo", "assign", "if", "for", "incr"])
                if lk == "echo":
                    lines.append("echo " + self.filtered())
                elif lk == "assign":
                    lines.append("assign q = " + self.filtered(1))
                elif lk == "incr":
                    lines.append("increment cnt")
                elif lk == "if":
                    lines += ["if " + self.cond(), "echo " + self.filtered(), "elsif " + self.cond(), "echo 'e'", "endif"]
                else:
                    lines += ["for x in xs", "echo x", "endfor"]
            return "{% " + "\n ".join(lines) + " %}"
        if kind == "macro":
            self.counter += 1
            name = f"m{self.counter}"
            body = "{{ p }}{{ k }}" + self.nodes(d + 1, 1, False, in_render) + r.choice(["", "{{ args | join: ',' }}", "{{ kwargs.z }}"])
            self.macros.append(name)
            return self.tag(f"macro {name}, p, k: {self.literal()}") + body + self.tag("endmacro")
        if kind == "call":
            name = r.choice(self.macros + (["nomacro"] if self.weird else []))
            args = r.choice(["", f", {self.primitive()}", f", {self.primitive()}, k: {self.primitive()}",
                             f", {self.primitive()}, {self.primitive()}, {self.primitive()}, z: {self.primitive()}"])
            return self.tag(f"call {name}{args}")
        if kind == "translate":
            args = r.choice(["", "you: b", "you: o.x, count: n", "count: xs.size", "context: 'c', you: s"])
            s = self.tag("translate " + args) + "Hello, {{ you }}!"
            if r.random() < 0.5:
                s += self.tag("plural") + "Hellos {{ count }} {{ you }}"
            return s + self.tag("endtranslate")
        if kind in ("include", "render"):
            if in_render and kind == "include" and r.random() < 0.7:
                kind = "render"
            name = r.choice(PARTIALS + (["nosuch/partial.html"] if self.weird and r.random() < 0.15 else []))
            q = f"'{name}'"
            if kind == "include" and r.random() < 0.15:
                q = "pname"
            x = r.random()
            bind = ""
            if x < 0.3:
                bind = " with " + r.choice(["v", "a", "o.x", "xs", "o", "d"])
            elif x < 0.5:
                bind = " for " + r.choice(["xs", "ys", "o.items", "os", "zs", "a", "(1..9)", "xs"])
            if bind and r.random() < 0.3:
                bind += " as " + r.choice(["foo", "item", "q"])
            kw = ""
            if r.random() < 0.4:
                kw = ("," if bind else "") + f" extra: {self.primitive()}" + (f", more: {self.primitive()}" if r.random() < 0.4 else "")
                if not bind:
                    kw = "," + kw if r.random() < 0.5 else kw
            return self.tag(f"{kind} {q}{bind}{kw}")
        return ""

    # ------------------------------------------------------------- templates
    def partial_source(self, idx: int, name: str) -> str:
        """Partials print the variable that with/for binds to them, then a small
        body; partial i may only include partials j > i (no cycles)."""
        r = self.r
        key = PARTIAL_KEYS[name]
        s = f"[{key}={{{{ {key} }}}}|{{{{ {key}.x }}}}|{{{{ extra }}}}{{{{ forloop.index }}}}"
        save = self.partials
        self.partials = False
        s += self.nodes(self.max_depth - 1, r.choice([0, 1, 2]))
        self.partials = save
        later = PARTIALS[idx + 1:]
        if later and r.random() < 0.5:
            nm = r.choice(later)
            s += self.tag(f"{r.choice(['render', 'render', 'include'])} '{nm}'" + r.choice(["", " with a", f" for xs as {PARTIAL_KEYS[nm]}"]))
        return s + "]"

    def template_set(self) -> tuple[str, dict[str, str]]:
        """(name of the template to render, all templates)."""
        r = self.r
        tpls: dict[str, str] = {}
        for i, n in enumerate(PARTIALS):
            tpls[n] = self.partial_source(i, n)
        x = r.random()
        main = r.choice(["main", "pages/main.html", "pages/sub/index.liquid"])
        if x < 0.75:
            tpls[main] = self.nodes(0, r.choice([2, 3, 4, 5]))
        else:
            # inheritance chain: main extends layouts/mid.html extends layouts/base.html
            blocks = ["head", "body", "foot"]
            base = "B:" + "".join(
                self.tag(f"block {b}" + (" required" if self.weird and r.random() < 0.08 else "")) + self.nodes(1, 1) + self.tag("endblock")
                for b in blocks) + self.nodes(1, 1)
            tpls["layouts/base.html"] = base
            depth = r.choice([1, 2, 3])
            parent = "layouts/base.html"
            for lvl in range(depth - 1):
                nm = f"layouts/mid{lvl}.html"
                src = self.tag(f"extends '{parent}'")
                for b in r.sample(blocks, r.choice([0, 1, 2])):
                    src += self.tag(f"block {b}") + r.choice(["", "{{ block.super }}"]) + self.nodes(1, 1) + self.tag("endblock")
                tpls[nm] = src
                parent = nm
            src = self.tag(f"extends '{parent}'")
            for b in r.sample(blocks, r.choice([1, 2, 3])):
                src += self.tag(f"block {b}") + r.choice(["", "{{ block.super }}", "{{ block.super }}"]) + self.nodes(1, r.choice([1, 2])) + self.tag("endblock")
            if self.weird and r.random() < 0.1:
                src += self.tag("block nosuch") + "z" + self.tag("endblock")
            tpls[main] = src
        return main, tpls


# ----------------------------------------------------------------------- data

class LazyDrop:
    """A drop whose items are awaited lazily on the async path
    (`__getitem_async__`) and read directly on the sync path.  `pause` is an
    awaitable factory: the schedule driver passes one that suspends the
    coroutine, the plain comparison passes asyncio.sleep(0)."""

    def __init__(self, items: dict[str, Any], pause: Any = None) -> None:
        self._items = items
        self._pause = pause
        self.sync_reads = 0
        self.async_reads = 0

    def __getitem__(self, key: Any) -> Any:
        self.sync_reads += 1
        return self._items[key]

    async def __getitem_async__(self, key: Any) -> Any:
        self.async_reads += 1
        if self._pause is not None:
            await self._pause()
        return self._items[key]

    def __contains__(self, key: Any) -> bool:
        return key in self._items

    def __len__(self) -> int:
        return len(self._items)

    def __iter__(self) -> Any:
        return iter(self._items)

    def __str__(self) -> str:
        return "LazyDrop"


def make_data(r: random.Random, pause: Any = None) -> dict[str, Any]:
    def scalar() -> Any:
        return r.choice([0, 1, 2, 3, -1, "x", "k", "a b", "<i>", "", True, False, None, 1.5, "2"])

    def drop(depth: int = 0) -> LazyDrop:
        items: dict[str, Any] = {
            "x": scalar(), "y": scalar(), "key": r.choice(["k", "t", "x"]), "idx": r.choice([0, 1, 2]),
            "items": [r.choice([1, 2, 3, "x"]) for _ in range(r.choice([0, 1, 3]))],
        }
        if r.random() < 0.3:
            items["size"] = r.choice([7, "big"])
        if r.random() < 0.3:
            items["first"] = "F"
        if depth < 1:
            items["nested"] = drop(depth + 1)
        return LazyDrop(items, pause)

    n = r.choice([0, 1, 2, 3, 5])
    return {
        "a": scalar(), "b": r.choice(["k", "t", "x", "b", ""]), "c": scalar(), "n": n, "s": r.choice(["x", "a,b", "<b>", "", "hello world"]),
        "xs": [r.choice([1, 2, 3, 4, "x", None]) for _ in range(r.choice([0, 1, 2, 3, 5]))],
        "ys": [{"k": r.choice([1, 2, "x"]), "t": r.choice(["p", "q", None]), "x": scalar()} for _ in range(r.choice([0, 1, 2, 3]))],
        "zs": [],
        "d": {"k": scalar(), "t": scalar(), "inner": {"k": scalar()}, **({"size": "S"} if r.random() < 0.2 else {})},
        "o": drop(), "os": [drop(1) for _ in range(r.choice([0, 1, 2]))],
        "v": r.choice(["V", 7, None]), "pname": r.choice(PARTIALS),
    }
