"""C03 static tie: pair every sync method of liquid2 with its `*_async` twin,
normalise the async twin and diff the ASTs.

Run on every check from the working tree named by LIQUID2_REPO (default
/repo).  For each class (and each module's top level) a function `foo` is
paired with `foo_async` (and `__getitem__`-style dunder pairs `__x__` /
`__x_async__`).  The async twin is NORMALISED:

  * `async def`  -> `def`, `async for` -> `for`, `async with` -> `with`,
    async comprehensions -> plain comprehensions;
  * `await e`    -> `e`;
  * every identifier / attribute / keyword that ends in `_async` (or
    `_async__`) is renamed to its sync name;
  * docstrings, parameter / variable / return annotations are dropped, on
    both sides (`x: T = e` becomes `x = e`);
  * a generator expression that is the only argument of `dict`, `sum`, `list`,
    `tuple` or `str.join` becomes a list comprehension, on both sides (the
    consumer always drains it, so laziness cannot be observed; the lemma
    `twin_drain_eq` of Kernels/AsyncTwin.v is the model of this rule).
    `any` / `all` / `next` are NOT in the list: they stop early.

Twins whose normalised ASTs are identical are *structurally equal*.  The rest
are the TEXTUAL DIFFERENCES: each needs a reviewed entry in
`c03_twins_reviewed.json` naming the model/theorem (Kernels/AsyncTwin.v) or
the dynamic comparison that covers it.  The entry pins a digest of both
normalised bodies, so any later edit of either twin is a NEW difference.

Normalisation alone would hide two realistic mistakes, so two more facts are
extracted from every async function and pinned in the same way:

  * `sync_calls`: calls, inside an async function, of a method name `m` for
    which some class of liquid2 defines `m_async` (e.g. a child's `evaluate`
    called from `evaluate_async`: an async drop would never be awaited);
  * `unawaited`: calls of a `*_async` name that are not directly awaited
    (nor handed to asyncio.gather / create_task / ensure_future).

Finally, classes that define only one half of a pair whose other half is
inherited (`render_to_output` without `render_to_output_async` …) are listed
as `unpaired`; they are pinned too.

`python -m harness.c03_twins` prints the report; `--write-reviewed` prints a
skeleton of the allow-list for the current tree (to be reviewed by hand).
"""

from __future__ import annotations

import ast
import copy
import difflib
import hashlib
import json
import os
import sys
from pathlib import Path
from typing import Any

REVIEWED = Path(__file__).resolve().parent / "c03_twins_reviewed.json"


def repo_root() -> Path:
    return Path(os.environ.get("LIQUID2_REPO", "/repo"))


def sync_name(name: str) -> str | None:
    """The sync name of an async-flavoured identifier, or None."""
    if name.endswith("_async__") and name.startswith("__"):
        return name[: -len("_async__")] + "__"
    if name.endswith("_async") and len(name) > len("_async"):
        return name[: -len("_async")]
    return None


def async_names(name: str) -> list[str]:
    if name.startswith("__") and name.endswith("__") and len(name) > 4:
        return [name[:-2] + "_async__"]
    return [name + "_async"]


DRAINERS = {"dict", "sum", "list", "tuple", "join"}


class _Normalise(ast.NodeTransformer):
    def _rn(self, s: str) -> str:
        return sync_name(s) or s

    def visit_AsyncFunctionDef(self, node: ast.AsyncFunctionDef) -> ast.AST:
        self.generic_visit(node)
        new = ast.FunctionDef(
            name=self._rn(node.name), args=node.args, body=node.body,
            decorator_list=node.decorator_list, returns=node.returns,
            type_comment=node.type_comment, type_params=getattr(node, "type_params", []))
        return ast.copy_location(new, node)

    def visit_FunctionDef(self, node: ast.FunctionDef) -> ast.AST:
        self.generic_visit(node)
        node.name = self._rn(node.name)
        return node

    def visit_Await(self, node: ast.Await) -> ast.AST:
        return self.visit(node.value)

    def visit_AsyncFor(self, node: ast.AsyncFor) -> ast.AST:
        self.generic_visit(node)
        return ast.copy_location(ast.For(target=node.target, iter=node.iter, body=node.body,
                                         orelse=node.orelse, type_comment=node.type_comment), node)

    def visit_AsyncWith(self, node: ast.AsyncWith) -> ast.AST:
        self.generic_visit(node)
        return ast.copy_location(ast.With(items=node.items, body=node.body,
                                          type_comment=node.type_comment), node)

    def visit_comprehension(self, node: ast.comprehension) -> ast.AST:
        self.generic_visit(node)
        node.is_async = 0
        return node

    def visit_Name(self, node: ast.Name) -> ast.AST:
        node.id = self._rn(node.id)
        return node

    def visit_Attribute(self, node: ast.Attribute) -> ast.AST:
        self.generic_visit(node)
        node.attr = self._rn(node.attr)
        return node

    def visit_keyword(self, node: ast.keyword) -> ast.AST:
        self.generic_visit(node)
        if node.arg:
            node.arg = self._rn(node.arg)
        return node

    def visit_arg(self, node: ast.arg) -> ast.AST:
        node.annotation = None
        node.arg = self._rn(node.arg)
        return node

    def visit_AnnAssign(self, node: ast.AnnAssign) -> ast.AST:
        self.generic_visit(node)
        if node.value is None:
            return ast.copy_location(ast.Pass(), node)
        return ast.copy_location(ast.Assign(targets=[node.target], value=node.value), node)

    def visit_Call(self, node: ast.Call) -> ast.AST:
        self.generic_visit(node)
        f = node.func
        nm = f.attr if isinstance(f, ast.Attribute) else f.id if isinstance(f, ast.Name) else ""
        if nm in DRAINERS and len(node.args) == 1 and not node.keywords \
                and isinstance(node.args[0], ast.GeneratorExp):
            g = node.args[0]
            node.args = [ast.copy_location(ast.ListComp(elt=g.elt, generators=g.generators), g)]
        return node


def _strip(fn: ast.AST) -> ast.AST:
    """Drop the docstring, return annotation and decorators that cannot matter
    (none are dropped: decorators stay)."""
    fn = copy.deepcopy(fn)
    body = fn.body  # type: ignore[attr-defined]
    if body and isinstance(body[0], ast.Expr) and isinstance(body[0].value, ast.Constant) \
            and isinstance(body[0].value.value, str):
        body = body[1:] or [ast.Pass()]
    fn.body = body  # type: ignore[attr-defined]
    # Return annotations differ legitimately (Awaitable[...] etc.)
    fn.returns = None  # type: ignore[attr-defined]
    return fn


def normalise(fn: ast.AST) -> ast.AST:
    out = _Normalise().visit(_strip(fn))
    ast.fix_missing_locations(out)
    return out


def _dump(fn: ast.AST) -> str:
    return ast.dump(fn, annotate_fields=True, include_attributes=False)


def _text(fn: ast.AST) -> str:
    return ast.unparse(fn)


GATHERERS = {"gather", "create_task", "ensure_future", "wait_for", "run", "run_until_complete"}

# `get` is also dict.get / ChainMap.get: it only counts as the sync half of
# RenderContext.get_async when the receiver is a render context.
CONTEXT_NAMES = {"context", "static_context", "ctx", "macro_context", "render_context"}


def _callee(n: ast.Call) -> tuple[str, str]:
    f = n.func
    if isinstance(f, ast.Attribute):
        try:
            recv = ast.unparse(f.value)
        except Exception:  # noqa: BLE001
            recv = "?"
        return f.attr, recv
    if isinstance(f, ast.Name):
        return f.id, ""
    return "", ""


def _twin_calls(fn: ast.AST, twin_bases: set[str], in_context_class: bool) -> dict[str, int]:
    """Calls of names that have an async flavour somewhere in the package."""
    out: dict[str, int] = {}
    for n in ast.walk(fn):
        if not isinstance(n, ast.Call):
            continue
        nm, recv = _callee(n)
        if nm not in twin_bases:
            continue
        if nm == "get" and not (recv in CONTEXT_NAMES or (recv == "self" and in_context_class)):
            continue
        out[nm] = out.get(nm, 0) + 1
    return out


def _async_facts(fn: ast.AST, twin_bases: set[str], in_context_class: bool = False) -> tuple[list[str], list[str]]:
    """(sync_calls, unawaited) of an async function, as sorted lists of
    'callee x occurrence-count'."""
    awaited: set[int] = set()
    for n in ast.walk(fn):
        if isinstance(n, ast.Await):
            awaited.add(id(n.value))
        if isinstance(n, ast.Call):
            nm, _ = _callee(n)
            if nm in GATHERERS:
                for a in n.args:
                    awaited.add(id(a))
                    if isinstance(a, ast.Starred):
                        awaited.add(id(a.value))
                        if isinstance(a.value, (ast.ListComp, ast.GeneratorExp)):
                            awaited.add(id(a.value.elt))
                    if isinstance(a, (ast.ListComp, ast.GeneratorExp)):
                        awaited.add(id(a.elt))
    unawaited: dict[str, int] = {}
    # nested sync `def`s inside an async function are scanned too: they run
    # inside the coroutine.
    for n in ast.walk(fn):
        if not isinstance(n, ast.Call):
            continue
        nm, _ = _callee(n)
        if nm and sync_name(nm) and id(n) not in awaited:
            unawaited[nm] = unawaited.get(nm, 0) + 1
    sync_calls = _twin_calls(fn, twin_bases, in_context_class)
    return (sorted(f"{k}x{v}" for k, v in sync_calls.items()),
            sorted(f"{k}x{v}" for k, v in unawaited.items()))


def _functions(body: list[ast.stmt]) -> dict[str, ast.AST]:
    out: dict[str, ast.AST] = {}
    for st in body:
        if isinstance(st, (ast.FunctionDef, ast.AsyncFunctionDef)):
            # @overload stubs: keep the last definition (the implementation)
            out[st.name] = st
    return out


def _simple(base: str) -> str:
    base = base.split("[", 1)[0]
    return base.rsplit(".", 1)[-1].strip()


def _scopes(tree: ast.Module) -> list[tuple[str, list[ast.stmt], list[str]]]:
    """(qualified class name or '<module>', body, base names)."""
    out: list[tuple[str, list[ast.stmt], list[str]]] = [("<module>", tree.body, [])]

    def rec(prefix: str, body: list[ast.stmt]) -> None:
        for st in body:
            if isinstance(st, ast.ClassDef):
                q = f"{prefix}{st.name}"
                bases = [_simple(ast.unparse(b)) for b in st.bases]
                out.append((q, st.body, bases))
                rec(q + ".", st.body)
            elif isinstance(st, (ast.FunctionDef, ast.AsyncFunctionDef, ast.If, ast.Try, ast.With)):
                rec(prefix, [s for s in ast.iter_child_nodes(st) if isinstance(s, ast.stmt)])
    rec("", tree.body)
    return out


def digest(*parts: Any) -> str:
    return hashlib.sha256(json.dumps(parts, sort_keys=True).encode()).hexdigest()[:16]


def _hunks(a: str, b: str) -> list[str]:
    """Only the changed lines of a diff (no context, no line numbers): the
    digest of a reviewed difference must survive an edit that is applied to
    both twins alike somewhere else in the function."""
    return [l for l in difflib.unified_diff(a.splitlines(), b.splitlines(), lineterm="", n=0)
            if (l.startswith("+") or l.startswith("-")) and not l.startswith(("+++", "---"))]


def scan(root: Path | None = None) -> dict[str, Any]:
    """Scan the tree.  Returns
      pairs      key -> record of a sync/async pair defined in the same scope
      unpaired   key -> a half whose other half is inherited and that needs review
      delegated  keys of sync-only overrides whose inherited async half delegates
                 to them and that call nothing with an async flavour (safe by
                 construction, given the reviewed delegating base methods)
      lone_async key -> async function without any sync namesake."""
    root = root or repo_root()
    pkg = root / "liquid2"
    files = sorted(pkg.rglob("*.py"))
    trees: list[tuple[str, ast.Module]] = []
    errors: list[str] = []
    for f in files:
        try:
            trees.append((str(f.relative_to(root)), ast.parse(f.read_text(), filename=str(f))))
        except SyntaxError as e:
            errors.append(f"{f}: {e}")
    if not trees:
        errors.append(f"no python files under {pkg}")
    # Every name that has an async flavour anywhere in the package.
    twin_bases: set[str] = set()
    all_defs: set[str] = set()
    classes: dict[str, list[tuple[list[str], set[str]]]] = {}
    for _, tree in trees:
        for n in ast.walk(tree):
            if isinstance(n, (ast.FunctionDef, ast.AsyncFunctionDef)):
                all_defs.add(n.name)
                s = sync_name(n.name)
                if s:
                    twin_bases.add(s)
        for cls, body, bases in _scopes(tree):
            if cls != "<module>":
                classes.setdefault(cls.rsplit(".", 1)[-1], []).append((bases, set(_functions(body))))

    def inherits(bases: list[str], meth: str) -> str | None:
        """Name of the nearest ancestor (breadth first) that defines `meth`."""
        seen: set[str] = set()
        todo = list(bases)
        while todo:
            b = todo.pop(0)
            if b in seen:
                continue
            seen.add(b)
            for bb, fns in classes.get(b, []):
                if meth in fns:
                    return b
                todo += bb
        return None

    # (class, sync name) whose async half is exactly `return self.<sync>(...)`
    delegating: set[tuple[str, str]] = set()
    for _, tree in trees:
        for cls, body, _bases in _scopes(tree):
            for name, fn in _functions(body).items():
                sn_ = sync_name(name)
                if not sn_ or not isinstance(fn, ast.AsyncFunctionDef):
                    continue
                b = _strip(fn).body  # type: ignore[attr-defined]
                if len(b) == 1 and isinstance(b[0], ast.Return) and isinstance(b[0].value, ast.Call):
                    f = b[0].value.func
                    if isinstance(f, ast.Attribute) and f.attr == sn_ and isinstance(f.value, ast.Name) and f.value.id == "self":
                        delegating.add((cls.rsplit(".", 1)[-1], sn_))

    pairs: dict[str, Any] = {}
    unpaired: dict[str, Any] = {}
    lone_async: dict[str, Any] = {}
    delegated: list[str] = []
    for rel, tree in trees:
        for cls, body, bases in _scopes(tree):
            fns = _functions(body)
            in_ctx = cls == "RenderContext"
            for name, fn in sorted(fns.items()):
                s = sync_name(name)
                key_base = f"{rel}::{cls}."
                if s is None:
                    # a sync function: does its twin exist here?
                    if any(a in fns for a in async_names(name)):
                        continue  # handled from the async side
                    anc = None
                    if name in twin_bases and cls != "<module>":
                        for a in async_names(name):
                            anc = anc or inherits(bases, a)
                    if anc is not None:
                        # sync half overridden alone.  Safe when the inherited
                        # async half delegates to it (then async = sync) and it
                        # calls nothing that has an async flavour (else an
                        # awaitable below it is never awaited).
                        tc = _twin_calls(fn, twin_bases, in_ctx)
                        if not tc and (anc, name) in delegating:
                            delegated.append(key_base + name)
                            continue
                        sn = normalise(fn)
                        tcl = sorted(f"{k}x{v}" for k, v in tc.items())
                        unpaired[key_base + name] = {
                            "kind": "sync-only", "bases": bases, "twin_calls": tcl,
                            "async_half_from": anc, "async_half_delegates": (anc, name) in delegating,
                            "digest": digest("sync-only", tcl, anc, (anc, name) in delegating),
                            "text": _text(sn),
                        }
                    continue
                sc, un = _async_facts(fn, twin_bases, in_ctx) if isinstance(fn, ast.AsyncFunctionDef) else ([], [])
                if s not in fns:
                    an = normalise(fn)
                    rec = {"kind": "async-only", "bases": bases,
                           "is_coroutine": isinstance(fn, ast.AsyncFunctionDef),
                           "sync_calls": sc, "unawaited": un,
                           "digest": digest("async-only", _dump(an), sc, un),
                           "text": _text(an)}
                    if cls == "<module>" or s not in all_defs:
                        lone_async[key_base + name] = rec
                    else:
                        unpaired[key_base + name] = rec
                    continue
                sn = normalise(fns[s])  # the identity unless the sync half mentions *_async names
                an = normalise(fn)
                sd, ad = _dump(sn), _dump(an)
                equal = sd == ad
                st, at = _text(sn), _text(an)
                diff = [] if equal else list(difflib.unified_diff(
                    st.splitlines(), at.splitlines(), "sync", "async(normalised)", lineterm="", n=1))
                pairs[key_base + s] = {
                    "equal": equal,
                    "is_coroutine": isinstance(fn, ast.AsyncFunctionDef),
                    "sync_calls": sc, "unawaited": un,
                    "digest": digest("pair", _hunks(st, at), sc, un, isinstance(fn, ast.AsyncFunctionDef)),
                    "diff": diff,
                    "lines": (fns[s].lineno, fn.lineno),  # type: ignore[attr-defined]
                }
    return {"pairs": pairs, "unpaired": unpaired, "lone_async": lone_async,
            "delegated": sorted(delegated),
            "files": len(files), "errors": errors, "twin_bases": sorted(twin_bases)}


def needs_review(rec: dict[str, Any]) -> bool:
    if "equal" in rec:
        return (not rec["equal"]) or bool(rec["sync_calls"]) or bool(rec["unawaited"]) \
            or not rec["is_coroutine"]
    return True


def compare(report: dict[str, Any], reviewed: dict[str, Any] | None = None) -> dict[str, Any]:
    """Compare a scan with the committed allow-list.  Returns
    {"new": [...], "changed": [...], "stale": [...], "covered": {...}}."""
    if reviewed is None:
        reviewed = json.loads(REVIEWED.read_text()) if REVIEWED.exists() else {"entries": {}}
    entries: dict[str, Any] = reviewed.get("entries", {})
    new, changed, stale = [], [], []
    covered: dict[str, str] = {}
    seen = set()
    for group in ("pairs", "unpaired", "lone_async"):
        for key, rec in report[group].items():
            if not needs_review(rec):
                continue
            seen.add(key)
            e = entries.get(key)
            if e is None:
                new.append(key)
            elif e.get("digest") != rec["digest"]:
                changed.append(key)
            else:
                covered[key] = e.get("covered_by", "")
                if not e.get("covered_by"):
                    new.append(key)
    for key in entries:
        if key not in seen:
            stale.append(key)
    # pairs that must exist: the allow-list also records the number of
    # structurally equal pairs seen at review time; a pair that disappears
    # (async twin deleted => the inherited default runs) shows up as
    # `unpaired`, which is handled above.
    return {"new": sorted(new), "changed": sorted(changed), "stale": sorted(stale), "covered": covered}


def skeleton(report: dict[str, Any], old: dict[str, Any] | None = None) -> dict[str, Any]:
    old_entries = (old or {}).get("entries", {})
    entries: dict[str, Any] = {}
    for group in ("pairs", "unpaired", "lone_async"):
        for key, rec in report[group].items():
            if not needs_review(rec):
                continue
            prev = old_entries.get(key, {})
            entries[key] = {
                "digest": rec["digest"],
                "covered_by": prev.get("covered_by", ""),
                "note": prev.get("note", ""),
            }
    return {"comment": (old or {}).get("comment", ""), "entries": entries}


def main(argv: list[str]) -> int:
    rep = scan()
    if "--write-reviewed" in argv:
        old = json.loads(REVIEWED.read_text()) if REVIEWED.exists() else None
        print(json.dumps(skeleton(rep, old), indent=1))
        return 0
    eq = [k for k, r in rep["pairs"].items() if not needs_review(r)]
    print(f"{rep['files']} files, {len(rep['pairs'])} twin pairs, {len(eq)} structurally equal and fully awaited")
    for group in ("pairs", "unpaired", "lone_async"):
        for key, rec in rep[group].items():
            if not needs_review(rec):
                continue
            print("=" * 78)
            print(group, key, rec["digest"], {k: rec[k] for k in ("sync_calls", "unawaited", "is_coroutine", "kind", "bases") if k in rec and rec[k] not in ([], True)})
            if "--quiet" in argv:
                continue
            if rec.get("diff"):
                print("\n".join(rec["diff"]))
            elif "text" in rec and "--text" in argv:
                print(rec["text"])
    cmp_ = compare(rep)
    print("=" * 78)
    print("new:", cmp_["new"])
    print("changed:", cmp_["changed"])
    print("stale:", cmp_["stale"])
    return 1 if (cmp_["new"] or cmp_["changed"] or cmp_["stale"] or rep["errors"]) else 0


if __name__ == "__main__":
    sys.exit(main(sys.argv[1:]))
