"""Replace patch-file references in known_findings.d/*.json by the /repo commit
that applied the patch (matched by subject line). Run by hand after `git am`."""

from __future__ import annotations

import json
import re
import subprocess
from pathlib import Path

VERIF = Path(__file__).resolve().parent.parent


def main() -> None:
    log = subprocess.run(["git", "-C", "/repo", "log", "--format=%h %s"], capture_output=True, text=True).stdout
    by_subject = {}
    for line in log.splitlines():
        h, _, subj = line.partition(" ")
        by_subject[" ".join(subj.split())] = h
    for f in sorted((VERIF / "known_findings.d").glob("*.json")):
        data = json.loads(f.read_text())
        changed = False
        for e in data["findings"]:
            c = e.get("commit", "") or ""
            if not c and e.get("status") == "fixed":
                mm = re.search(r"proposed_fixes/(C\d+)/(\d{4})", e.get("what", ""))
                if mm:
                    c = f"{mm.group(1)}/{mm.group(2)}"
            m = re.search(r"(proposed_fixes/)?(C\d+/\d{4}[^\s\"']*\.patch)", c)
            if not m:
                # bare references such as "C02/0004"
                m2 = re.fullmatch(r"\s*(C\d+)/(\d{4})\s*", c)
                if not m2:
                    continue
                cands = list((VERIF / "proposed_fixes" / m2.group(1)).glob(m2.group(2) + "-*.patch"))
                if not cands:
                    continue
                pf = cands[0]
            else:
                pf = VERIF / "proposed_fixes" / m.group(2)
            if not pf.exists():
                continue
            txt = pf.read_text()
            sm = re.search(r"^Subject: (?:\[PATCH[^\]]*\] )?(.*?)(?=\n\S|\n\n)", txt, re.S | re.M)
            if not sm:
                continue
            subj = " ".join(sm.group(1).split())
            if subj in by_subject:
                e["commit"] = by_subject[subj]
                changed = True
        if changed:
            f.write_text(json.dumps(data, indent=1, ensure_ascii=False) + "\n")
            print("updated", f.name)


if __name__ == "__main__":
    main()
