"""C02 — parsing and rendering are total over the LiquidError error model.

Proved part (Properties/C02.v): the scanner (Kernels/Lex.v) and the error
formatter (Kernels/ErrCtx.v).  Tie: (a) LiquidError._error_context and
messages.line_number against the model on generated (text, index) pairs, all
line-boundary characters, indexes up to and past the end; (b) the lexer model on
a malformed stream (prefixes, single edits, random strings) with, for every
error, `exc.context()` against `error_context source index`.
Direct oracle (failing-input search, also over the UNMODELLED parser and
renderer): only LiquidError subclasses escape tokenize / from_string / render /
render_async and `str(e)`, `e.detailed_message()`, `e.context()` do not raise,
on mutants of the compliance-suite templates rendered with type-confused data.
Findings are keyed by (exception type, innermost liquid2 function).
"""

from __future__ import annotations

import asyncio
import json
import re
import signal
import datetime
import decimal
import warnings
from typing import Any

from . import common as C
from . import lexdump as L
from . import c02gen as G2
from . import lexgen as G
from .c17 import GROUP, SHARDS, Cases

IMPORTS = "From LQ Require Import Kernels.LexUni Kernels.Lex Kernels.ErrCtx."
NEEDED = ["theories/Base/Str.v", "theories/Kernels/LexUni.v", "theories/Kernels/Lex.v",
          "theories/Kernels/ErrCtx.v", "theories/Proofs/LexMatch_proofs.v",
          "theories/Proofs/Lex_proofs.v", "theories/Proofs/ErrCtx_proofs.v"]
# (Proofs/LexNest_proofs.v and LexText_proofs.v belong to C17; C02's theorems do not depend on them)

LINEBREAKS = ["\n", "\r", "\r\n", "\x0b", "\x0c", "\x1c", "\x1d", "\x1e", "\x85", "\u2028", "\u2029"]
SPACES = [" ", "\t", "\xa0", "\u2003", "\u3000", "\x1f"]

# Known C02 defects (DESIGN section 10, rows 4-7): re-observed on every run.
KNOWN_WITNESSES = [
    # still present (known findings): re-observed so that KNOWN-FINDING is printed only while they are there
    # repaired (proposed_fixes/C02, C17, C19, C20): must stay repaired
    ("{{ [1] }}", {}), ("{{ [a.b] }}", {"a": {"b": 1}}), ("{% if [1] %}t{% endif %}{{ [a] }}{{ [a].x }}", {"a": 10 ** 5000}),
    ("{{ 1e400 }}", {}), ("{% assign x = 1e400 %}{{ x }}", {}), ("{{ a | compact: 'title' }}", {"a": {}}),
    ("{{ s | truncate: x }}", {"s": "abc", "x": float("inf")}), ("{{ s | slice: x }}", {"s": "abc", "x": float("inf")}),
    ("{% translate count: a %}a{% plural %}b{% endtranslate %}", {"a": {}}),
    ("{{ a | map: () => i.x }}", {"a": [{"x": 1}]}),
    ("{% for i in r %}{% break %}{% endfor %}{{ r.size }}{{ r | size }}{{ r | first }}{{ r | last }}{{ r }}", {"r": range(0, 10 ** 30)}),
    ("{% for i in r limit: 2 %}{{ i }}{% endfor %}{{ r.first }}{{ r.last }}", {"r": range(-(10 ** 30), 10 ** 30, 7)}),
    ("{{ x | date: '%Y' }}", {"x": "9" * 40}), ("{{ '-10152098955' | date: '%m/%d/%Y' }}", {}),
    ("{% for i in (1..2) %}{% for j in forloop %}{{ j }}{% endfor %}{% endfor %}", {}),
    ("{% for i in (1..2) %}{{ forloop | join: ',' }}{{ forloop | first }}{{ forloop | map: 'x' }}{% if forloop == x %}{% endif %}{% endfor %}", {"x": {}}),
    ("{{ 1 if c in d }}{% if d contains c %}y{% endif %}", {"c": [1], "d": {"a": 1}}), ("{% if d contains c %}y{% endif %}", {"c": {}, "d": {"a": 1}}),
    ("{{ x }}", {"x": 10 ** 5000}), ("{{ x | append: '' }}{{ x | json }}", {"x": 10 ** 5000}), ("{{ 10 | times: x | times: x }}", {"x": 10 ** 3000}),
    ("{{ (x..x) }}{% for i in x %}{% endfor %}", {"x": 10 ** 5000}), ("{% if 'a' contains x %}{% endif %}{{ \"${x}\" }}", {"x": 10 ** 5000}),
    ("{{ x | uniq: 0 }}{{ x | compact: 0 }}", {"x": ["", "a"]}), ("{{ x | sum }}", {"x": [float("inf"), float("-inf")]}),
    ("{{ x | sum }}", {"x": ["1e999", "-1e999"]}), ("{{ x | currency }}{{ x | decimal }}", {"x": 10 ** 400}), ("{{ 'nan' | unit: 'a' }}{{ 'inf' | datetime }}", {}),
    ("{{ 'inf' | ceil }}", {}), ("{{ 'nan' | ceil }}", {}), ("{{ 'inf' | floor }}", {}),
    ("{{ 'inf' | round }}", {}), ("{{ x | modulo: 0.0 }}", {"x": 5}), ("{{ 'inf' | minus: 'inf' }}", {}),
    ("{{ '50%' | t }}", {}), ("{{ '%(x)d' | t: x: 1 }}", {}),
    ("{% for i in a limit: -1 %}{{ i }}{% endfor %}", {"a": [1, 2, 3]}),
    ("{% for i in a offset: -1 %}{{ i }}{% endfor %}", {"a": [1, 2, 3]}),
    ("{% for i in a offset: x %}{{ i }}{% endfor %}", {"a": [1, 2, 3], "x": 10 ** 400}),
    ("{{ (1..a) | first }}", {"a": {}}), ("{{ a | sum }}", {"a": "abc"}),
    ("{% for i in (1..x) %}{{ i }}{% endfor %}", {"x": 10 ** 400}), ("{{ (1..x) | size }}", {"x": 10 ** 400}),
    ("{{ '", {}), ("{{ ..1) }}", {}), ("{{ \"${ (1..3) }\" }}", {}), ("{{", {}), ("{% liquid", {}),
    ("{% comment %}", {}), ("{{ a b", {}),
]


def _dd() -> Any:
    import collections
    d: Any = collections.defaultdict(list)
    d["a"], d["b"] = 1, 2
    return d


_W_TEMPLATES = {"inc": "{% macro m %}{% extends 'base' %}{% endmacro %}{% call m %}", "base": "{% block b %}{% endblock %}",
                "mac": "{% call m %}", "ext": "{% extends 'base' %}{% block b %}x{% endblock %}"}
# (shopify environment?, source, data) -- rendered with _W_TEMPLATES loadable; repaired by proposed_fixes/C02/0022-0032
KNOWN_WITNESSES_2 = [
    (False, "{{ a | map: k: 1 => 2 }}", {"a": [1]}), (False, "{{ a | map: k: (1) => 2 }}", {"a": [1]}), (False, "{{ a | where: 1 => 2 }}", {"a": [1]}),
    (False, "{% include 'inc' %}", {}), (False, "{% macro m %}{% extends 'base' %}{% endmacro %}{% include 'mac' %}", {}),
    (False, "{% if true %}{% extends 'base' %}{% endif %}", {}), (False, "{% for i in (1..2) %}{% extends 'base' %}{% endfor %}", {}),
    (False, "{{ a[" + "9" * 5000 + "] }}", {"a": [1]}), (False, "{{ a." + "9" * 5000 + " }}", {"a": [1]}),
    (False, "{% include x %}", {"x": 10 ** 5000}), (False, "{% render x %}", {"x": 10 ** 5000}),
    (False, "{% translate context: x %}a{% endtranslate %}", {"x": 10 ** 5000}), (False, "{{ 'a' | t: x }}", {"x": 10 ** 5000}),
    (False, "{{ 'x' | t }}", {"translations": 5}), (False, "{% translate %}a{% endtranslate %}", {"translations": "s"}),
    (False, "{{ 'x' | ngettext: 'y', 2 }}", {"translations": [1]}),
    (False, "{% if x < 1 %}{% endif %}", {"x": decimal.Decimal("NaN")}), (False, "{% if x == y %}{% endif %}", {"x": decimal.Decimal("sNaN"), "y": 1}),
    (False, "{% case x %}{% when 1 %}{% endcase %}", {"x": decimal.Decimal("sNaN")}),
    (False, "{{ a | sort }}{{ a | sort_numeric }}{{ a | uniq }}{% if a contains x %}{% endif %}",
     {"a": [decimal.Decimal("NaN"), decimal.Decimal(1), decimal.Decimal("sNaN")], "x": decimal.Decimal("sNaN")}),
    (False, "{% for k in d %}{{ d.zzz }}{% endfor %}", {"d": _dd()}), (False, "{% for k in d %}{{ d[k[0]] }}{{ d.q }}{% endfor %}", {"d": _dd()}),
    (False, "{{ now | datetime: format: 5 }}{{ 1 | datetime: format: x }}", {"now": datetime.datetime(2020, 1, 1), "x": [1]}),
    (False, "{{ x | datetime }}", {"x": 2 ** 62}), (False, "{{ x | datetime: format: 'short' }}", {"x": -(2 ** 62)}),
    (False, "{{ '4611686018427387904' | date: '%Y' }}{{ x | date: '%Y' }}", {"x": str(2 ** 62)}), (False, "{{ x | json: y }}", {"x": {"a": 1}, "y": 2 ** 62}),
    (False, "{{ 10e4299 }}{% for x in (10e4299..10e4299) %}{% endfor %}", {}), (False, "{% cycle 'a${-100e4298}', 1 %}", {}),
    (False, "{% for x in 1000e4297 %}{% endfor %}", {}), (False, "{{ 10e4298 }}{{ \"${-1e4298}\" }}", {}),
    (False, "{{ '<![foo[x]]>' | strip_html }}{{ x | strip_html }}", {"x": "a<b>c</b><![if x]>d<![endif]><![bar[y]]>"}),
    (False, "{{ x | datetime: format: 'g' }}", {"x": datetime.datetime(2020, 1, 1)}),
    (False, "{{ x | datetime }}", {"x": 1, "datetime_format": "yyyy ggg RR"}),
    (False, "{% include 'base' for r %}", {"r": range(10 ** 30)}), (False, "{% include 'base' with r %}", {"r": range(10 ** 30)}),
    (False, "{% render 'base' for r %}{% render 'base' with r %}", {"r": range(10 ** 30)}),
    (False, "{{ x | round: y }}{{ 7 | round: z }}", {"x": {"a": 1}, "y": -(2 ** 62), "z": -(10 ** 30)}),
    (False, '{{ "\\u12\ud800 4" }}', {}), (False, "{{ a['\\u\udc00abc'] }}", {}),
    (True, "{% tablerow i in (1..3) cols: x %}{{ i }}{% endtablerow %}", {"x": [1]}),
    (True, "{% tablerow i in (1..3) cols: x %}{{ i }}{% endtablerow %}", {"x": None}),
    (True, "{% tablerow i in (1..3) cols: nosuch %}{{ i }}{% endtablerow %}", {}),
    (True, "{% tablerow i in (1..3) %}{% for x in tablerowloop %}{{ x }}{% endfor %}{% endtablerow %}", {}),
    (True, "{% tablerow i in (1..2) %}{% if tablerowloop == 1 %}{% endif %}{{ tablerowloop | json }}{% endtablerow %}", {}),
]


def safe_repr(o: Any, depth: int = 0) -> str:
    """repr() that survives ints beyond the int->str digit limit and odd objects."""
    if isinstance(o, bool) or o is None:
        return repr(o)
    if isinstance(o, int):
        return repr(o) if o.bit_length() < 2000 else f"<int of {o.bit_length()} bits, sign {1 if o > 0 else -1}>"
    if isinstance(o, str):
        return repr(o) if len(o) < 200 else repr(o[:40]) + f"...<{len(o)} chars>"
    if depth > 6:
        return "..."
    if isinstance(o, dict):
        return "{" + ", ".join(f"{safe_repr(k, depth + 1)}: {safe_repr(v, depth + 1)}" for k, v in list(o.items())[:20]) + "}"
    if isinstance(o, (list, tuple)):
        inner = ", ".join(safe_repr(v, depth + 1) for v in list(o)[:20])
        return "[" + inner + "]" if isinstance(o, list) else "(" + inner + ")"
    try:
        return repr(o)
    except Exception:  # noqa: BLE001
        return f"<{type(o).__name__}>"


class _Timeout(Exception):
    pass


def _alarm(_sig: int, _frm: Any) -> None:
    raise _Timeout()


def deep(n: int) -> Any:
    x: Any = 1
    for _ in range(n):
        x = [x]
    return x


def confused_values() -> list[Any]:
    return ["inf", "nan", "-inf", float("inf"), float("nan"), 10 ** 400, -(10 ** 400), 1e308, -1, 0, 0.0, -0.0,
            1.5, True, False, None, "", " ", "50%", "%(x)d", "abc", "-", "1e400", "9" * 400, [], {}, [1, 2, 3],
            {"a": 1}, [[1], [2]], deep(20), {"a": {"b": {"c": []}}}, ["inf", None, 3], "\u00e9\u2028", "<b>",
            [{"title": "x"}, {"title": None}], range(3), (1, 2), {"size": -1}, "{{ x }}"]


_ENV_CLASSES: dict[tuple, Any] = {}


def env_pair(templates: dict[str, str], cfg: tuple = (True, True, False, False), shopify: bool = False) -> Any:
    """An environment for the oracle. cfg = (resource limits on, suppress blank
    control-flow blocks, auto_escape, shorthand_indexes); see c02gen.CONFIGS.
    shopify: liquid2.shopify.Environment (tablerow and the extra filters)."""
    from liquid2 import DictLoader, Environment

    limits, suppress, esc = cfg[:3]
    shorthand = bool(cfg[3]) if len(cfg) > 3 else False
    cfg = (limits, suppress, esc, shorthand)
    key = (limits, suppress, shorthand, shopify)
    if key not in _ENV_CLASSES:
        base: Any = Environment
        if shopify:
            import liquid2.shopify
            base = liquid2.shopify.Environment
        if limits:
            class E(base):  # type: ignore[misc,valid-type]
                loop_iteration_limit = 3000
                output_stream_limit = 300_000 if suppress else 300
                context_depth_limit = 12
                local_namespace_limit = 20_000
                suppress_blank_control_flow_blocks = suppress
                shorthand_indexes = shorthand
        else:
            class E(base):  # type: ignore[no-redef,misc,valid-type]
                loop_iteration_limit = None
                output_stream_limit = None
                context_depth_limit = 30
                local_namespace_limit = None
                suppress_blank_control_flow_blocks = suppress
                shorthand_indexes = shorthand
        _ENV_CLASSES[key] = E
    env = _ENV_CLASSES[key](loader=DictLoader(templates), auto_escape=esc)
    env._verif_cfg = cfg
    env._verif_shopify = shopify
    return env


def check_exception(chk: C.Check, e: BaseException, where: str, replay: dict[str, Any], stats: dict[str, int]) -> None:
    """Only LiquidError may escape, and it must format without raising."""
    from liquid2.exceptions import LiquidError, LiquidInterrupt, StopRender

    if isinstance(e, _Timeout):
        chk.finding(f"timeout @ {where}", f"{where} did not return within the time limit", replay)
        return
    if isinstance(e, LiquidError):
        stats["liquid_errors"] += 1
        for how in ("__str__", "detailed_message", "context"):
            try:
                getattr(e, how)()
            except Exception as e2:  # noqa: BLE001
                chk.finding(f"PyExc {type(e2).__name__} @ {L.innermost(e2)} in {how}()",
                            f"{type(e).__name__}.{how}() raised {type(e2).__name__}: {e2}",
                            dict(replay, error=type(e).__name__, token_start=getattr(e.token, "start", None)))
        return
    name = type(e).__name__
    if isinstance(e, (LiquidInterrupt, StopRender)):
        name = "LiquidInterrupt" if isinstance(e, LiquidInterrupt) else "StopRender"
    stats["python_exceptions"] += 1
    chk.finding(f"PyExc {name} @ {L.innermost(e)}",
                f"{where} raised {name} ({str(e)[:80]}) instead of a LiquidError", replay)


def _fresh(data: dict[str, Any]) -> dict[str, Any]:
    """A copy of the data for one render: stateful values (iterators inside a
    ForLoop drop) must not carry state from the sync render into the async one."""
    import copy

    try:
        return copy.deepcopy(data)
    except Exception:  # noqa: BLE001
        return data


def _outcome_name(e: BaseException | None) -> str:
    return "ok" if e is None else type(e).__name__


def api_shapes() -> list[tuple[str, dict[str, Any]]]:
    """Ways to call Environment.from_string: the metadata that error decoration
    (template_name, Template.full_name()) later reads."""
    from pathlib import Path

    return [
        ("from_string(src)", {}),
        ("name='t.liquid'", {"name": "t.liquid"}),
        ("name='t.liquid', path='some/dir' (str)", {"name": "t.liquid", "path": "some/dir"}),
        ("path='some/dir/t.liquid' (str)", {"path": "some/dir/t.liquid"}),
        ("name='t', path=Path('some/dir')", {"name": "t", "path": Path("some/dir")}),
        ("path=Path('x/t.html'), globals", {"path": Path("x/t.html"), "globals": {"gg": 1}}),
        ("name='', path='' (str)", {"name": "", "path": ""}),
        ("name='n', overlay_data", {"name": "n", "overlay_data": {"oo": 1}}),
        ("path='/abs/dir/' (str), name='a b'", {"path": "/abs/dir/", "name": "a b"}),
    ]


_API_SHAPES: list[tuple[str, dict[str, Any]]] = []


def run_one(chk: C.Check, env: Any, src: str, data: dict[str, Any], stats: dict[str, int], replay: dict[str, Any]) -> None:
    """from_string, render and render_async of one (source, data) pair: only
    LiquidError may escape, every LiquidError must format, and the async twin
    must end like the sync render (same error class, or both succeed).
    The API shape rotates with the case: how from_string is called (name / path
    as str or Path / globals / overlay_data) and whether the template is
    rendered with render()/render_async() or with render_with_context() on a
    caller-built RenderContext. Without resource limits a time-out is not a
    finding (the run is skipped)."""
    import io

    if not _API_SHAPES:
        _API_SHAPES.extend(api_shapes())
    cfg = getattr(env, "_verif_cfg", (True, True, False, False))
    k = stats["parse_render_cases"]
    shape_name, shape_kw = _API_SHAPES[k % len(_API_SHAPES)]
    with_context = (k // len(_API_SHAPES)) % 3 == 2
    replay = dict(replay, config={"limits": cfg[0], "suppress_blank_control_flow_blocks": cfg[1], "auto_escape": cfg[2],
                                  "shorthand_indexes": cfg[3]},
                  environment="liquid2.shopify.Environment" if getattr(env, "_verif_shopify", False) else "liquid2.Environment",
                  api={"from_string": shape_name,
                       "render": "render_with_context(RenderContext(template, global_data=data), StringIO())"
                       if with_context else "render(**data)"})
    stats["parse_render_cases"] += 1

    def report(e: BaseException, where: str) -> None:
        if isinstance(e, _Timeout) and not cfg[0]:
            stats["timeouts_without_limits"] = stats.get("timeouts_without_limits", 0) + 1
            return
        check_exception(chk, e, where, replay, stats)

    # without resource limits a time-out is not a finding: a short alarm is enough there
    budget = 10 if cfg[0] else 3
    signal.alarm(budget)
    try:
        try:
            t = env.from_string(src, **shape_kw)
        except BaseException as e:  # noqa: BLE001
            signal.alarm(0)
            report(e, "from_string")
            return
        stats["parsed"] += 1
        sync_e: BaseException | None = None
        async_e: BaseException | None = None
        try:
            if with_context:
                from liquid2 import RenderContext
                t.render_with_context(RenderContext(t, global_data=_fresh(data)), io.StringIO())
            else:
                t.render(**_fresh(data))
            stats["rendered"] += 1
        except BaseException as e:  # noqa: BLE001
            signal.alarm(0)
            sync_e = e
            report(e, "render")
            if isinstance(e, _Timeout):
                return          # render_async would only time out again
            signal.alarm(budget)
        try:
            loop = asyncio.new_event_loop()
            try:
                if with_context:
                    from liquid2 import RenderContext
                    loop.run_until_complete(
                        t.render_with_context_async(RenderContext(t, global_data=_fresh(data)), io.StringIO()))
                else:
                    loop.run_until_complete(t.render_async(**_fresh(data)))
            finally:
                loop.close()
        except BaseException as e:  # noqa: BLE001
            signal.alarm(0)
            async_e = e
            report(e, "render_async")
        signal.alarm(0)
        if (_outcome_name(sync_e) != _outcome_name(async_e)
                and not isinstance(sync_e, _Timeout) and not isinstance(async_e, _Timeout)):
            chk.finding("render_async ends differently from render",
                        f"render: {_outcome_name(sync_e)}, render_async: {_outcome_name(async_e)}", replay)
    finally:
        signal.alarm(0)


def run_graph(chk: C.Check, env: Any, name: str, stats: dict[str, int], replay: dict[str, Any],
              with_context: bool = False) -> None:
    """Load and render one entry template of a (possibly cyclic) template graph,
    sync and async. RecursionError is reported under one signature whatever
    function happened to be innermost."""
    from liquid2.exceptions import LiquidError

    stats["graph_cases"] += 1

    def report(e: BaseException, where: str) -> None:
        if isinstance(e, RecursionError):
            stats["python_exceptions"] += 1
            chk.finding("PyExc RecursionError @ template graph",
                        f"{where} of a cyclic template graph raised RecursionError instead of ContextDepthError",
                        replay)
        else:
            check_exception(chk, e, where, replay, stats)

    signal.alarm(20)
    try:
        try:
            t = env.get_template(name)
        except BaseException as e:  # noqa: BLE001
            signal.alarm(0)
            report(e, "get_template")
            return
        try:
            if with_context:
                import io
                from liquid2 import RenderContext
                t.render_with_context(RenderContext(t, global_data={}), io.StringIO())
            else:
                t.render()
            stats["rendered"] += 1
        except BaseException as e:  # noqa: BLE001
            signal.alarm(0)
            if isinstance(e, LiquidError):
                stats["graph_liquid_errors"] += 1
            report(e, "render")
            signal.alarm(20)
        try:
            loop = asyncio.new_event_loop()
            try:
                if with_context:
                    import io
                    from liquid2 import RenderContext
                    loop.run_until_complete(t.render_with_context_async(RenderContext(t, global_data={}), io.StringIO()))
                else:
                    loop.run_until_complete(t.render_async())
            finally:
                loop.close()
        except BaseException as e:  # noqa: BLE001
            signal.alarm(0)
            report(e, "render_async")
    finally:
        signal.alarm(0)


WORD = re.compile(r"[A-Za-z_][A-Za-z0-9_]*")
RESERVED = {"true", "false", "nil", "null", "and", "or", "not", "in", "contains", "if", "else", "with", "as",
            "for", "required", "endif", "endfor", "elsif", "unless", "endunless", "case", "when", "endcase",
            "assign", "capture", "endcapture", "echo", "liquid", "raw", "endraw", "comment", "endcomment",
            "render", "include", "limit", "offset", "reversed", "cols", "tablerow", "endtablerow", "break",
            "continue", "cycle", "increment", "decrement", "forloop", "block", "endblock", "extends", "macro",
            "endmacro", "call", "translate", "endtranslate", "plural", "empty", "blank"}


def confuse(r: Any, src: str, base_data: dict[str, Any], vals: list[Any]) -> dict[str, Any]:
    data = dict(base_data) if isinstance(base_data, dict) else {}
    names = [w for w in dict.fromkeys(WORD.findall(src)) if w not in RESERVED][:12]
    for n in names:
        if r.random() < 0.6:
            data[n] = r.choice(vals)
    return data


def errctx_items(r: Any, n: int) -> list[dict[str, Any]]:
    from liquid2.exceptions import LiquidError
    from liquid2.messages import line_number
    from liquid2.token import Token, TokenType

    probe = LiquidError("x", token=None)
    items = []
    for k in range(n):
        parts = []
        for _ in range(r.randint(0, 5)):
            parts.append("".join(r.choice(["a", "b", "{{", " ", "x"]) for _ in range(r.randint(0, 3))))
            if r.random() < 0.5:
                parts.append(r.choice(SPACES) * r.randint(0, 2))
            if r.random() < 0.8:
                parts.append(r.choice(LINEBREAKS))
        text = "".join(parts)
        idxs = {0, len(text), max(len(text) - 1, 0), len(text) + 1, len(text) + r.randint(2, 5)}
        idxs |= {r.randint(0, max(len(text), 1)) for _ in range(2)}
        # every line start and the position just before it
        for m in re.finditer("\r\n|[\n\r\x0b\x0c\x1c\x1d\x1e\x85\u2028\u2029]", text):
            idxs |= {m.end(), m.end() - 1, m.start()}
        for idx in sorted(idxs):
            try:
                ln, col, prev, cur, nxt = probe._error_context(text, idx)
                exp = (f"(Ok ({ln}%nat, {col}%nat, {C.cstr(prev)}, {C.cstr(cur)}, {C.cstr(nxt)}))")
                impl: Any = [ln, col, prev, cur, nxt]
            except Exception as e:  # noqa: BLE001
                kind = type(e).__name__ if type(e).__name__ in L.PYKINDS else "OtherPyError"
                exp = f"(PyExc {kind})"
                impl = ["raised", type(e).__name__]
            items.append({"case": f"ctx_eqb (error_context {C.cstr(text)} {idx}) {exp}",
                          "model": f"error_context {C.cstr(text)} {idx}",
                          "replay": {"text": text, "index": idx, "_error_context": impl}})
            tok = Token(type_=TokenType.WORD, value="x", index=idx, source=text)
            try:
                lexp = f"(Ok {line_number(tok)}%nat)"
            except Exception as e:  # noqa: BLE001
                kind = type(e).__name__ if type(e).__name__ in L.PYKINDS else "OtherPyError"
                lexp = f"(PyExc {kind})"
            items.append({"case": f"res_eqb Nat.eqb (line_number {C.cstr(text)} {idx}) {lexp}",
                          "model": f"line_number {C.cstr(text)} {idx}",
                          "replay": {"text": text, "index": idx, "line_number": lexp}})
    return items


_LITERAL_CHILD = r"""
import json, resource, sys
resource.setrlimit(resource.RLIMIT_AS, (1536 * 1024 ** 2, 1536 * 1024 ** 2))
from liquid2.exceptions import LiquidError
from harness import lexdump as L
import liquid2.shopify
env = liquid2.shopify.Environment()
cases = json.load(open(sys.argv[1]))
for k in range(int(sys.argv[2]), len(cases)):
    print("S", k, flush=True)
    try:
        env.from_string(cases[k]).render(a=[1, 2], x=None)
        out = "ok"
    except LiquidError as e:
        out = "LiquidError " + type(e).__name__
    except BaseException as e:
        out = "PyExc " + type(e).__name__ + " @ " + L.innermost(e)
    print("E", k, out, flush=True)
"""


def literal_budget_stream(chk: C.Check, r: Any, stats: dict[str, int]) -> None:
    """Parse (and render) short templates whose numeric literals denote huge
    values, in a child process with a 1.5 GB address-space limit; each case
    must finish within a 5 s wall-clock budget. An overrun (or the death of the
    child) is a finding: parse time must be bounded by the size of the source."""
    import os
    import select
    import subprocess
    import sys
    import tempfile
    import time

    cases = G2.literal_cases(r, chk.tier)
    fd, path = tempfile.mkstemp(prefix="c02_lit_", suffix=".json", dir=os.environ.get("VERIF_SCRATCH", "/var/tmp"))
    with os.fdopen(fd, "w") as f:
        json.dump(cases, f)
    budget = 5.0
    k = 0
    overruns = 0
    child_env = dict(os.environ, PYTHONPATH=os.pathsep.join(p for p in sys.path if p))
    try:
        while k < len(cases) and overruns < 4:     # four overruns say enough; each costs the whole budget
            proc = subprocess.Popen([sys.executable, "-W", "ignore", "-c", _LITERAL_CHILD, path, str(k)], env=child_env,
                                    stdout=subprocess.PIPE, stderr=subprocess.DEVNULL, text=True, bufsize=1)
            current = None
            started = time.time()
            overrun = False
            assert proc.stdout is not None
            while True:
                limit = (budget if current is not None else 30.0) - (time.time() - started)
                ready = select.select([proc.stdout], [], [], max(limit, 0))[0] if limit > 0 else []
                if not ready:
                    overrun = True
                    break
                line = proc.stdout.readline()
                if not line:
                    break
                parts = line.split(" ", 2)
                if parts[0] == "S":
                    current, started = int(parts[1]), time.time()
                elif parts[0] == "E":
                    stats["literal_budget_cases"] = stats.get("literal_budget_cases", 0) + 1
                    out = parts[2].strip() if len(parts) > 2 else ""
                    if out.startswith("PyExc"):
                        stats["python_exceptions"] += 1
                        chk.finding(out, f"a numeric literal made from_string/render raise {out}",
                                    {"source": cases[int(parts[1])][:300], "stream": "numeric literals under a budget"})
                    k = int(parts[1]) + 1
                    current, started = None, time.time()
            proc.kill()
            proc.wait()
            if overrun or (current is not None):
                overruns += 1
                bad = current if current is not None else k
                why = (f"did not finish within {budget:.0f} s" if overrun
                       else f"killed the child process (exit {proc.returncode}; 1.5 GB address-space limit)")
                chk.finding("parse budget overrun @ numeric literal",
                            f"from_string/render of a {len(cases[bad])}-character template {why}",
                            {"source": cases[bad][:300], "stream": "numeric literals under a budget"})
                k = bad + 1
            elif k < len(cases) and proc.returncode not in (0, None, -9):
                k += 1
    finally:
        os.unlink(path)


def mixed_api_stream(chk: C.Check, r: Any, stats: dict[str, int]) -> None:
    """One cached template through both APIs: histories of (get_template |
    get_template_async) x (render | render_async) on caching loaders, the sync
    calls made from plain code and from a sync helper inside a running event
    loop. Only normal results and LiquidErrors may come out."""
    import os
    import shutil
    import tempfile
    from pathlib import Path

    from liquid2 import CachingDictLoader, CachingFileSystemLoader, Environment
    from liquid2.exceptions import LiquidError

    root = Path(tempfile.mkdtemp(prefix="c02_mix_", dir=os.environ.get("VERIF_SCRATCH", "/var/tmp")))
    try:
        for name, body in G2.MIXED_TEMPLATES.items():
            f = root / name
            f.parent.mkdir(parents=True, exist_ok=True)
            f.write_text(body)
        loaders = [("CachingFileSystemLoader", lambda: CachingFileSystemLoader(root, auto_reload=True)),
                   ("CachingFileSystemLoader(auto_reload=False)", lambda: CachingFileSystemLoader(root, auto_reload=False)),
                   ("CachingDictLoader", lambda: CachingDictLoader(dict(G2.MIXED_TEMPLATES)))]
        for hist in G2.mixed_histories(r, chk.tier):
            for lname, mk in loaders:
                env = Environment(loader=mk())
                loop = asyncio.new_event_loop()
                trace = []
                try:
                    for name, (how_get, how_render, where) in hist:
                        stats["mixed_api_steps"] = stats.get("mixed_api_steps", 0) + 1

                        def sync_part(name: str = name, how_render: str = how_render, tmpl: Any = None) -> Any:
                            t = tmpl if tmpl is not None else env.get_template(name)
                            return t.render() if how_render == "render" else t

                        async def step(name: str = name, how_get: str = how_get, how_render: str = how_render) -> Any:
                            t = await env.get_template_async(name) if how_get == "get_async" else None
                            if how_render == "render_async":
                                t = t if t is not None else env.get_template(name)
                                return await t.render_async()
                            return sync_part(name, how_render, t)      # a sync helper inside the running loop

                        signal.alarm(10)
                        try:
                            if where == "plain" and how_get == "get":
                                sync_part()
                            elif where == "plain":
                                t0 = loop.run_until_complete(env.get_template_async(name))
                                sync_part(tmpl=t0)
                            else:
                                loop.run_until_complete(step())
                            trace.append("ok")
                        except LiquidError as e:
                            trace.append(type(e).__name__)
                            check_exception(chk, e, "mixed API", {"history": hist, "loader": lname}, stats)
                        except BaseException as e:  # noqa: BLE001
                            signal.alarm(0)
                            stats["python_exceptions"] += 1
                            chk.finding(f"PyExc {type(e).__name__} @ {L.innermost(e)}",
                                        f"step {len(trace) + 1} ({how_get}, {how_render}, {where}) on {name!r} raised "
                                        f"{type(e).__name__} ({str(e)[:80]})",
                                        {"history": hist, "loader": lname, "templates": G2.MIXED_TEMPLATES,
                                         "stream": "mixed sync/async API on a caching loader", "before": trace})
                            break
                        finally:
                            signal.alarm(0)
                finally:
                    loop.close()
        # caching loaders that key their cache on a render-context variable: any value may sit under that name
        for value in (10 ** 5000, -(10 ** 5000), "a", "", 1.5, float("nan"), None, True, [1], {"a": 1}, range(3)):
            for mk2 in (lambda: CachingDictLoader(dict(G2.MIXED_TEMPLATES), namespace_key="ns"),
                        lambda: CachingFileSystemLoader(root, namespace_key="ns")):
                env = Environment(loader=mk2())
                stats["mixed_api_steps"] = stats.get("mixed_api_steps", 0) + 1
                for step in ("get_template(globals)", "render", "render_async"):
                    signal.alarm(10)
                    try:
                        if step == "get_template(globals)":
                            env.get_template("sub/part.liquid", globals={"ns": value}).render()
                        elif step == "render":
                            env.from_string("{% include 'sub/part.liquid' %}{% render 'sub/part.liquid' %}").render(ns=value)
                        else:
                            asyncio.run(env.from_string("{% include 'sub/part.liquid' %}").render_async(ns=value))
                    except LiquidError as e:
                        check_exception(chk, e, "namespaced caching loader", {"namespace": safe_repr(value)}, stats)
                    except BaseException as e:  # noqa: BLE001
                        signal.alarm(0)
                        stats["python_exceptions"] += 1
                        chk.finding(f"PyExc {type(e).__name__} @ {L.innermost(e)}",
                                    f"{step} with {safe_repr(value)[:40]} under the loader's namespace_key raised {type(e).__name__} ({str(e)[:60]})",
                                    {"namespace_key": "ns", "value": safe_repr(value), "step": step, "templates": G2.MIXED_TEMPLATES,
                                     "stream": "mixed sync/async API on a caching loader"})
                    finally:
                        signal.alarm(0)
    finally:
        shutil.rmtree(root, ignore_errors=True)


def run_oracles(chk: C.Check, r: Any, stats: dict[str, int]) -> None:
    """The direct oracle over the UNMODELLED parser and renderer (no Coq involved).
    Runs under an address-space limit so that a runaway allocation becomes a
    MemoryError finding instead of exhausting the machine."""
    import resource

    soft, hard = resource.getrlimit(resource.RLIMIT_AS)
    cap = 6 * 1024 ** 3
    try:
        resource.setrlimit(resource.RLIMIT_AS, (cap if hard == resource.RLIM_INFINITY else min(cap, hard), hard))
    except (ValueError, OSError):
        pass
    try:
        _run_oracles(chk, r, stats)
    finally:
        try:
            resource.setrlimit(resource.RLIMIT_AS, (soft, hard))
        except (ValueError, OSError):
            pass


def _run_oracles(chk: C.Check, r: Any, stats: dict[str, int]) -> None:
    thorough = chk.tier == "thorough"
    # ---- (d) direct oracle over the unmodelled parser and renderer
    cts_path = C.REPO / "tests" / "liquid2-compliance-test-suite" / "cts.json"
    cts = json.loads(cts_path.read_text())["tests"] if cts_path.exists() else []
    vals = confused_values()
    r.shuffle(cts)
    nbase = len(cts) if thorough else 400
    ncfg = 0
    for t in cts[:nbase]:
        src = t["template"]
        ncfg += 1
        env = env_pair(t.get("templates") or {}, G2.CONFIGS[ncfg % len(G2.CONFIGS)])
        base_data = t.get("data") or {}
        muts = [src]
        n = len(src)
        cut = range(n) if thorough and n <= 120 else sorted(r.sample(range(n), min(n, 10 if thorough else 5)))
        muts += [src[:k] for k in cut]
        muts += [src[:i] + ins + src[j:] for (i, j, ins) in G.edits(r, src, 8 if thorough else 5)]
        for m in muts:
            data = confuse(r, m, base_data, vals)
            run_one(chk, env, m, data, stats,
                    {"source": m, "data": safe_repr(data)[:600], "templates": t.get("templates") or {},
                     "how": "Environment.from_string(source).render(**data) and render_async"})
    # the original suite data too (unconfused), every template
    for n, t in enumerate(cts):
        run_one(chk, env_pair(t.get("templates") or {}, G2.CONFIGS[n % len(G2.CONFIGS)]), t["template"],
                t.get("data") or {}, stats, {"source": t["template"], "data": repr(t.get("data"))[:600]})

    # ---- (d2) every expression form in every argument position of every tag
    cfg_envs = {(cfg, sp): env_pair(G2.EXPR_TEMPLATES, cfg, sp) for cfg in G2.CONFIGS for sp in (False, True)}
    for n, (src, tpl, data) in enumerate(G2.expression_cases(r, chk.tier)):
        stats["expression_form_cases"] += 1
        # the configuration rotates with the form and the hole: every hole meets every configuration;
        # every third case (and every tablerow hole) runs in the Shopify environment
        run_one(chk, cfg_envs[(G2.CONFIGS[(n + n // len(G2.EXPR_FORMS)) % len(G2.CONFIGS)], n % 3 == 0 or "tablerow" in src)],
                src, data, stats,
                {"source": src, "templates": tpl, "data": "harness/c02gen.py EXPR_DATA", "stream": "expression forms"})
    # ---- (d2b) bracket-rooted and shorthand-index paths in every hole, shorthand_indexes on
    for sup in (True, False):
        shenv = env_pair(G2.EXPR_TEMPLATES, (True, sup, False, True))
        for src, _tpl, data in G2.shorthand_cases():
            stats["shorthand_path_cases"] = stats.get("shorthand_path_cases", 0) + 1
            run_one(chk, shenv, src, data, stats, {"source": src, "data": "c02gen.EXPR_DATA", "stream": "shorthand paths"})
    # ---- (d3) type-confused subscripts
    senvs = {cfg: env_pair({}, cfg) for cfg in G2.CONFIGS}
    for n, (src, data) in enumerate(G2.subscript_cases(r, chk.tier)):
        stats["subscript_cases"] += 1
        run_one(chk, senvs[G2.CONFIGS[n % len(G2.CONFIGS)]], src, data, stats, {"source": src, "data": safe_repr(data)[:300], "stream": "subscripts"})
    # ---- (d4) cyclic template graphs: recursion ends in a LiquidError
    for n, g in enumerate(G2.graph_cases(r, chk.tier)):
        genv = env_pair(g, G2.CONFIGS[n % len(G2.CONFIGS)])
        for name in g:
            run_graph(chk, genv, name, stats, {"templates": g, "entry": name, "stream": "template graphs",
                                               "how": "Environment(loader=DictLoader(templates)).get_template(entry).render()"})

    # ---- (d5) buffer-using tags as the only content of (blank) blocks, under every configuration
    for cfg in G2.CONFIGS:
        benv = env_pair(G2.BUFFER_TEMPLATES, cfg)
        for src, _tpl, data in G2.buffer_cases():
            stats["blank_block_buffer_cases"] = stats.get("blank_block_buffer_cases", 0) + 1
            run_one(chk, benv, src, data, stats, {"source": src, "templates": G2.BUFFER_TEMPLATES, "data": safe_repr(data),
                                                  "stream": "blank blocks x buffer tags"})
    # ---- (d6) stray break / continue: a Liquid error, the same from render and render_async
    for cfg in G2.CONFIGS:
        for src, tpl, data in G2.interrupt_cases():
            stats["interrupt_cases"] = stats.get("interrupt_cases", 0) + 1
            run_one(chk, env_pair(tpl, cfg), src, data, stats,
                    {"source": src, "templates": tpl, "stream": "stray break/continue"})

    # ---- (d7) data of every shape in every argument position of every filter and tag
    denv_names = sorted(env_pair({}).filters)
    denv_names = sorted(set(denv_names) | set(env_pair({}, shopify=True).filters))
    denvs = {(cfg, sp): env_pair(G2.EXPR_TEMPLATES, cfg, sp) for cfg in G2.CONFIGS for sp in (False, True)}
    import inspect

    fkw: dict[str, list[str]] = {}
    for fenv in (env_pair({}), env_pair({}, shopify=True)):
        for fname, func in fenv.filters.items():
            try:
                params = inspect.signature(func).parameters.values()
            except (TypeError, ValueError):
                continue
            kws = [p.name for p in params if p.kind is p.KEYWORD_ONLY and p.name not in ("context", "environment", "env")]
            if kws:
                fkw[fname] = sorted(set(fkw.get(fname, [])) | set(kws))
    stats["filter_keyword_parameters"] = sum(len(v) for v in fkw.values())
    for n, (src, data) in enumerate(G2.data_argument_cases(r, chk.tier, denv_names, fkw)):
        stats["shaped_data_cases"] = stats.get("shaped_data_cases", 0) + 1
        run_one(chk, denvs[(G2.CONFIGS[n % len(G2.CONFIGS)], n % 2 == 0 or "tablerow" in src)], src, data, stats,
                {"source": src, "data": safe_repr(data)[:600], "stream": "shaped data x argument positions"})

    # ---- (d7b) `translations` (and the other names the i18n filters read from the context) bound to odd values
    for n, (src, data) in enumerate(G2.translation_cases()):
        stats["translation_variable_cases"] = stats.get("translation_variable_cases", 0) + 1
        run_one(chk, denvs[(G2.CONFIGS[n % len(G2.CONFIGS)], False)], src, data, stats,
                {"source": src, "data": safe_repr(data)[:300], "stream": "translations variable"})

    # ---- (d8) error decoration: errors raised inside partials and inherited templates that live in
    #      sub-directories, loaded by DictLoader / FileSystemLoader / CachingFileSystemLoader
    import os
    import shutil
    import tempfile
    from pathlib import Path

    from liquid2 import CachingFileSystemLoader, DictLoader, Environment, FileSystemLoader

    dtemplates, dentries = G2.decoration_templates()
    root = Path(tempfile.mkdtemp(prefix="c02_", dir=os.environ.get("VERIF_SCRATCH", "/var/tmp")))
    try:
        for name, body in dtemplates.items():
            f = root / name
            f.parent.mkdir(parents=True, exist_ok=True)
            f.write_text(body)
        loaders = [("DictLoader", lambda: DictLoader(dtemplates)), ("FileSystemLoader", lambda: FileSystemLoader(root)),
                   ("FileSystemLoader(str)", lambda: FileSystemLoader(str(root))),
                   ("CachingFileSystemLoader", lambda: CachingFileSystemLoader(root))]
        for lname, mk in loaders:
            class DE(Environment):
                loop_iteration_limit = 1000
                context_depth_limit = 8
            denv = DE(loader=mk())
            denv._verif_cfg = (True, True, False, False)
            for n, entry in enumerate(dentries):
                stats["decoration_cases"] = stats.get("decoration_cases", 0) + 1
                run_graph(chk, denv, entry, stats,
                          {"templates": {k: dtemplates[k] for k in dtemplates if k == entry or k.startswith("sub/")},
                           "entry": entry, "loader": lname, "stream": "error decoration"}, with_context=n % 3 == 2)
    finally:
        shutil.rmtree(root, ignore_errors=True)

    # ---- (d9) one cached template through the sync and the async API, also from inside a running loop
    mixed_api_stream(chk, r, stats)
    # ---- (d10) numeric literals of huge value: parse time bounded by the size of the source
    literal_budget_stream(chk, r, stats)

    # ---- (e) the recorded witnesses, re-observed on every run
    for wcfg in ((True, True, False, False), (True, True, False, True)):
        env = env_pair({}, wcfg)
        for src, data in KNOWN_WITNESSES:
            run_one(chk, env, src, data, stats, {"source": src, "data": safe_repr(data), "recorded_witness": True})
    for shop in (False, True):
        env = env_pair(_W_TEMPLATES, (True, True, False, False), shopify=shop)
        for wshop, src, data in KNOWN_WITNESSES_2:
            if wshop == shop:
                run_one(chk, env, src, data, stats, {"source": src[:300], "data": safe_repr(data), "templates": _W_TEMPLATES,
                                                     "environment": "shopify" if shop else "default", "recorded_witness": True})



def main(chk: C.Check, build: C.Build) -> None:
    warnings.simplefilter("ignore")
    proofs_ok = C.proof_stage(chk, build, NEEDED)
    thorough = chk.tier == "thorough"
    r = C.rng("c02", chk.tier)
    signal.signal(signal.SIGALRM, _alarm)
    stats = {"lexer_cases": 0, "lexer_errors": 0, "lexer_errors_at_eoi": 0, "parse_render_cases": 0, "parsed": 0,
             "rendered": 0, "liquid_errors": 0, "python_exceptions": 0, "errctx_cases": 0,
             "graph_cases": 0, "graph_liquid_errors": 0, "expression_form_cases": 0, "subscript_cases": 0}

    # ---- (a) error formatter vs model
    eitems = errctx_items(r, 400 if thorough else 60)
    stats["errctx_cases"] = len(eitems)

    # ---- (b) lexer malformed stream vs model, with the context of every error
    corpus = G.corpus(C.REPO)
    pool = list(G.APPENDIX)
    rest = [s for s in corpus if s not in set(G.APPENDIX) and len(s) <= 160]
    r.shuffle(rest)
    pool += rest[: (400 if thorough else 25)]
    pool += [G.g_template(r) for _ in range(300 if thorough else 20)]
    cs = Cases()
    for s in pool:
        if len(s) > 400:
            continue
        sh = r.random() < 0.2
        cs.whole(s, sh, "pool")
        ks = range(len(s)) if (thorough or s in G.APPENDIX) else sorted(r.sample(range(len(s)), min(len(s), 12)))
        for k in ks:
            cs.add(s, k, len(s), "", sh, "prefix")
        for (i, j, ins) in G.edits(r, s, 6 if thorough else 2):
            cs.add(s, i, j, ins, sh, "edit")
    for s in G.long_index_sources()[:2]:      # the boundary pair; C17 carries all of them
        cs.whole(s, False, "pool")
    for _ in range(6000 if thorough else 400):
        cs.whole(G.g_random(r), r.random() < 0.2, "random")
    shared = {b for b, k in cs.uses().items() if k >= 3}

    litems = []
    citems = []
    samples = []
    for n, it in enumerate(cs.items):
        src, sh = cs.src(it), it[4]
        s_term = cs.s_term(it, shared)
        out = L.outcome(src, sh)
        stats["lexer_cases"] += 1
        replay = {"source": src, "shorthand_indexes": sh, "how": "liquid2.tokenize"}
        if out[0] == "pyexc":
            stats["python_exceptions"] += 1
            chk.finding(f"PyExc {out[1]} @ {out[2]}", f"tokenize raised {out[1]} in {out[2]}", replay)
        elif out[0] == "lerr":
            stats["lexer_errors"] += 1
            if out[2] == len(src):
                stats["lexer_errors_at_eoi"] += 1
            check_exception(chk, out[3], "tokenize", replay, stats)
            stats["liquid_errors"] -= 1
            if out[2] is not None:
                try:
                    ln, col, prev, cur, nxt = out[3].context()
                    exp = (f"(Ok ({ln}%nat, {col}%nat, {L.sx(prev, src)}, {L.sx(cur, src)}, {L.sx(nxt, src)}))")
                except Exception as e:  # noqa: BLE001
                    kind = type(e).__name__ if type(e).__name__ in L.PYKINDS else "OtherPyError"
                    exp = f"(PyExc {kind})"
                citems.append({"case": f"(let s := {s_term} in ctx_eqb (error_context s {out[2]}) {exp})",
                               "model": f"error_context {s_term} {out[2]}", "base": it[0],
                               "replay": {"source": src, "index": out[2], "context": exp}})
        try:
            exp = L.outcome_term(out, src)
            case = f"(let s := {s_term} in lex_eqb (lex {C.cbool(sh)} s) {exp})"
        except L.Unrepresentable:
            case = "false"
        litems.append({"case": case, "model": f"lex {C.cbool(sh)} {s_term}", "base": it[0],
                       "replay": {"source": src, "shorthand_indexes": sh, "implementation": L.outcome_json(out)}})
        if n % max(1, len(cs.items) // 3) == 0 and len(samples) < 3:
            samples.append({"source": src, "outcome": L.outcome_json(out)})

    # The model comparison only waits for coqc processes; it runs beside the
    # (single-threaded, signal-using, hence main-thread) direct oracle.
    import threading

    failure: list[BaseException] = []

    def compare_with_model() -> None:
        try:
            both = sorted(litems + citems, key=lambda x: x["base"])
            for gi in range(0, len(both), GROUP):
                grp = both[gi:gi + GROUP]
                used = sorted({x["base"] for x in grp} & shared)
                defs = "\n".join(f"Definition B{b} : str := {C.cstr(cs.bases[b])}." for b in used)
                L.correspond(chk, f"c02_lex_{gi // GROUP}", IMPORTS, defs, grp,
                             what="Lex.lex + ErrCtx.error_context (malformed stream)",
                             shard=max(50, -(-len(grp) // SHARDS)))
            L.correspond(chk, "c02_ctx", IMPORTS, "", eitems, what="ErrCtx.error_context / line_number",
                         shard=max(50, -(-len(eitems) // 16)))
        except BaseException as e:  # noqa: BLE001
            failure.append(e)

    worker = threading.Thread(target=compare_with_model, name="c02-model-comparison")
    worker.start()
    try:
        run_oracles(chk, r, stats)
    finally:
        worker.join()
    if failure:
        raise failure[0]
    C.proofs_verdict(chk, proofs_ok)

    chk.coverage.update({
        "evaluations": stats["lexer_cases"] + stats["parse_render_cases"] + stats["errctx_cases"],
        "distinct_nontrivial": stats["lexer_errors"] + stats["liquid_errors"] + stats["python_exceptions"],
        "rule": ("evaluations = lexer sources + (template, data) pairs through from_string/render/render_async + "
                 "(text, index) pairs through _error_context/line_number; non-trivial = cases in which an exception was "
                 "actually raised (its class and its str()/detailed_message()/context() were checked)"),
        "samples": samples,
        "distribution": stats,
        "exhaustive": False,
        "tier_proved": "kernel: scanner + error formatter; parser and renderer by direct oracle only (C02 is partial)",
    })
    chk.assumptions += [
        "the model is of the code WITH /verif/proposed_fixes/C02/0001-0032 and C17/0001-0007 applied (C02/0024: an array index of more than 4300 digits is a syntax error)",
        "numeric-literal budget: 5 s wall clock and 1.5 GB address space per template in a child process; int->str digit limit assumed to be the default 4300",
        "tag parsers on malformed token streams, filters and rendering are NOT modelled: searched by the direct oracle only",
        "limits for the oracle environment: loop_iteration_limit=3000, output_stream_limit=300000, context_depth_limit=12; 10 s alarm per case",
        "block nesting is not pushed towards Python's recursion limit",
    ]
