"""C20 — literals denote exactly what is written; json output decodes to its input.

Tie (correspondence, model vs implementation, exact comparison):
  * `liquid2.unescape` vs Kernels/Unescape.v `unescape` (valid spellings, every
    prefix of them, single edits, random strings over an escape-biased alphabet);
  * `liquid2.lexer.tokenize` on `{{ '...' }}` / `{{ x['...'] }}` vs Kernels/StrScan.v
    `accept_template_string` / `path_segment` (token structure, parts, rest);
  * the value each parse site gives to the raw token text (read from the AST of
    `Environment.from_string`) vs `site_value`, at every kind of site;
  * `Lexer.TOKEN_RULES` vs Kernels/NumLit.v `num_token`; `parse_integer_literal`
    and `{{ <int> }}` vs `parse_integer_literal`; `Decimal(spelling)` vs
    `float_decimal`;
  * `{{ x | json }}` vs Kernels/Json.v `json_filter`, `json.loads` vs `json_decode`.
Direct oracle (failing-input search, on the implementation alone): the
rendered value at every site equals the intended string (an independent
reference decoder decides validity), invalid spellings raise
LiquidSyntaxError only, integers render as written, floats as the correctly
rounded value, `json.loads(render) == input`.  Configuration axis: every literal
position (output, filter argument positional / keyword, tag keyword argument,
macro argument and default, bracketed segment, interpolated string ...) is
rendered with auto_escape off and on and must write exactly the literal's text
(the literal is template-author text).  History axis: scalars that are equal
under `==` but differ in type or sign (True / 1 / 1.0, False / 0 / 0.0 / -0.0 ...)
go through the json filter in several orders within one process (long-lived
and fresh environments, data and literals; further orders in subprocesses) and
must each decode to a value of the same type, value and sign.
"""

from __future__ import annotations

import asyncio
import itertools
import math
import pickle
import os
import subprocess
import sys
import json
import re
import warnings
from decimal import Decimal
from typing import Any, Iterable

from . import common as C

IMPORTS = ("From LQ Require Import Kernels.Unescape Kernels.StrScan Kernels.NumLit Kernels.Json.")
NEEDED = ["theories/Base/Str.v", "theories/Kernels/Unescape.v", "theories/Kernels/StrScan.v",
          "theories/Kernels/NumLit.v", "theories/Kernels/Json.v",
          "theories/Proofs/Unescape_proofs.v", "theories/Proofs/StrScan_proofs.v",
          "theories/Proofs/NumLit_proofs.v", "theories/Proofs/Json_proofs.v"]

DEFS = r"""
Definition part_eqb (a b : part (list str)) : bool :=
  match a, b with
  | PStr x, PStr y => str_eqb x y
  | PExpr x, PExpr y => list_eqb str_eqb x y
  | _, _ => false
  end.
Definition tok_eqb (a b : tstoken (list str)) : bool :=
  match a, b with
  | TPlain x, TPlain y => str_eqb x y
  | TTemplate x, TTemplate y => list_eqb part_eqb x y
  | _, _ => false
  end.
Definition scan_tok (q : N) (src : str) := accept_template_string (list str) sub_word_scanner q src.
Definition scan_ok (q : N) (src : str) (exp : res (tstoken (list str) * str)) : bool :=
  res_eqb_nopos (prod_eqb tok_eqb str_eqb) (scan_tok q src) exp.
Definition str_ok (q : N) (src : str) (exp : res (str * str)) : bool :=
  res_eqb_nopos (prod_eqb str_eqb str_eqb) (accept_string q src) exp.
Definition seg_ok (q : N) (src : str) (exp : res (str * str)) : bool :=
  res_eqb_nopos (prod_eqb str_eqb str_eqb) (path_segment q src) exp.
Definition val_ok (st : site) (q : N) (raw : str) (exp : res str) : bool :=
  res_eqb_nopos str_eqb (site_value st q raw) exp.
Definition une_ok (raw : str) (exp : res str) : bool := res_eqb_nopos str_eqb (unescape raw) exp.
Definition ev2 (x y : str) (ws : list str) : str :=
  match ws with
  | [w] => if str_eqb w [120] then x else if str_eqb w [121] then y else []
  | _ => []
  end.
Definition tsv_ok (q : N) (x y : str) (src : str) (exp : res str) : bool :=
  res_eqb_nopos str_eqb
    (do r <- scan_tok q src ;; let '(t, _) := r in token_value (list str) SitePrimitive q (ev2 x y) t) exp.
Definition kind_eqb (a b : numkind) : bool :=
  match a, b with KFloat, KFloat | KInt, KInt => true | _, _ => false end.
Definition num_ok (s : str) (exp : option (numkind * str * str)) : bool :=
  option_eqb (prod_eqb (prod_eqb kind_eqb str_eqb) str_eqb) (num_token s) exp.
Definition int_ok (limit : N) (s : str) (exp : res Z) : bool :=
  res_eqb_nopos Z.eqb (parse_integer_literal limit s) exp.
Definition dec_ok (s : str) (exp : option (Z * Z)) : bool :=
  option_eqb (prod_eqb Z.eqb Z.eqb) (float_decimal s) exp.
Definition json_ok (v : jv) (exp : str) : bool := str_eqb (json_filter v) exp.
Fixpoint jv_eqb (a b : jv) : bool :=
  match a, b with
  | JNull, JNull => true
  | JBool x, JBool y => Bool.eqb x y
  | JInt x, JInt y => Z.eqb x y
  | JStr x, JStr y => str_eqb x y
  | JList x, JList y =>
      (fix go (x y : list jv) : bool :=
         match x, y with
         | [], [] => true
         | a :: x', b :: y' => jv_eqb a b && go x' y'
         | _, _ => false
         end) x y
  | JDict x, JDict y =>
      (fix go (x y : list (str * jv)) : bool :=
         match x, y with
         | [], [] => true
         | (k, a) :: x', (k2, b) :: y' => str_eqb k k2 && jv_eqb a b && go x' y'
         | _, _ => false
         end) x y
  | _, _ => false
  end.
Definition jdec_ok (text : str) (exp : jv) : bool :=
  match json_decode text with Some v => jv_eqb v exp | None => false end.
"""

SQ, DQ = "'", '"'

# ---------------------------------------------------------------- spellings

ALPHABET = ["a", "'", '"', "\\", "$", "{", "}", "%", "\t", "\x08", "é", "\U0001F600", "/"]
SIMPLE = {"\\": "\\\\", "/": "\\/", "\x08": "\\b", "\x0c": "\\f", "\n": "\\n", "\r": "\\r",
          "\t": "\\t", "$": "\\$"}


def u4(n: int, upper: bool) -> str:
    h = f"{n:04x}"
    return "\\u" + (h.upper() if upper else h)


def spellings(c: str, q: str, full: bool = True) -> list[str]:
    """Every valid spelling of the character c inside quotes q (hex letter case:
    all-lower and all-upper; `full` adds a mixed-case one)."""
    out: list[str] = []
    o = ord(c)
    if c not in ("\\", q) and o >= 8:
        out.append(c)
    if c in SIMPLE:
        out.append(SIMPLE[c])
    if c == q:
        out.append("\\" + q)
    if o < 0x10000:
        forms = {u4(o, False), u4(o, True)}
    else:
        n = o - 0x10000
        hi, lo = 0xD800 + (n >> 10), 0xDC00 + (n & 0x3FF)
        forms = {u4(hi, False) + u4(lo, False), u4(hi, True) + u4(lo, True)}
        if full:
            forms.add(u4(hi, True) + u4(lo, False))
    out += sorted(forms)
    return out


def canonical(s: str) -> str:
    """The all-\\uXXXX spelling (valid in both kinds of quotes, no `${`)."""
    out = []
    for c in s:
        o = ord(c)
        if o < 0x10000:
            out.append(u4(o, False))
        else:
            out.append(u4(0xD800 + ((o - 0x10000) >> 10), False) + u4(0xDC00 + ((o - 0x10000) & 0x3FF), False))
    return "".join(out)


_PIECE = re.compile(
    r"\\u[dD][89abAB][0-9a-fA-F]{2}\\u[dD][c-fC-F][0-9a-fA-F]{2}"   # surrogate pair
    r"|\\u[0-9a-fA-F]{4}"
    r"|\\[\\/bfnrt$'\"]"
    r"|[^\\]", re.S)


def ref_decode(q: str | None, raw: str, template: bool) -> str | None:
    """Independent reference: the string spelled by raw inside quotes q, or None
    if raw is not a valid spelling (for `template` sites a bare `${` is not part
    of a plain spelling either).  q = None: the input language of unescape()
    itself (after the replace step: quotes as themselves, backslash-double-quote)."""
    out = []
    pos = 0
    prev_bare_dollar = False
    while pos < len(raw):
        m = _PIECE.match(raw, pos)
        if not m:
            return None
        p = m.group()
        bare = len(p) == 1
        if bare:
            if p == q or ord(p) < 8:
                return None
            if template and prev_bare_dollar and p == "{":
                return None
            out.append(p)
        elif len(p) == 2:
            e = p[1]
            if e in "'\"" and e != (q or '"'):
                return None
            out.append({"b": "\x08", "f": "\x0c", "n": "\n", "r": "\r", "t": "\t"}.get(e, e))
        elif len(p) == 6:
            n = int(p[2:], 16)
            if 0xD800 <= n <= 0xDFFF or n < 8:
                return None
            out.append(chr(n))
        else:
            hi, lo = int(p[2:6], 16), int(p[8:12], 16)
            out.append(chr(0x10000 + ((hi - 0xD800) << 10) + (lo - 0xDC00)))
        prev_bare_dollar = bare and p == "$"
        pos = m.end()
    return "".join(out)


# ---------------------------------------------------------------- implementation access

PYKIND = {"IndexError": "IndexError", "ValueError": "ValueError", "KeyError": "KeyError",
          "TypeError": "TypeError", "OverflowError": "OverflowError", "AssertionError": "AssertionError",
          "UnicodeEncodeError": "UnicodeError", "UnicodeDecodeError": "UnicodeError",
          "AttributeError": "AttributeError", "RecursionError": "RecursionError",
          "ZeroDivisionError": "ZeroDivisionError", "OSError": "OSError"}
LCLASS = {"LiquidSyntaxError", "LiquidTypeError", "LiquidNameError", "LiquidValueError",
          "UndefinedError", "TemplateNotFoundError", "UnknownFilterError", "LiquidIndexError"}


def c_err(e: BaseException) -> str:
    n = type(e).__name__
    if n in LCLASS:
        return f"(LErr {n} None)"
    from liquid2.exceptions import LiquidError
    if isinstance(e, LiquidError):
        return "(LErr OtherLiquidError None)"
    return f"(PyExc {PYKIND.get(n, 'OtherPyError')})"


def c_res(r: Any, ok: Any) -> str:
    """r is ('ok', value) or ('err', exception)."""
    if r[0] == "ok":
        return f"(Ok {ok(r[1])})"
    return c_err(r[1])


def attempt(f: Any, *a: Any) -> tuple[str, Any]:
    try:
        return ("ok", f(*a))
    except Exception as e:  # noqa: BLE001 - the class is the observation
        return ("err", e)


def errname(r: tuple[str, Any]) -> str:
    return type(r[1]).__name__ if r[0] == "err" else "ok"


class Impl:
    def __init__(self) -> None:
        import liquid2
        from liquid2 import DictLoader, Environment, Token, TokenType
        from liquid2.lexer import Lexer, tokenize

        self.liquid2 = liquid2
        self.Token, self.TokenType = Token, TokenType
        self.Lexer = Lexer
        self._tokenize = tokenize
        self.env = Environment()
        self.Environment, self.DictLoader = Environment, DictLoader
        self.max_str_int = liquid2.limits.MAX_STR_INT
        self.parse_integer_literal = getattr(liquid2.builtin.expressions, "parse_integer_literal", None)

    def unescape(self, raw: str) -> str:
        t = self.Token(type_=self.TokenType.DOUBLE_QUOTE_STRING, value=raw, index=0, source=raw)
        return self.liquid2.unescape(raw, t)

    def tokens(self, src: str) -> Any:
        return self._tokenize(self.env, src)

    def string_token(self, src: str) -> Any:
        """The first expression token of the first markup of src, as a model
        token: ('plain', raw) | ('tmpl', [('s', raw) | ('e', [words])])."""
        tok = self.tokens(src)[0].expression[0]
        return self._model_token(tok)

    def _model_token(self, tok: Any) -> Any:
        tt = self.TokenType
        if tok.type_ in (tt.SINGLE_QUOTE_STRING, tt.DOUBLE_QUOTE_STRING):
            return ("plain", tok.value)
        parts = []
        for p in tok.template:
            if p.type_ in (tt.SINGLE_QUOTE_STRING, tt.DOUBLE_QUOTE_STRING):
                parts.append(("s", p.value))
            else:
                words = []
                for w in p.expression:
                    if w.type_ != tt.WORD and not hasattr(w, "value"):
                        raise RuntimeError("sub-expression outside the modelled fragment")
                    words.append(w.value)
                parts.append(("e", words))
        return ("tmpl", parts)

    def direct_template_string(self, q: str, after: str) -> tuple[Any, str]:
        """Lexer.accept_template_string called directly on the text after the
        opening quote: (model token, remaining source)."""
        src = q + after
        lx = self.Lexer(self.env, src)
        lx.pos = lx.start = 1
        expr: list[Any] = []
        lx.accept_template_string(quote=q, expression=expr)
        assert len(expr) == 1
        return self._model_token(expr[0]), src[lx.pos:]

    def direct_string(self, q: str, after: str) -> tuple[str, str]:
        """Lexer.accept_string called directly: (raw text, remaining source)."""
        src = q + after
        lx = self.Lexer(self.env, src)
        lx.pos = lx.start = 1
        lx.accept_string(quote=q)
        return src[lx.start:lx.pos], src[lx.pos:]

    def path_segment(self, src: str) -> str:
        tok = self.tokens(src)[0].expression[0]
        return tok.path[1]

    mode = "sync"          # "sync": Template.render, "async": Template.render_async on one event loop

    def render(self, src: str, data: dict[str, Any] | None = None, templates: dict[str, str] | None = None) -> str:
        if templates is None:
            env = self.env                       # no loader state, no caches: safe to share
        elif templates is BIND_TEMPLATES:
            if self._bind_env is None:
                self._bind_env = self.Environment(loader=self.DictLoader(dict(BIND_TEMPLATES)))
            env = self._bind_env
        else:
            env = self.Environment(loader=self.DictLoader(templates))
        return self.run_template(env.from_string(src), data)

    _bind_env: Any = None

    def run_template(self, template: Any, data: dict[str, Any] | None = None) -> str:
        if self.mode == "sync":
            return template.render(**(data or {}))
        if self.mode == "pickle":
            # a second way in which the parsed literals are read back: pickle.loads
            return pickle.loads(pickle.dumps(template)).render(**(data or {}))
        if self._loop is None:
            self._loop = asyncio.new_event_loop()
        return self._loop.run_until_complete(template.render_async(**(data or {})))

    _loop: Any = None

    def parse(self, src: str, templates: dict[str, str] | None = None) -> Any:
        env = self.Environment(loader=self.DictLoader(templates or {}))
        return env.from_string(src)


# ---------------------------------------------------------------- sites

# name: (model site, template maker, AST value reader, render oracle)
def _first_literal(expr: Any) -> Any:
    """Depth-first search for the first StringLiteral in an expression tree."""
    from liquid2.builtin import StringLiteral
    todo = [expr]
    while todo:
        e = todo.pop(0)
        if isinstance(e, StringLiteral):
            return e.value
        todo = list(e.children()) + todo
    raise LookupError("no literal")


def lit(q: str, raw: str) -> str:
    return q + raw + q


# partials that write what was bound: under the name of the partial (`p`) or under the alias `v`
BIND_TEMPLATES = {"p": "[{{ p }}]", "pv": "[{{ v }}]"}

# sites whose literal is kept as a name in the AST: also read back through pickle
PICKLE_SITES = ("macro", "block", "extends", "include", "render", "include_with_as", "output", "path")

SITES: dict[str, dict[str, Any]] = {
    "output": {
        "site": "SitePrimitive", "template": True,
        "src": lambda q, raw: "{{ " + lit(q, raw) + " }}",
        "ast": lambda t: _first_literal(t.nodes[0].expression),
        "render": lambda im, q, raw, s: im.render("{{ " + lit(q, raw) + " }}"),
        "expect": lambda s: s,
    },
    "filter_arg": {
        "site": "SitePrimitive", "template": True,
        "src": lambda q, raw: "{{ '' | append: " + lit(q, raw) + " }}",
        "ast": lambda t: t.nodes[0].expression.filters[0].args[0].value.value,
        "render": lambda im, q, raw, s: im.render("{{ '' | append: " + lit(q, raw) + " }}"),
        "expect": lambda s: s,
    },
    "assign": {
        "site": "SitePrimitive", "template": True,
        "src": lambda q, raw: "{% assign z = " + lit(q, raw) + " %}{{ z }}",
        "ast": lambda t: _first_literal(t.nodes[0].expression),
        "render": lambda im, q, raw, s: im.render("{% assign z = " + lit(q, raw) + " %}{{ z }}"),
        "expect": lambda s: s,
    },
    "echo_liquid": {
        "site": "SitePrimitive", "template": True,
        "src": lambda q, raw: "{% liquid echo " + lit(q, raw) + " %}",
        "ast": None,
        "render": lambda im, q, raw, s: im.render("{% liquid echo " + lit(q, raw) + " %}"),
        "expect": lambda s: s,
    },
    "if": {
        "site": "SiteBoolPrimitive", "template": True,
        "src": lambda q, raw: "{% if " + lit(q, raw) + " == v %}T{% else %}F{% endif %}",
        "ast": lambda t: _first_literal(t.nodes[0].condition),
        "render": lambda im, q, raw, s: im.render(
            "{% if " + lit(q, raw) + " == v %}T{% else %}F{% endif %}", {"v": s}),
        "expect": lambda s: "T",
    },
    "ternary": {
        "site": "SiteBoolPrimitive", "template": True,
        "src": lambda q, raw: "{{ 'T' if " + lit(q, raw) + " == v else 'F' }}",
        "ast": lambda t: _first_literal(t.nodes[0].expression.condition),
        "render": lambda im, q, raw, s: im.render(
            "{{ 'T' if " + lit(q, raw) + " == v else 'F' }}", {"v": s}),
        "expect": lambda s: "T",
    },
    "include": {
        "site": "SiteStringOrPath", "template": True, "plain_only": True,
        "src": lambda q, raw: "{% include " + lit(q, raw) + " %}",
        "ast": lambda t: t.nodes[0].name.value,
        "render": lambda im, q, raw, s: im.render("{% include " + lit(q, raw) + " %}", None, {s: "INC"}),
        "expect": lambda s: "INC",
    },
    "render": {
        "site": "SitePrimitive", "template": True, "plain_only": True,
        "src": lambda q, raw: "{% render " + lit(q, raw) + " %}",
        "ast": lambda t: t.nodes[0].name.value,
        "render": lambda im, q, raw, s: im.render("{% render " + lit(q, raw) + " %}", None, {s: "REN"}),
        "expect": lambda s: "REN",
    },
    "macro": {
        "site": "SiteIdentifier", "template": True, "plain_only": True,
        "src": lambda q, raw: "{% macro " + lit(q, raw) + " %}M{% endmacro %}",
        "ast": lambda t: str(t.nodes[0].name),
        "render": lambda im, q, raw, s: im.render(
            "{% macro " + lit(q, raw) + " %}M{% endmacro %}{% call " + lit(DQ, canonical(s)) + " %}"),
        "expect": lambda s: "M",
    },
    "include_alias": {
        "site": "SiteIdentifier", "template": True, "plain_only": True,
        "src": lambda q, raw: "{% include 'p' with 1 as " + lit(q, raw) + " %}",
        "ast": lambda t: str(t.nodes[0].alias),
        "render": None, "expect": None,
    },
    "extends": {
        "site": "SiteIdentifier", "template": True, "plain_only": True,
        "src": lambda q, raw: "{% extends " + lit(q, raw) + " %}",
        "ast": lambda t: t.nodes[0].name.value,
        "render": lambda im, q, raw, s: im.render("{% extends " + lit(q, raw) + " %}", None, {s: "EXT"}),
        "expect": lambda s: "EXT",
    },
    "block": {
        "site": "SiteIdentifier", "template": True, "plain_only": True,
        "src": lambda q, raw: "{% block " + lit(q, raw) + " %}C{% endblock %}",
        "ast": lambda t: str(t.nodes[0].name),
        "render": lambda im, q, raw, s: im.render(
            "{% extends 'base' %}{% block " + lit(q, raw) + " %}C{% endblock %}", None,
            {"base": "[{% block " + lit(DQ, canonical(s)) + " %}B{% endblock %}]"}),
        "expect": lambda s: "[C]",
    },
    "include_with": {
        "site": "SitePrimitive", "template": True,
        "src": lambda q, raw: "{% include 'p' with " + lit(q, raw) + " %}",
        "ast": lambda t: t.nodes[0].var.value,
        "render": lambda im, q, raw, s: im.render("{% include 'p' with " + lit(q, raw) + " %}", None, BIND_TEMPLATES),
        "expect": lambda s: "[" + s + "]",
    },
    "include_with_as": {
        "site": "SitePrimitive", "template": True,
        "src": lambda q, raw: "{% include 'pv' with " + lit(q, raw) + " as v %}",
        "ast": lambda t: t.nodes[0].var.value,
        "render": lambda im, q, raw, s: im.render("{% include 'pv' with " + lit(q, raw) + " as v %}", None, BIND_TEMPLATES),
        "expect": lambda s: "[" + s + "]",
    },
    "include_for_as": {
        "site": "SitePrimitive", "template": True,
        "src": lambda q, raw: "{% include 'pv' for " + lit(q, raw) + " as v %}",
        "ast": lambda t: t.nodes[0].var.value,
        "render": lambda im, q, raw, s: im.render("{% include 'pv' for " + lit(q, raw) + " as v %}", None, BIND_TEMPLATES),
        "expect": lambda s: "[" + s + "]",
    },
    "render_with": {
        "site": "SitePrimitive", "template": True,
        "src": lambda q, raw: "{% render 'p' with " + lit(q, raw) + " %}",
        "ast": lambda t: t.nodes[0].var.value,
        "render": lambda im, q, raw, s: im.render("{% render 'p' with " + lit(q, raw) + " %}", None, BIND_TEMPLATES),
        "expect": lambda s: "[" + s + "]",
    },
    "render_with_as": {
        "site": "SitePrimitive", "template": True,
        "src": lambda q, raw: "{% render 'pv' with " + lit(q, raw) + " as v %}",
        "ast": lambda t: t.nodes[0].var.value,
        "render": lambda im, q, raw, s: im.render("{% render 'pv' with " + lit(q, raw) + " as v %}", None, BIND_TEMPLATES),
        "expect": lambda s: "[" + s + "]",
    },
    "render_for_as": {
        "site": "SitePrimitive", "template": True,
        "src": lambda q, raw: "{% render 'pv' for " + lit(q, raw) + " as v %}",
        "ast": lambda t: t.nodes[0].var.value,
        "render": lambda im, q, raw, s: im.render("{% render 'pv' for " + lit(q, raw) + " as v %}", None, BIND_TEMPLATES),
        "expect": lambda s: "[" + s + "]",
    },
    "path": {
        "site": "SitePathSegment", "template": False,
        "src": lambda q, raw: "{{ x[" + lit(q, raw) + "] }}",
        "ast": lambda t: t.nodes[0].expression.left.path[1],
        "render": lambda im, q, raw, s: im.render("{{ x[" + lit(q, raw) + "] }}", {"x": {s: "V"}}),
        "expect": lambda s: "V",
    },
}


# ---------------------------------------------------------------- generators


def enum_spellings(q: str, n: int) -> Iterable[tuple[str, str]]:
    """(intended string, raw) for every string of length n over ALPHABET under
    every valid spelling of each character."""
    per = [[(c, p) for p in spellings(c, q)] for c in ALPHABET]
    flat = [x for l in per for x in l]
    for combo in itertools.product(flat, repeat=n):
        yield "".join(c for c, _ in combo), "".join(p for _, p in combo)


EXTRA_CHARS = ["\n", "\r", "\x0c", " ", "}}", "{{", "%}", "{%", "#", " ", "￿", "\U0010ffff",
               "\U00010000", "Ā", "\x7f", "\x1f", "Z", "0", "|", ":", ",", "]", "[", "-"]


def random_string(r: Any, maxlen: int) -> str:
    n = r.randint(0, maxlen)
    out = []
    for _ in range(n):
        k = r.random()
        if k < 0.6:
            out.append(r.choice(ALPHABET))
        elif k < 0.85:
            out.append(r.choice(EXTRA_CHARS))
        elif k < 0.93:
            out.append(chr(r.choice([r.randint(8, 0x7F), r.randint(0x80, 0xD7FF), r.randint(0xE000, 0xFFFF)])))
        else:
            out.append(chr(r.randint(0x10000, 0x10FFFF)))
    return "".join(out)


def random_spelling(r: Any, q: str, s: str, template: bool) -> str:
    while True:
        raw = "".join(r.choice(spellings(c, q)) for c in s)
        if not template or ref_decode(q, raw, True) is not None:
            return raw


MAL_ALPHA = ["\\", "u", "d", "D", "8", "c", "C", "0", "e", "9", "f", "x", "'", '"', "$", "{", "}",
             "\x07", "\x08", "n", "t", "/", "b", " ", "g", "é", "\U0001F600"]


BOUNDARY = ["\\", "a\\", "\\u", "\\u1", "\\u12", "\\u123", "\\u1234", "\\u12345", "\\uD83D", "\\uD83D\\",
            "\\uD83D\\u", "\\uD83D\\uDE0", "\\uD83D\\uDE00", "\\uD83D\\uD83D", "\\uDE00", "\\uDE00\\uD83D",
            "\\uD83Dx\\uDE00", "\\uD83D\\xDE00", "\\u0007", "\\u0008", "\\uDBFF\\uDFFF", "\\uD800\\uDC00",
            "\\uD7FF", "\\uE000", "\\uDC00", "\\uDFFF\\uDC00", "\\udbff\\udbff", "\\u00g0", "\\u 123", "\\U0041",
            "\\x41", "\\a", "\\0", "\\'", "\\\"", "\\$", "\\u00e9\\", "\x07", "a\x00b", "\\uD83D\\uDE00\\uD83D",
            "\\u0041\\u0042", "\\uFFFF", "\\uffff", "\\u0000", "\\t", "\\n", "\\r", "\\b", "\\f", "\\/", "\\\\",
            "x\\u00e9", "\\u00e9x", "xx\\u00e", "\\uD83D\\uDE00x", "x\\uD83D\\uDE0", "\\uD83D\\uDE0g",
            "\\uD83D\\uDBFF", "\\uD83D\\uE000", "\\uDBFF\\uDC00", "\\uD800\\uDFFF", "\\uD7FF\\uDC00",
            "\\uD800", "\\uDBFF", "\\uDFFF", "\\udfff", "\\ud800", "\\uD800\\uDBFF", "\\uD800\\uD7FF",
            "\\uDC00\\uDC00", "\\uDFFFx", "x\\uD800", "\\uD800\\uDC0", "\\uDBFF\\uDFF", "\\u0009", "\\u0008x",
            "\\u0007x", "\\u001f", "\\u007F", "\\u00Ff", "\\uAbCd", "\\ufffF"]


def malformed(r: Any, valid: list[tuple[str, str]], n_rand: int) -> list[str]:
    """Generated malformed / borderline raw texts (BOUNDARY is added by the caller)."""
    out: list[str] = []
    for _, raw in valid:
        for i in range(len(raw)):
            out.append(raw[:i])                      # every prefix
        if raw:
            i = r.randrange(len(raw))
            out.append(raw[:i] + r.choice(MAL_ALPHA) + raw[i + 1:])   # one edit
            out.append(raw[:i] + raw[i + 1:])                         # one deletion
            out.append(raw[:i] + r.choice(MAL_ALPHA) + raw[i:])       # one insertion
    for _ in range(n_rand):
        out.append("".join(r.choice(MAL_ALPHA) for _ in range(r.randint(1, 14))))
    return [x for x in dict.fromkeys(out) if x not in BOUNDARY]


NUM_ALPHA = "019.eE+-x"


def int_spellings(r: Any, thorough: bool) -> list[str]:
    vals = [0, 1, 7, 10, 2**53 - 1, 2**53, 2**53 + 1, 9007199254740993, 2**63, 2**64 + 1, 10**15 + 1,
            10**16 + 1, 10**17 + 3, 10**22, 10**22 + 1, 10**23, 10**23 + 1, 123456789012345678901234567890,
            10**40, 10**40 - 1, 10**40 + 7, 10**308, 10**309 + 1, 18014398509481985]
    for _ in range(60 if not thorough else 600):
        vals.append(r.randint(0, 10 ** r.randint(1, 40)))
    out = []
    for v in vals:
        out.append(str(v))
        out.append("-" + str(v))
        if r.random() < 0.3:
            out.append("00" + str(v))
    mants = ["1", "9", "12", "5", "123456789", "9007199254740993", "0", "00", "10", "-1", "-25", "-0"]
    exps = ["0", "1", "2", "3", "15", "16", "17", "22", "23", "24", "40", "100", "308", "309", "400", "0003",
            "4298", "4299", "4300", "4301", "5000", "99999999999999999999"]
    for m in mants:
        for x in exps:
            for e in ("e", "E"):
                for p in ("", "+"):
                    if len(x) == 4 and x != "0003":
                        # near the digit limit: 10^4299 costs the model about a second
                        if (e, p) != ("e", "") and not (thorough and m == "1"):
                            continue
                        if m not in ("1", "12", "-1", "00") and not thorough:
                            continue
                        out.append(m + e + p + x)
                    elif r.random() < (0.35 if not thorough else 1.0) or x in ("23", "400"):
                        out.append(m + e + p + x)
    out += ["1" + "0" * 4299, "1" + "0" * 4300, "9" * 4300, "-" + "9" * 4299, "-" + "9" * 4300]
    return list(dict.fromkeys(out))


def float_spellings(r: Any, thorough: bool) -> list[str]:
    out = ["1.0", "0.1", "-0.5", "1.50", "001.5", "3.14159", "1.5e3", "1.5E3", "1.5e+3", "1.5e-3", "1.5E-3",
           "1e-3", "1E-3", "-1e-3", "12e-0", "1e-0", "0.1e1", "1.0e400", "1.0e-400", "9007199254740993.0",
           "0.30000000000000004", "123456789012345678901234567890.5", "4.9e-324", "2.5e-324",
           "1.7976931348623157e308", "1.7976931348623159e308", "-0.0", "0.0", "00.00", "1.0e0003", "5e-1"]
    for _ in range(40 if not thorough else 400):
        m = str(r.randint(0, 10 ** r.randint(1, 20)))
        f = str(r.randint(0, 10 ** r.randint(1, 20)))
        s = ("-" if r.random() < 0.3 else "") + m + "." + ("0" * r.randint(0, 2)) + f
        if r.random() < 0.5:
            s += r.choice("eE") + r.choice(["", "+", "-"]) + str(r.randint(0, 330))
        out.append(s)
        if r.random() < 0.3:
            out.append(("-" if r.random() < 0.3 else "") + m + r.choice("eE") + "-" + str(r.randint(0, 340)))
    return list(dict.fromkeys(out))


def random_json(r: Any, depth: int) -> Any:
    k = r.random()
    if depth <= 0 or k < 0.5:
        k2 = r.random()
        if k2 < 0.15:
            return None
        if k2 < 0.3:
            return r.random() < 0.5
        if k2 < 0.55:
            return r.choice([0, -1, 1, 2**53 + 1, -(2**63), 10**40, r.randint(-10**20, 10**20), r.randint(-99, 99)])
        return random_string(r, 6)
    if k < 0.75:
        return [random_json(r, depth - 1) for _ in range(r.randint(0, 4))]
    d = {}
    for _ in range(r.randint(0, 4)):
        d[random_string(r, 4)] = random_json(r, depth - 1)
    return d


# ---------------------------------------------------------------- Coq printers


def c_tok(t: Any) -> str:
    if t[0] == "plain":
        return f"(TPlain {C.cstr(t[1])})"
    parts = []
    for k, v in t[1]:
        if k == "s":
            parts.append(f"PStr {C.cstr(v)}")
        else:
            parts.append("PExpr " + C.clist((C.cstr(w) for w in v), "str"))
    return "(TTemplate " + C.clist(parts, "(part (list str))") + ")"


def c_jv(v: Any) -> str:
    if v is None:
        return "JNull"
    if v is True:
        return "(JBool true)"
    if v is False:
        return "(JBool false)"
    if isinstance(v, int):
        return f"(JInt {C.cZ(v)})"
    if isinstance(v, str):
        return f"(JStr {C.cstr(v)})"
    if isinstance(v, list):
        return "(JList " + C.clist((c_jv(x) for x in v), "jv") + ")"
    if isinstance(v, dict):
        return "(JDict " + C.clist((C.cpair(C.cstr(k), c_jv(x)) for k, x in v.items()), "(str * jv)") + ")"
    raise TypeError(v)


def cq(q: str) -> str:
    return str(ord(q))


# ---------------------------------------------------------------- main



_WORDS = re.compile(r"[ \n\r\t]*(?:[A-Za-z_](?:[A-Za-z0-9_]|-(?![}%]\}))*(?![.\[A-Za-z0-9_\-\u0080-￿])[ \n\r\t]*)*\}")


def in_fragment(raw: str) -> bool:
    """Every bare `${` of raw is followed by whitespace-separated ASCII words and
    `}` (the fragment of sub-expressions the concrete sub-scanner models)."""
    i = 0
    while i < len(raw):
        if raw[i] == "\\":
            i += 2
            continue
        if raw[i] == "$" and raw[i + 1: i + 2] == "{":
            m = _WORDS.match(raw, i + 2)
            if not m:
                return False
            i = m.end()
            continue
        i += 1
    return True


def no_surr(s: str) -> bool:
    return not any(0xD800 <= ord(c) <= 0xDFFF for c in s)


class Run:
    """State of one run: the implementation, the case list, counters."""

    def __init__(self, chk: C.Check) -> None:
        self.chk = chk
        self.thorough = chk.tier == "thorough"
        self.r = C.rng("c20")
        self.im = Impl()
        self.items: list[dict[str, Any]] = []
        self.stats: dict[str, int] = {}
        self.nontrivial: set[str] = set()
        self.site_counts: dict[str, int] = {}
        self.timing: dict[str, float] = {}

    def add(self, kind: str, case: str, model: str, replay: dict[str, Any]) -> None:
        self.items.append({"case": case, "model": model, "replay": replay})
        self.stats[kind] = self.stats.get(kind, 0) + 1

    def count(self, kind: str, n: int = 1) -> None:
        self.stats[kind] = self.stats.get(kind, 0) + n

    def fail(self, sig: str, what: str, replay: dict[str, Any]) -> None:
        self.chk.finding(sig, what, replay)


def gen_valid(run: Run) -> dict[str, list[tuple[str, str, str]]]:
    """(q, intended, raw) triples."""
    r, thorough = run.r, run.thorough
    short: list[tuple[str, str, str]] = []
    for q in (SQ, DQ):
        short.append((q, "", ""))
        for n in (1, 2):
            for s, raw in enum_spellings(q, n):
                short.append((q, s, raw))
    three: list[tuple[str, str, str]] = []
    if thorough:
        for q in (SQ, DQ):
            for s, raw in enum_spellings(q, 3):
                three.append((q, s, raw))
    else:
        for q in (SQ, DQ):
            pool = [(c, p) for c in ALPHABET for p in spellings(c, q)]
            for _ in range(400):
                combo = [r.choice(pool) for _ in range(3)]
                three.append((q, "".join(c for c, _ in combo), "".join(p for _, p in combo)))
    longer: list[tuple[str, str, str]] = []
    for _ in range(300 if not thorough else 3000):
        q = r.choice((SQ, DQ))
        s = random_string(r, 12)
        longer.append((q, s, random_spelling(r, q, s, False)))
    return {"short": short, "three": three, "longer": longer}


def oracle_sites(run: Run, triples: Iterable[tuple[str, str, str]], site_names: list[str],
                 with_async: bool = False) -> None:
    im = run.im
    for ti, (q, s, raw) in enumerate(triples):
        for name in site_names:
            sd = SITES[name]
            if sd["render"] is None:
                continue
            want = ref_decode(q, raw, sd["template"])
            if want is None:
                continue     # a bare `${` at a template-string site: interpolation, not this oracle
            if name == "echo_liquid" and ("\n" in raw or "\r" in raw):
                continue     # a line statement ends at the newline
            if want != s:
                raise RuntimeError(f"harness: reference decoder disagrees with the generator on {raw!r}")
            out = attempt(sd["render"], im, q, raw, s)
            run.count("oracle_renders")
            run.site_counts[name] = run.site_counts.get(name, 0) + 1
            exp = sd["expect"](s)
            if out != ("ok", exp):
                got = out[1] if out[0] == "ok" else type(out[1]).__name__
                run.fail(f"literal-value:{name}",
                         f"site {name}: literal {lit(q, raw)!r} denotes {got!r}, written {s!r}",
                         {"site": name, "quote": q, "raw": raw, "intended": s, "got": got,
                          "source": sd["src"](q, raw)})
            if not with_async:
                continue
            im.mode = "async"
            try:
                aout = attempt(sd["render"], im, q, raw, s)
            finally:
                im.mode = "sync"
            run.count("oracle_renders")
            run.count("oracle_async_renders")
            if aout != ("ok", exp):
                got = aout[1] if aout[0] == "ok" else type(aout[1]).__name__
                run.fail(f"literal-value:async:{name}",
                         f"site {name} under render_async(): literal {lit(q, raw)!r} denotes {got!r}, written {s!r} "
                         f"(render() gives {out[1] if out[0] == 'ok' else type(out[1]).__name__!r})",
                         {"site": name, "quote": q, "raw": raw, "intended": s, "got": got, "mode": "render_async",
                          "source": sd["src"](q, raw)})
            if name not in PICKLE_SITES or (ti % 3 and not run.thorough):
                continue
            im.mode = "pickle"
            try:
                pout = attempt(sd["render"], im, q, raw, s)
            finally:
                im.mode = "sync"
            run.count("oracle_renders")
            run.count("oracle_pickle_renders")
            if pout != ("ok", exp):
                got = pout[1] if pout[0] == "ok" else type(pout[1]).__name__
                run.fail(f"literal-value:pickle:{name}",
                         f"site {name} after pickle.loads(pickle.dumps(template)): literal {lit(q, raw)!r} denotes {got!r}, "
                         f"written {s!r} (the template itself gives {out[1] if out[0] == 'ok' else type(out[1]).__name__!r})",
                         {"site": name, "quote": q, "raw": raw, "intended": s, "got": got, "mode": "pickle round trip",
                          "source": sd["src"](q, raw)})


def oracle_invalid(run: Run, mal: list[str]) -> None:
    from liquid2.exceptions import LiquidSyntaxError
    im = run.im
    for raw in mal:
        for q in (SQ, DQ):
            for name in ("output", "path", "include"):
                sd = SITES[name]
                if ref_decode(q, raw, sd["template"]) is not None or _has_bare(raw, q) \
                        or (sd["template"] and _has_interp(raw)):
                    continue     # valid, or not one literal (an unescaped quote / an interpolation)
                out = attempt(sd["render"], im, q, raw, "x")
                run.count("oracle_renders")
                run.count("oracle_invalid")
                if not (out[0] == "err" and isinstance(out[1], LiquidSyntaxError)):
                    got = out[1] if out[0] == "ok" else type(out[1]).__name__
                    run.fail(f"invalid-literal-accepted:{name}",
                             f"site {name}: invalid literal {lit(q, raw)!r} gives {got!r} instead of LiquidSyntaxError",
                             {"site": name, "quote": q, "raw": raw, "got": got})


SURROGATE_WINDOWS = ["\\u\ud800000", "\\u0\udc0000", "\\uD83D\\u\udfffE00", "\\u00e\ud83d", "a\ud800b", "\\uD83D\\uDE0\udc00"]


def tie_unescape(run: Run, inputs: list[str]) -> None:
    from liquid2.exceptions import LiquidSyntaxError
    im = run.im
    for raw in dict.fromkeys(inputs + SURROGATE_WINDOWS):
        if not no_surr(raw) and raw not in SURROGATE_WINDOWS:
            continue
        out = attempt(im.unescape, raw)
        run.add("unescape", f"une_ok {C.cstr(raw)} {c_res(out, C.cstr)}", f"unescape {C.cstr(raw)}",
                {"function": "liquid2.unescape", "value": raw,
                 "implementation": out[1] if out[0] == "ok" else errname(out)})
        if "\\" in raw:
            run.nontrivial.add("u:" + raw)
        if out[0] == "err" and not isinstance(out[1], LiquidSyntaxError):
            run.fail("unescape-python-exception", f"unescape({raw!r}) raises {type(out[1]).__name__}",
                     {"value": raw, "exception": type(out[1]).__name__})
        want = ref_decode(None, raw, False)
        if want is not None and out != ("ok", want):
            run.fail("unescape-value", f"unescape({raw!r}) gives {out[1]!r}, spelled {want!r}",
                     {"value": raw, "intended": want})
        if want is None and out[0] == "ok":
            run.fail("unescape-accepts-invalid", f"unescape({raw!r}) gives {out[1]!r} for an invalid spelling",
                     {"value": raw, "got": out[1]})


def tie_scanners(run: Run, inputs: list[tuple[str, str]], tails: list[str]) -> None:
    """The scanners called directly (any input), and through tokenize() for the
    inputs whose literal ends where the generator put the closing quote."""
    im, r = run.im, run.r
    seen: set[tuple[str, str]] = set()
    for q, raw in inputs:
        if (q, raw) in seen or not no_surr(raw):
            continue
        seen.add((q, raw))
        closed = r.random() < 0.9
        after = raw + (q + r.choice(tails) if closed else "")
        # accept_string
        out = attempt(im.direct_string, q, after)
        exp = c_res(out, lambda v: f"({C.cstr(v[0])}, {C.cstr(v[1])})")
        run.add("accept_string", f"str_ok {cq(q)} {C.cstr(after)} {exp}", f"accept_string {cq(q)} {C.cstr(after)}",
                {"function": "Lexer.accept_string", "quote": q, "after_quote": after,
                 "implementation": out[1] if out[0] == "ok" else errname(out)})
        # accept_template_string
        if in_fragment(raw):
            out = attempt(im.direct_template_string, q, after)
            exp = c_res(out, lambda v: f"({c_tok(v[0])}, {C.cstr(v[1])})")
            run.add("accept_template_string", f"scan_ok {cq(q)} {C.cstr(after)} {exp}",
                    f"scan_tok {cq(q)} {C.cstr(after)}",
                    {"function": "Lexer.accept_template_string", "quote": q, "after_quote": after,
                     "implementation": out[1] if out[0] == "ok" else errname(out)})
            if "\\" in raw or "${" in raw:
                run.nontrivial.add(f"s:{q}:{raw}")
        else:
            run.count("scan_outside_fragment")
        # the public path: tokenize() of a whole template
        if _has_bare(raw, q):
            continue
        if in_fragment(raw):
            src = "{{ " + q + raw + q + " }}"
            out = attempt(im.string_token, src)
            if out[0] == "ok":
                tok = im.tokens(src)[0].expression[0]
                if hasattr(tok, "template"):
                    # since 0015 of C17 the span of a template string token ends at its closing quote
                    stop = tok.stop + 1 if src[tok.stop: tok.stop + 1] == q else tok.stop
                else:
                    stop = tok.index + len(tok.value) + 1
                exp = f"(Ok ({c_tok(out[1])}, {C.cstr(src[stop:])}))"
            else:
                exp = c_err(out[1])
            run.add("tokenize_string", f"scan_ok {cq(q)} {C.cstr(raw + q + ' }}')} {exp}",
                    f"scan_tok {cq(q)} {C.cstr(raw + q + ' }}')}",
                    {"function": "liquid2.lexer.tokenize", "source": src,
                     "implementation": out[1] if out[0] == "ok" else errname(out)})
        psrc = "{{ x[" + q + raw + q + "] }}"
        pafter = raw + q + "] }}"
        pout = attempt(im.path_segment, psrc)
        if pout[0] == "ok":
            ptok = im.tokens(psrc)[0].expression[0]
            if not isinstance(pout[1], str) or len(ptok.path) != 2:
                continue
            # `]` follows the closing quote directly: the text after the quote starts at stop - 1
            pexp = f"(Ok ({C.cstr(pout[1])}, {C.cstr(psrc[ptok.stop - 1:])}))"
        else:
            pexp = c_err(pout[1])
        run.add("tokenize_segment", f"seg_ok {cq(q)} {C.cstr(pafter)} {pexp}", f"path_segment {cq(q)} {C.cstr(pafter)}",
                {"function": "liquid2.lexer.tokenize (path segment)", "source": psrc,
                 "implementation": pout[1] if pout[0] == "ok" else errname(pout)})


def tie_site_values(run: Run, inputs: list[tuple[str, str]], every: int) -> None:
    im = run.im
    rest = ["if", "include", "macro", "render", "filter_arg", "ternary", "assign", "include_alias",
            "extends", "include_with", "include_for_as", "render_with_as", "render_for_as", "include_with_as", "render_with"]
    seen: set[tuple[str, str, str]] = set()
    for idx, (q, raw) in enumerate(inputs):
        if not no_surr(raw):
            continue
        names = list(SITES) if idx % every == 0 else ["output", "path", rest[idx % len(rest)]]
        for name in names:
            sd = SITES[name]
            if sd["ast"] is None or (name, q, raw) in seen:
                continue
            seen.add((name, q, raw))
            src = sd["src"](q, raw)
            try:
                toks = im.tokens(src)
                if name == "path":
                    ptok = toks[0].expression[0]
                    if len(ptok.path) != 2 or ptok.stop != len("{{ x[") + len(raw) + 3:
                        continue      # the closing quote is not where the generator put it
                else:
                    want_q = im.TokenType.SINGLE_QUOTE_STRING if q == SQ else im.TokenType.DOUBLE_QUOTE_STRING
                    if not any(getattr(t, "type_", None) == want_q and getattr(t, "value", None) == raw
                               for t in toks[0].expression):
                        continue      # not lexed as one plain string token (the scanner tie covers it)
            except Exception:  # noqa: BLE001 - lexing failed: the scanner tie covers it
                continue
            out = attempt(lambda sd=sd, src=src: sd["ast"](im.parse(src, {"p": ""})))
            if out[0] == "err" and not _is_liquid(out[1]) and not isinstance(out[1], (IndexError, ValueError, UnicodeError)):
                raise out[1]
            run.add("site_value", f"val_ok {sd['site']} {cq(q)} {C.cstr(raw)} {c_res(out, C.cstr)}",
                    f"site_value {sd['site']} {cq(q)} {C.cstr(raw)}",
                    {"site": name, "source": src, "implementation": out[1] if out[0] == "ok" else errname(out)})
            run.count("site_value:" + name)


def gen_template_strings(run: Run, pool: list[tuple[str, str, str]], n: int) -> list[tuple[str, str]]:
    r = run.r
    bodies = ["x", " x ", "x y", "", " ", "y\t", "\nx\n", "y", "x-", "a-b", "x- "]
    out: list[tuple[str, str]] = []
    for _ in range(n):
        q = r.choice((SQ, DQ))
        segs = []
        for _ in range(r.randint(1, 3)):
            _, s, _ = r.choice(pool)
            segs.append(random_spelling(r, q, s, True))
            segs.append("${" + r.choice(bodies) + "}")
        if r.random() < 0.6:
            _, s, _ = r.choice(pool)
            segs.append(random_spelling(r, q, s, True))
        if r.random() < 0.15:
            segs.insert(r.randrange(len(segs) + 1), r.choice(["$", "{", "\\${x}", "$\\u007bx}", "${x}}", "$$", "}"]))
        out.append((q, "".join(segs)))
    return out


def tie_template_values(run: Run, cases: list[tuple[str, str]]) -> None:
    im = run.im
    for q, raw in cases:
        if not no_surr(raw) or not in_fragment(raw):
            continue
        src = "{{ " + q + raw + q + " }}"
        try:
            tok = im.string_token(src)
        except Exception:  # noqa: BLE001
            continue
        if tok[0] == "tmpl" and any(k == "e" and (len(v) != 1 or v[0] not in ("x", "y")) for k, v in tok[1]):
            continue        # `${}` / `${x y}`: parse errors of the sub-expression, outside the model
        xv, yv = "<Xé>", "${y}"
        out = attempt(im.render, src, {"x": xv, "y": yv})
        after = raw + q + " }}"
        run.add("template_string", f"tsv_ok {cq(q)} {C.cstr(xv)} {C.cstr(yv)} {C.cstr(after)} {c_res(out, C.cstr)}",
                f"scan_tok {cq(q)} {C.cstr(after)}",
                {"source": src, "data": {"x": xv, "y": yv},
                 "implementation": out[1] if out[0] == "ok" else errname(out)})
        want = _ref_template(q, raw, {"x": xv, "y": yv})
        if want is not None and out != ("ok", want):
            got = out[1] if out[0] == "ok" else type(out[1]).__name__
            run.fail("template-string-value", f"{src!r} renders {got!r}, written {want!r}",
                     {"source": src, "intended": want, "got": got})
        run.nontrivial.add(f"t:{q}:{raw}")


def c_bigint(v: int, mant: int | None = None, ex: int = 0) -> str | None:
    """A Coq term for the Python int v (long values only in factored form)."""
    if len(str(abs(v))) <= 120:
        return C.cZ(v)
    if mant is not None and mant * 10 ** ex == v:
        return f"({C.cZ(mant)} * 10 ^ {ex})%Z"
    return None


def tie_numbers(run: Run) -> None:
    im, r, thorough = run.im, run.r, run.thorough
    maxlen = 4 if not thorough else 5
    num_inputs: list[str] = []
    for n in range(1, maxlen + 1):
        for combo in itertools.product(NUM_ALPHA, repeat=n):
            if combo[0] in "019-" and (thorough or n < 4 or r.random() < 0.12):
                num_inputs.append("".join(combo))
    for _ in range(300 if not thorough else 3000):
        num_inputs.append("".join(r.choice(NUM_ALPHA) for _ in range(r.randint(5, 10))))
    ints = int_spellings(r, thorough)
    floats = float_spellings(r, thorough)
    num_inputs += [s for s in ints if len(s) < 60] + floats
    for s in dict.fromkeys(num_inputs):
        m = im.Lexer.TOKEN_RULES.match(s)
        if m and m.lastgroup in ("FLOAT", "INT"):
            exp = f"(Some ({'KFloat' if m.lastgroup == 'FLOAT' else 'KInt'}, {C.cstr(m.group())}, {C.cstr(s[m.end():])}))"
        else:
            exp = "None"
        run.add("num_token", f"num_ok {C.cstr(s)} {exp}", f"num_token {C.cstr(s)}",
                {"function": "Lexer.TOKEN_RULES.match", "text": s,
                 "implementation": [m.lastgroup, m.group()] if m else None})
    run.num_maxlen = maxlen  # type: ignore[attr-defined]

    limit = im.max_str_int
    re_int = re.compile(r"-?[0-9]+(?:[eE]\+?[0-9]+)?")
    garbage = ["", "e", "1e", "e1", "+1", "1e+", "1e-3", "--1", "1ee2", "1e2e3", "-", "1E", "1.5", "1e1.5", "1e+-2"]
    for s in ints + garbage:
        valid_int = bool(re_int.fullmatch(s))
        mant_s, _, ex_s = s.lower().partition("e")
        if im.parse_integer_literal is not None:
            tok = im.Token(type_=im.TokenType.INT, value=s, index=0, source=s)
            out = attempt(im.parse_integer_literal, tok)
            exp: str | None
            if out[0] == "ok" and not isinstance(out[1], int):
                exp = "(PyExc OtherPyError)"      # int * float: a negative exponent, never an INT token
            elif out[0] == "ok":
                fact = (int(mant_s), int(ex_s)) if valid_int and ex_s and len(ex_s) < 6 else (None, 0)
                z = c_bigint(out[1], *fact)
                exp = f"(Ok {z})" if z is not None else None
            else:
                exp = c_err(out[1])
            if exp is not None:
                run.add("int_literal", f"int_ok {limit} {C.cstr(s)} {exp}", f"parse_integer_literal {limit} {C.cstr(s)}",
                        {"function": "parse_integer_literal", "value": s[:100],
                         "implementation": str(out[1])[:100] if out[0] == "ok" else errname(out)})
        if not valid_int:
            continue
        digits_needed = len(mant_s.lstrip("-").lstrip("0") or "0") + (int(ex_s or "0") if len(ex_s) < 7 else 10**7)
        out = attempt(im.render, "{{ " + s + " }}")
        run.count("oracle_renders")
        if digits_needed > 4000:
            # near or beyond the digit limit: a LiquidError is acceptable, a Python exception is not
            if out[0] == "err" and not _is_liquid(out[1]):
                run.fail("int-literal-python-exception", f"{{{{ {s[:40]} }}}} raises {type(out[1]).__name__}",
                         {"source": "{{ " + s[:200] + " }}", "exception": type(out[1]).__name__})
            continue
        want = str(int(mant_s) * 10 ** int(ex_s or "0"))
        if out != ("ok", want):
            got = out[1] if out[0] == "ok" else type(out[1]).__name__
            sig = "int-literal-python-exception" if out[0] == "err" and not _is_liquid(out[1]) else "int-literal-value"
            run.fail(sig, f"{{{{ {s} }}}} renders {str(got)[:60]!r}, written {want[:60]!r}",
                     {"source": "{{ " + s + " }}", "intended": want, "got": str(got)})
        if abs(int(want)) >= 2**53 or ex_s:
            run.nontrivial.add("i:" + s)
        if len(want) < 40 and r.random() < 0.25:
            src = "{% assign z = " + s + " %}{{ z }}|{% if " + s + " == v %}T{% endif %}|{{ 0 | plus: " + s + " }}"
            o2 = attempt(im.render, src, {"v": int(want)})
            run.count("oracle_renders")
            if o2 != ("ok", f"{want}|T|{want}"):
                got = o2[1] if o2[0] == "ok" else type(o2[1]).__name__
                run.fail("int-literal-value", f"integer literal {s} at assign/if/filter argument: {got!r}",
                         {"source": src, "intended": want, "got": str(got)})

    for s in floats:
        d = Decimal(s)
        sign, digits, e = d.as_tuple()
        m = int("".join(map(str, digits)) or "0")
        run.add("float_decimal", f"dec_ok {C.cstr(s)} (Some ({C.cZ(-m if sign else m)}, {C.cZ(e)}))",
                f"float_decimal {C.cstr(s)}",
                {"function": "decimal.Decimal", "text": s, "implementation": str(d.as_tuple())})
        out = attempt(im.render, "{{ " + s + " }}")
        run.count("oracle_renders")
        if not (out[0] == "ok" and _float_eq(out[1], float(d))):
            got = out[1] if out[0] == "ok" else type(out[1]).__name__
            run.fail("float-literal-value",
                     f"{{{{ {s} }}}} renders {got!r}, nearest binary64 of what is written is {float(d)!r}",
                     {"source": "{{ " + s + " }}", "got": str(got), "intended": repr(float(d))})
        run.nontrivial.add("f:" + s)


def tie_json(run: Run) -> None:
    im, r = run.im, run.r
    jvals: list[Any] = [None, True, False, 0, -1, 2**53 + 1, 10**40, -(10**40), "", "a", "\"", "\\", "\n\r\t\x08\x0c",
                        "\x1f\x7f\u0080é ￿", "\U00010000\U0001F600\U0010FFFF", "${x}{{ y }}{% z %}",
                        "'", "/", [], {}, [[]], [{}], {"": ""}, {"a": [1, {"b": None}]}, [1, [2, [3, [4]]]],
                        {"k\"": "v\\", "é": [True, False]}, "</script>", "\x08\x09\x0a\x0b\x0c\x0d\x0e"]
    jvals += ALPHABET + EXTRA_CHARS
    for _ in range(250 if not run.thorough else 2500):
        jvals.append(random_json(r, 3))
    for v in jvals:
        out = attempt(im.render, "{{ x | json }}", {"x": v})
        run.count("oracle_renders")
        if out[0] != "ok":
            run.fail("json-exception", f"json filter raises {type(out[1]).__name__} on {v!r}"[:200],
                     {"value": v, "exception": type(out[1]).__name__})
            continue
        try:
            back = json.loads(out[1])
        except Exception as e:  # noqa: BLE001
            back = e
        if not _json_equal(back, v):
            run.fail("json-roundtrip", f"json.loads(render) = {back!r} for input {v!r}"[:300],
                     {"value": v, "output": out[1]})
        run.add("json", f"json_ok {c_jv(v)} {C.cstr(out[1])}", f"json_filter {c_jv(v)}",
                {"template": "{{ x | json }}", "x": v, "implementation": out[1]})
        try:
            cback = None if isinstance(back, BaseException) else c_jv(back)
        except TypeError:
            cback = None      # a float came back: outside the model, and already reported by the oracle above
        if cback is not None:
            run.add("json_decode", f"jdec_ok {C.cstr(out[1])} {cback}", f"json_decode {C.cstr(out[1])}",
                    {"function": "json.loads", "text": out[1], "implementation": back})
        if out[1] != json.dumps(v, ensure_ascii=False, separators=(",", ":")):
            run.nontrivial.add("j:" + out[1])


# ---------------------------------------------------------------- string literals as template names

NAME_STRINGS = ["layouts\\base", "code\\u0041", "\\\\server\\share", "a\"b", "a'b", "a\nb", "a\\nb", "\\n", "\\t\\\\", "☺",
                "\\", "\\\\", "\\'", "\\\"", "x\\u00e9", "\\uD83D\\uDE00", "dir/partial.liquid", "a\\/b", "${x}", "\\${x}",
                "é\U0001F600", "tab\there", "\\b", "..\\up", "", " ", "a b", "{{ name }}", "{% raw %}", "%}", "}}"]
NAME_TAGS = {"extends": "{%% extends %s %%}", "include": "{%% include %s %%}", "render": "{%% render %s %%}"}


def make_recording_loader(im: Impl, templates: dict[str, str]) -> Any:
    class Recording(im.DictLoader):  # type: ignore[misc,name-defined]
        def __init__(self, t: dict[str, str]) -> None:
            super().__init__(t)
            self.asked: list[str] = []

        def get_source(self, env: Any, template_name: str, *, context: Any = None, **kwargs: Any) -> Any:
            self.asked.append(template_name)
            return super().get_source(env, template_name, context=context, **kwargs)

        async def get_source_async(self, env: Any, template_name: str, *, context: Any = None, **kwargs: Any) -> Any:
            self.asked.append(template_name)
            return await super().get_source_async(env, template_name, context=context, **kwargs)

    return Recording(templates)


def oracle_template_names(run: Run, triples: list[tuple[str, str, str]]) -> None:
    """extends / include / render with a literal name: the loader is asked for
    exactly the string the literal denotes, under render() and render_async().
    Decoys sit under the raw spelling and under the name unescaped once more."""
    im = run.im
    for q, s, raw in triples:
        if ref_decode(q, raw, True) != s:
            continue
        templates = {s: "BODY"}
        for decoy in (raw, ref_decode(DQ, s, False), ref_decode(SQ, s, False), s.replace("\\'", "'")):
            if decoy is not None and decoy != s:
                templates.setdefault(decoy, "DECOY")
        literal = lit(q, raw)
        for tag, fmt in NAME_TAGS.items():
            src = fmt % literal
            for mode in ("sync", "async"):
                loader = make_recording_loader(im, templates)
                env = im.Environment(loader=loader)
                im.mode = mode
                try:
                    out = attempt(lambda env=env, src=src: im.run_template(env.from_string(src)))
                finally:
                    im.mode = "sync"
                run.count("oracle_renders")
                run.count("template_name_renders")
                asked = list(dict.fromkeys(loader.asked))
                if out != ("ok", "BODY") or asked != [s]:
                    got = out[1] if out[0] == "ok" else type(out[1]).__name__
                    run.fail(f"template-name:{tag}" + (":async" if mode == "async" else ""),
                             f"{src!r} ({'render_async' if mode == 'async' else 'render'}): the loader was asked for {asked!r} "
                             f"and the result is {got!r}; the literal denotes the name {s!r}",
                             {"tag": tag, "mode": mode, "source": src, "intended_name": s, "requested": asked,
                              "got": got, "templates": templates})
        if "\\" in raw:
            run.nontrivial.add(f"n:{q}:{raw}")


def gen_name_literals(run: Run, pool: list[tuple[str, str, str]]) -> list[tuple[str, str, str]]:
    r = run.r
    out: list[tuple[str, str, str]] = []
    for s in NAME_STRINGS:
        for q in (SQ, DQ):
            out.append((q, s, "".join(spellings(c, q)[0] for c in s)))         # plainest
            out.append((q, s, "".join(spellings(c, q)[-1] for c in s)))        # every character escaped
            for _ in range(2 if not run.thorough else 12):
                out.append((q, s, random_spelling(r, q, s, True)))
    return list(dict.fromkeys(out + pool))


def oracle_binding_template_strings(run: Run, cases: list[tuple[str, str]]) -> None:
    """`include/render ... with/for <interpolated string> as v`: the partial is
    rendered once with the string, under render() and render_async()."""
    im = run.im
    data = {"x": "<Xé>", "y": "${y}"}
    forms = ["{%% include 'pv' with %s as v %%}", "{%% include 'pv' for %s as v %%}", "{%% include 'p' with %s %%}",
             "{%% render 'pv' with %s as v %%}", "{%% render 'pv' for %s as v %%}", "{%% render 'p' for %s %%}"]
    for q, raw in cases:
        if not no_surr(raw) or not in_fragment(raw):
            continue
        want = _ref_template(q, raw, data)
        if want is None:
            continue
        for fmt in forms:
            src = fmt % lit(q, raw)
            outs = {}
            for mode in ("sync", "async"):
                im.mode = mode
                try:
                    outs[mode] = attempt(im.render, src, data, BIND_TEMPLATES)
                finally:
                    im.mode = "sync"
                run.count("oracle_renders")
                run.count("oracle_async_renders", 1 if mode == "async" else 0)
            for mode in ("sync", "async"):
                if outs[mode] != ("ok", "[" + want + "]"):
                    got = outs[mode][1] if outs[mode][0] == "ok" else type(outs[mode][1]).__name__
                    run.fail("literal-value:binding" + (":async" if mode == "async" else ""),
                             f"{src!r} under {'render_async' if mode == 'async' else 'render'}(): the partial writes {got!r}, "
                             f"the string bound is {want!r}",
                             {"source": src, "mode": mode, "data": data, "intended": "[" + want + "]", "got": got})
                    break


# ---------------------------------------------------------------- integer literals as range bounds

# name: (source with %(r)s = the range literal and %(x)s = a plain spelling of its first item,
#        what must be written given the exact items)
RANGE_SITES: dict[str, tuple[str, Any]] = {
    "size": ("{{ %(r)s | size }}", lambda it: str(len(it))),          # rendered first: guards the others
    "first": ("{{ %(r)s | first }}", lambda it: str(it[0])),
    "last": ("{{ %(r)s | last }}", lambda it: str(it[-1])),
    "join": ("{{ %(r)s | join: ',' }}", lambda it: ",".join(map(str, it))),
    "output": ("{{ %(r)s }}", lambda it: f"{it[0]}..{it[-1]}"),
    "for": ("{%% for i in %(r)s %%}[{{ i }}]{%% endfor %%}", lambda it: "".join(f"[{i}]" for i in it)),
    "for_reversed": ("{%% for i in %(r)s reversed %%}[{{ i }}]{%% endfor %%}",
                     lambda it: "".join(f"[{i}]" for i in reversed(it))),
    "for_limit": ("{%% for i in %(r)s limit: 1 %%}[{{ i }}]{%% endfor %%}", lambda it: f"[{it[0]}]"),
    "forloop_length": ("{%% for i in %(r)s %%}{{ forloop.length }};{%% endfor %%}", lambda it: f"{len(it)};" * len(it)),
    "contains_first": ("{%% if %(r)s contains %(x)s %%}T{%% else %%}F{%% endif %%}", lambda it: "T"),
    "contains_before": ("{%% if %(r)s contains %(before)s %%}T{%% else %%}F{%% endif %%}", lambda it: "F"),
    "contains_after": ("{%% if %(r)s contains %(after)s %%}T{%% else %%}F{%% endif %%}", lambda it: "F"),
    "assign": ("{%% assign r = %(r)s %%}{{ r | first }}|{{ r | last }}|{{ r | size }}",
               lambda it: f"{it[0]}|{it[-1]}|{len(it)}"),
    "cycle": ("{%% cycle %(r)s, 2 %%}", lambda it: f"{it[0]}..{it[-1]}"),
    "case_for": ("{%% case 1 %%}{%% when 1 %%}{%% for i in %(r)s %%}{{ i }};{%% endfor %%}{%% endcase %%}",
                 lambda it: "".join(f"{i};" for i in it)),
    "reverse_first": ("{{ %(r)s | reverse | first }}", lambda it: str(it[-1])),
    "ternary": ("{{ %(r)s if true else 1 }}", lambda it: f"{it[0]}..{it[-1]}"),
}


def range_bound_literals(r: Any, thorough: bool) -> list[tuple[str, int]]:
    """(spelling, exact value) of integer literals that are not all doubles."""
    vals = [2**53 - 1, 2**53, 2**53 + 1, 2**53 + 3, 9007199254740993, 2**63 - 1, 2**63, 2**63 + 1, 2**64 - 1, 2**64,
            2**64 + 1, 10**22, 10**22 + 1, 10**22 - 1, 10**23, 10**23 + 1, 10**23 - 1, 5 * 10**22 + 7, 10**40 + 1, 7, 0]
    for _ in range(6 if not thorough else 60):
        vals.append(r.randint(2**53, 10**24))
    out: list[tuple[str, int]] = []
    for v in vals:
        out.append((str(v), v))
        out.append(("-" + str(v), -v))
        out.append((str(v) + r.choice(["e0", "E0", "e+0"]), v))
    for m, e in [(1, 22), (1, 23), (12, 22), (9, 22), (123, 21), (1, 24), (3, 23), (9007199254740993, 1), (1, 16), (1, 17)]:
        for sp in (f"{m}e{e}", f"{m}E+{e}", f"-{m}e{e}"):
            out.append((sp, (-1 if sp[0] == "-" else 1) * m * 10**e))
    return list(dict.fromkeys(out))


def oracle_range_bounds(run: Run) -> None:
    """An integer literal denotes the number written when it is a bound of a
    range literal too: start, stop or both, under render() and render_async().
    Ranges are tiny (L..L, L..L+2, L-2..L); `| size` is rendered first and a
    wrong size stops the case, and loops are capped, so a widened range cannot
    run away."""
    im = run.im

    class Capped(im.Environment):  # type: ignore[misc,name-defined]
        loop_iteration_limit = 64

    env = Capped()
    limit = im.max_str_int
    lits = range_bound_literals(run.r, run.thorough)
    for idx, (sp, n) in enumerate(lits):
        shapes = [("both", f"({sp}..{sp})", [n]),
                  ("start", f"({sp}..{n + 2})", [n, n + 1, n + 2]),
                  ("stop", f"({n - 2}..{sp})", [n - 2, n - 1, n])]
        for shape, rng, items in shapes:
            env_args = {"r": rng, "x": str(items[0]), "before": str(items[0] - 1), "after": str(items[-1] + 1)}
            names = list(RANGE_SITES) if run.thorough or idx % 3 == 0 or shape == "both" else ["size", "first", "last", "for"]
            for name in names:
                fmt, expect = RANGE_SITES[name]
                src = fmt % env_args
                want = expect(items)
                stop_case = False
                for mode in ("sync", "async"):
                    im.mode = mode
                    try:
                        out = attempt(lambda src=src: im.run_template(env.from_string(src)))
                    finally:
                        im.mode = "sync"
                    run.count("oracle_renders")
                    run.count("range_bound_renders")
                    if out != ("ok", want):
                        got = out[1] if out[0] == "ok" else type(out[1]).__name__
                        run.fail("int-literal-value:range-bound" + (":async" if mode == "async" else ""),
                                 f"{src!r} ({'render_async' if mode == 'async' else 'render'}) writes {str(got)[:120]!r}; "
                                 f"the {shape} bound {sp} denotes {n}, so it must write {want[:120]!r}",
                                 {"source": src, "mode": mode, "bound": shape, "literal": sp, "intended": want,
                                  "got": str(got)})
                        stop_case = stop_case or name == "size"
                if stop_case:
                    break
            run.nontrivial.add(f"rb:{shape}:{sp}")
        # the tie: the bound the evaluated range really has is the model's value of the spelling
        out = attempt(lambda sp=sp: env.from_string("{{ (%s..%s) | first }}" % (sp, sp)).render())
        if out[0] == "ok" and re.fullmatch(r"-?[0-9]+", out[1]):
            z = c_bigint(int(out[1]))
            if z is not None:
                run.add("range_bound", f"int_ok {limit} {C.cstr(sp)} (Ok {z})", f"parse_integer_literal {limit} {C.cstr(sp)}",
                        {"source": "{{ (%s..%s) | first }}" % (sp, sp), "implementation": out[1]})


# ---------------------------------------------------------------- string literal as a for-loop offset

OFFSET_STRINGS = ["continue", "continue!", "Continue", " continue", "continu", "1", "2", "01", "0", "", "x", "1.5", "-1", "9", "١"]


def oracle_for_offset(run: Run) -> None:
    """`offset: <string literal>`: the string is converted to a number like any
    other value; only the bare word `continue` is the keyword (fix 0005)."""
    from liquid2.exceptions import LiquidTypeError
    im, r = run.im, run.r
    data = {"a": [1, 2, 3, 4]}
    head = "{% for x in a limit: 2 %}{{ x }}{% endfor %}|"
    for s in OFFSET_STRINGS:
        try:
            n: int | None = int(s)
        except ValueError:
            n = None
        for q in (SQ, DQ):
            raws = {"".join(spellings(c, q)[0] for c in s), "".join(spellings(c, q)[-1] for c in s),
                    random_spelling(r, q, s, True)}
            for raw in sorted(raws):
                for tag, fmt in (("for", "{%% for x in a offset: %s %%}{{ x }}{%% endfor %%}"),
                                 ("for=", "{%% for x in a offset=%s limit: 9 %%}{{ x }}{%% endfor %%}")):
                    src = head + fmt % lit(q, raw)
                    want = None if n is None else "12|" + "".join(map(str, data["a"][min(max(n, 0), 4):]))
                    for mode in ("sync", "async"):
                        im.mode = mode
                        try:
                            out = attempt(im.render, src, data)
                        finally:
                            im.mode = "sync"
                        run.count("oracle_renders")
                        run.count("for_offset_renders")
                        ok = out == ("ok", want) if want is not None else (out[0] == "err" and isinstance(out[1], LiquidTypeError))
                        if not ok:
                            got = out[1] if out[0] == "ok" else type(out[1]).__name__
                            run.fail("literal-value:for-offset" + (":async" if mode == "async" else ""),
                                     f"{src!r} ({'render_async' if mode == 'async' else 'render'}) gives {got!r}; the offset is the "
                                     f"string {s!r}, so it must " + (f"write {want!r}" if want is not None else "raise LiquidTypeError"),
                                     {"source": src, "mode": mode, "data": data, "offset_string": s, "got": str(got),
                                      "intended": want if want is not None else "LiquidTypeError"})
        run.nontrivial.add("fo:" + s)
    # the keyword itself still resumes
    src = head + "{% for x in a offset: continue %}{{ x }}{% endfor %}"
    for mode in ("sync", "async"):
        im.mode = mode
        try:
            out = attempt(im.render, src, data)
        finally:
            im.mode = "sync"
        if out != ("ok", "12|34"):
            run.fail("for-offset-keyword", f"{src!r} gives {out[1]!r}, the keyword continue resumes after the first loop",
                     {"source": src, "mode": mode})


# ---------------------------------------------------------------- string literals inside ${ ... }

def oracle_nested_literals(run: Run, pool: list[tuple[str, str, str]]) -> None:
    """An interpolation may itself contain string literals (empty ones too) and
    further interpolated strings; the literal text around it must survive.
    Outside the Coq fragment (the sub-expression scanner is a parameter there):
    direct oracle, render() / render_async() / pickle round trip."""
    im, r = run.im, run.r
    data = {"y": "a-b", "d": {"": "E", "k": "K"}, "z": "Z"}
    # (interpolation body for an outer quote o / inner quote i, its value)
    bodies = [
        ("x | default: %(i)s%(i)s", ""), ("y | replace: %(i)s-%(i)s, %(i)s%(i)s", "ab"), ("%(i)s%(i)s", ""),
        ("%(i)sc%(i)s", "c"), ("%(i)s%(i)s | append: %(i)sq%(i)s", "q"), ("z | append: %(i)s%(i)s", "Z"),
        ("d[%(i)s%(i)s]", "E"), ("d[%(i)sk%(i)s]", "K"), ("%(i)s%(i)s | default: %(i)sv%(i)s", "v"),
        ("%(i)sl${z}r%(i)s", "lZr"), ("%(i)s${ %(o)s%(o)s }%(i)s", ""), ("%(i)s${z}%(i)s | append: %(i)s%(i)s", "Z"),
        ("z | prepend: %(i)s${ %(o)s%(o)s }p%(i)s", "pZ"), ("x | default: %(i)s%(i)s | append: %(i)s%(i)s", ""),
    ]
    texts = [("a", "a", "b", "b"), ("", "", "b", "b"), ("a", "a", "", ""), ("[", "[", "]", "]")]
    for q, s, raw in pool:
        if ref_decode(q, raw, True) == s and not _has_interp(raw) and r.random() < 0.5:
            texts.append((raw, s, raw, s))
    forms = ["{{ %s }}", "{%% assign v = %s %%}{{ v }}", "{{ 'x' | append: %s }}"]
    for o, i in ((DQ, SQ), (SQ, DQ)):
        for bi, (body, bval) in enumerate(bodies):
            for ti, (raw0, s0, raw1, s1) in enumerate(texts):
                if ti >= 4 and (bi + ti) % 5:
                    continue
                if ti >= 4 and (ref_decode(o, raw0, True) != s0):
                    continue          # the pooled spelling belongs to the other kind of quotes
                btxt = body % {"i": i, "o": o}
                tail = "${ %s }" % btxt
                literal = o + raw0 + tail + raw1 + tail + raw0 + o
                want_val = s0 + bval + s1 + bval + s0
                for fi, fmt in enumerate(forms):
                    if fi and ti >= 2:
                        continue
                    src = fmt % literal
                    want = ("x" if fi == 2 else "") + want_val
                    for mode in ("sync", "async", "pickle"):
                        im.mode = mode
                        try:
                            out = attempt(im.render, src, data)
                        finally:
                            im.mode = "sync"
                        run.count("oracle_renders")
                        run.count("nested_literal_renders")
                        if out != ("ok", want):
                            got = out[1] if out[0] == "ok" else type(out[1]).__name__
                            run.fail("literal-value:nested-in-interpolation" + ("" if mode == "sync" else ":" + mode),
                                     f"{src!r} ({mode}) writes {got!r}; the literal text around the interpolations is "
                                     f"{s0!r} / {s1!r}, so it must write {want!r}",
                                     {"source": src, "mode": mode, "data": data, "intended": want, "got": got})
                run.nontrivial.add(f"nl:{o}:{bi}:{ti}")


# ---------------------------------------------------------------- auto_escape x literal positions

AE_TEMPLATES = {"p": "{{ s }}"}

# name: (source with %s for the literal, what the render must write given the intended string s)
AE_SITES: dict[str, tuple[str, Any]] = {
    "output": ("{{ %s }}", lambda s: s),
    "echo": ("{%% echo %s %%}", lambda s: s),
    "assign": ("{%% assign z = %s %%}{{ z }}", lambda s: s),
    "capture": ("{%% capture c %%}{{ %s }}{%% endcapture %%}{{ c }}", lambda s: s),
    "filter_pos_append": ("{{ 'x' | append: %s }}", lambda s: "x" + s),
    "filter_pos_prepend": ("{{ 'x' | prepend: %s }}", lambda s: s + "x"),
    "filter_pos_default": ("{{ nil | default: %s }}", lambda s: s),
    "filter_pos_default_kw": ("{{ false | default: %s, allow_false: false }}", lambda s: s),
    "filter_pos_join": ("{{ arr | join: %s }}", lambda s: "1" + s + "2"),
    "filter_pos_replace": ("{{ 'a_b' | replace: '_', %s }}", lambda s: "a" + s + "b"),
    "filter_pos_replace_first": ("{{ 'a_b' | replace_first: '_', %s }}", lambda s: "a" + s + "b"),
    "filter_pos_split": ("{{ h | split: %s | join: '|' }}", lambda s: "1|2"),
    "filter_pos_identity": ("{{ 1 | c20pos: %s }}", lambda s: s),
    "filter_pos_second": ("{{ 1 | c20pos2: 'k', %s }}", lambda s: s),
    "filter_kw_colon": ("{{ 1 | c20kw: s: %s }}", lambda s: s),
    "filter_kw_equals": ("{{ 1 | c20kw: s=%s }}", lambda s: s),
    "filter_left": ("{{ %s | c20left }}", lambda s: s),
    "filter_chain": ("{{ 'x' | append: %s | append: 'y' }}", lambda s: "x" + s + "y"),
    "tag_kw_with": ("{%% with s: %s %%}{{ s }}{%% endwith %%}", lambda s: s),
    "tag_kw_render": ("{%% render 'p', s: %s %%}", lambda s: s),
    "tag_kw_include": ("{%% include 'p', s: %s %%}", lambda s: s),
    "tag_with_render": ("{%% render 'p' with %s as s %%}", lambda s: s),
    "tag_with_include": ("{%% include 'p' with %s as s %%}", lambda s: s),
    "macro_call_kw": ("{%% macro m, s %%}{{ s }}{%% endmacro %%}{%% call m, s: %s %%}", lambda s: s),
    "macro_call_pos": ("{%% macro m, s %%}{{ s }}{%% endmacro %%}{%% call m, %s %%}", lambda s: s),
    "macro_default": ("{%% macro m, s: %s %%}{{ s }}{%% endmacro %%}{%% call m %%}", lambda s: s),
    "cycle": ("{%% cycle %s, 'b' %%}", lambda s: s),
    "ternary": ("{{ %s if true else 'n' }}", lambda s: s),
    "ternary_else": ("{{ 'n' if false else %s }}", lambda s: s),
    "case_when": ("{%% case v %%}{%% when %s %%}T{%% else %%}F{%% endcase %%}", lambda s: "T"),
    "if_eq": ("{%% if %s == v %%}T{%% else %%}F{%% endif %%}", lambda s: "T"),
    "path_segment": ("{{ x[%s] }}", lambda s: "V"),
}

AE_SPECIALS = ["&", "<", ">", "'", '"']


def ae_environments(im: Impl) -> dict[bool, Any]:
    envs = {}
    for ae in (False, True):
        env = im.Environment(loader=im.DictLoader(dict(AE_TEMPLATES)), auto_escape=ae)
        env.filters["c20pos"] = lambda left, arg: arg
        env.filters["c20pos2"] = lambda left, a, b: b
        env.filters["c20left"] = lambda left: left

        def kw(left: object, *, s: object = "") -> object:
            return s
        env.filters["c20kw"] = kw
        envs[ae] = env
    return envs


def oracle_autoescape(run: Run, triples: list[tuple[str, str, str]]) -> None:
    """auto_escape off/on x every literal position: what is written is the
    literal's text; in an interpolated string the literal parts are written as
    they are and only the interpolated values are escaped (fix 0004)."""
    from markupsafe import escape
    im = run.im
    envs = ae_environments(im)
    xv = "<d&>"
    for q, s, raw in triples:
        if ref_decode(q, raw, True) != s:
            continue          # a bare `${`: interpolation (covered below)
        literal = lit(q, raw)
        data = {"arr": ["1", "2"], "h": "1" + s + "2", "v": s, "x": {s: "V"}}
        for name, (fmt, expect) in AE_SITES.items():
            if name == "filter_pos_split" and (s == "" or "1" in s or "2" in s):
                continue
            src = fmt % literal
            want = expect(s)
            outs = {}
            for ae, env in envs.items():
                outs[ae] = attempt(lambda env=env, src=src: env.from_string(src).render(**data))
                run.count("oracle_renders")
                run.count("autoescape_renders")
            for ae in (False, True):
                if outs[ae] != ("ok", want):
                    got = outs[ae][1] if outs[ae][0] == "ok" else type(outs[ae][1]).__name__
                    run.fail(f"literal-value:auto_escape={ae}:{name}",
                             f"auto_escape={ae}, position {name}: literal {literal!r} writes {got!r}, written {want!r}",
                             {"auto_escape": ae, "position": name, "source": src, "data": data,
                              "intended": want, "got": got})
        # interpolated strings around the literal text: the literal parts are template text
        # (as in the equivalent capture block / append chain), only the value of y is escaped
        if not _has_interp(raw):
            forms = [("{{ %s }}", "", ""), ("{%% assign z = %s %%}{{ z }}", "", ""), ("{%% echo %s %%}", "", ""),
                     ("{{ 'x' | append: %s }}", "x", ""), ("{{ %s | append: 'x' }}", "", "x"),
                     ("{%% capture c %%}{{ %s }}{%% endcapture %%}{{ c }}", "", "")]
            for yv in (xv, ""):
                tlit = q + raw + "${y}" + raw + q
                for fi, (fmt, pre, post) in enumerate(forms):
                    if fi and (yv == "" or not any(c in s for c in AE_SPECIALS)):
                        continue
                    src = fmt % tlit
                    for ae, env in envs.items():
                        for mode in ("sync", "async"):
                            im.mode = mode
                            try:
                                out = attempt(lambda env=env, src=src: im.run_template(env.from_string(src), {"y": yv}))
                            finally:
                                im.mode = "sync"
                            run.count("oracle_renders")
                            run.count("autoescape_renders")
                            want = pre + s + (str(escape(yv)) if ae else yv) + s + post
                            if out != ("ok", want):
                                got = out[1] if out[0] == "ok" else type(out[1]).__name__
                                run.fail(f"literal-value:auto_escape={ae}:interpolated_string",
                                         f"auto_escape={ae}, {'render_async' if mode == 'async' else 'render'}: {src!r} with "
                                         f"y={yv!r} writes {got!r}; its literal text is {s!r}, so it must write {want!r}",
                                         {"auto_escape": ae, "mode": mode, "source": src, "data": {"y": yv},
                                          "intended": want, "got": got})
        if any(c in s for c in AE_SPECIALS):
            run.nontrivial.add(f"ae:{q}:{raw}")


def gen_autoescape_literals(run: Run, pool: list[tuple[str, str, str]]) -> list[tuple[str, str, str]]:
    r = run.r
    out: list[tuple[str, str, str]] = []
    strings = list(AE_SPECIALS) + ["<b>", "&amp;", "a&b<c>d'e\"f", "<script>alert('x')</script>", "\"'", "&lt;", "", "&#39;",
                                   "é<\U0001F600>", "${x}", "{{ '<' }}", "\\<", "a"]
    for a in AE_SPECIALS:
        for b in AE_SPECIALS:
            strings.append(a + b)
    for _ in range(20 if not run.thorough else 400):
        strings.append("".join(r.choice(AE_SPECIALS + ALPHABET) for _ in range(r.randint(1, 8))))
    for s in dict.fromkeys(strings):
        qs = (SQ, DQ) if run.thorough or len(s) <= 1 else (r.choice((SQ, DQ)),)
        for q in qs:
            # the plainest spelling and a seeded one
            plain = "".join(spellings(c, q)[0] for c in s)
            out.append((q, s, plain))
            out.append((q, s, random_spelling(r, q, s, True)))
    out += [t for t in pool if any(c in t[1] for c in AE_SPECIALS)][:: (7 if not run.thorough else 1)]
    return list(dict.fromkeys(out))


# ---------------------------------------------------------------- json under history, typed comparison

J_SCALARS: list[Any] = [True, False, 1, 0, 1.0, 0.0, -0.0, -1, -1.0, 2, 2.0, 10**16, 1e16, 2**53, float(2**53),
                        0.5, -0.5, 1.5, None, "1", "true", "1.0", "", "0", 3, 3.0, 255, 255.0, 1e100, 10**100]
J_NESTED: list[Any] = [[True, 1, 1.0], [1.0, 1, True], [False, 0, 0.0, -0.0], [-0.0, 0.0, 0, False],
                       {"a": True, "b": 1, "c": 1.0}, {"a": 0.0, "b": False, "c": 0}, [[1.0], [True], [1]]]
J_LITERALS: list[tuple[str, Any]] = [
    ("true", True), ("false", False), ("1", 1), ("0", 0), ("1.0", 1.0), ("0.0", 0.0), ("-0.0", -0.0), ("-1", -1),
    ("-1.0", -1.0), ("1e0", 1), ("1e-0", 1.0), ("2", 2), ("2.0", 2.0), ("nil", None), ("'1'", "1"), ("'true'", "true"),
    ("0.5", 0.5), ("1e16", 10**16), ("1.0e16", 1e16), ("-0", 0), ("00", 0), ("0e0", 0), ("0.0e0", 0.0),
]


def typed_equal(a: Any, b: Any) -> bool:
    """Same type, same value, same sign of zero, recursively (True is not 1 is not 1.0)."""
    if type(a) is not type(b):
        return False
    if isinstance(a, float):
        return a == b and math.copysign(1.0, a) == math.copysign(1.0, b)
    if isinstance(a, list):
        return len(a) == len(b) and all(typed_equal(x, y) for x, y in zip(a, b))
    if isinstance(a, dict):
        return list(a) == list(b) and all(typed_equal(a[k], b[k]) for k in a)
    return a == b


def json_history_ops(order: list[Any], lits: list[tuple[str, Any]], modes: list[str]) -> list[list[Any]]:
    """ops: ["data", mode, value] | ["lit", mode, source]; mode: long | fresh."""
    ops: list[list[Any]] = []
    for i, v in enumerate(order):
        ops.append(["data", modes[i % len(modes)], v])
    for i, (src, _) in enumerate(lits):
        ops.append(["lit", modes[(i + 1) % len(modes)], "{{ " + src + " | json }}"])
    return ops


def json_history_run(ops: list[list[Any]]) -> list[list[str]]:
    """Run the ops in this process, in order: [["ok", text] | ["err", class name]]."""
    from liquid2 import Environment
    long_env = Environment()
    long_tpl = long_env.from_string("{{ x | json }}")
    lit_cache: dict[str, Any] = {}
    out: list[list[str]] = []
    for kind, mode, payload in ops:
        try:
            if kind == "data":
                if mode == "long":
                    text = long_tpl.render(x=payload)
                else:
                    text = Environment().from_string("{{ x | json }}").render(x=payload)
            elif mode == "long":
                if payload not in lit_cache:
                    lit_cache[payload] = long_env.from_string(payload)
                text = lit_cache[payload].render()
            else:
                text = Environment().from_string(payload).render()
            out.append(["ok", text])
        except Exception as e:  # noqa: BLE001
            out.append(["err", type(e).__name__])
    return out


def json_history_worker() -> None:
    """Subprocess entry: ops as JSON on stdin, results as JSON on stdout."""
    ops = json.loads(sys.stdin.read())
    sys.stdout.write(json.dumps(json_history_run(ops)))


def json_history_check(run: Run, where: str, ops: list[list[Any]], res: list[list[str]],
                       lit_values: dict[str, Any]) -> None:
    seen: list[str] = []
    for (kind, mode, payload), (st, text) in zip(ops, res):
        want = payload if kind == "data" else lit_values[payload]
        label = repr(payload) if kind == "data" else payload
        seen.append(label)
        run.count("json_history_ops")
        ok = False
        back: Any = None
        if st == "ok":
            try:
                back = json.loads(text)
                ok = typed_equal(back, want)
            except Exception as e:  # noqa: BLE001
                back = type(e).__name__
        if not ok:
            run.fail("json-roundtrip-history",
                     f"{where}: after {seen[-6:-1]} the json filter gives {text!r} for {label} ({mode} environment): "
                     f"decodes to {back!r} ({type(back).__name__}), input is {want!r} ({type(want).__name__})",
                     {"where": where, "ops": ops[: len(seen)], "output": text, "decoded": repr(back), "input": repr(want)})
            return


def json_history_orders(run: Run) -> list[tuple[str, list[Any], list[tuple[str, Any]], list[str]]]:
    """(name, data order, literal order, environment modes) for the subprocess runs."""
    r = run.r
    bools = [v for v in J_SCALARS if isinstance(v, bool)]
    floats = [v for v in J_SCALARS if isinstance(v, float)]
    ints = [v for v in J_SCALARS if type(v) is int]
    rest = [v for v in J_SCALARS if not isinstance(v, (bool, int, float))]
    lb = [l for l in J_LITERALS if isinstance(l[1], bool)]
    lf = [l for l in J_LITERALS if isinstance(l[1], float)]
    li = [l for l in J_LITERALS if type(l[1]) is int]
    lr = [l for l in J_LITERALS if not isinstance(l[1], (bool, int, float))]
    orders = [
        ("bools-floats-ints", bools + floats + ints + rest + J_NESTED, lb + lf + li + lr, ["long"]),
        ("floats-bools-ints", floats + bools + ints + rest + J_NESTED, lf + lb + li + lr, ["fresh"]),
        ("ints-negzero-bools", ints + [-0.0, 0.0] + bools + [f for f in floats if f != 0] + rest + list(reversed(J_NESTED)),
         li + lf[::-1] + lb + lr, ["long", "fresh"]),
    ]
    for i in range(2 if not run.thorough else 12):
        d = J_SCALARS + J_NESTED
        d = r.sample(d, len(d))
        l = r.sample(J_LITERALS, len(J_LITERALS))
        # literals first in half of them: the literal and the data value of a class swap places
        orders.append((f"seeded-{i}", d, l, r.choice([["long"], ["fresh"], ["fresh", "long"]])))
    return orders


def json_history_start(run: Run) -> list[tuple[str, list[list[Any]], Any]]:
    """Start the subprocess runs (each begins with an empty process: no earlier json call)."""
    procs = []
    env = dict(os.environ)
    for name, order, lits, modes in json_history_orders(run):
        ops = json_history_ops(order, lits, modes)
        if name.startswith("seeded") and run.r.random() < 0.5:
            k = len(order)
            ops = ops[k:] + ops[:k]        # literals before data
        p = subprocess.Popen([sys.executable, "-W", "ignore", "-c",
                              "from harness.c20 import json_history_worker; json_history_worker()"],
                             stdin=subprocess.PIPE, stdout=subprocess.PIPE, stderr=subprocess.PIPE, text=True,
                             env=env, cwd=str(C.VERIF))
        assert p.stdin is not None
        p.stdin.write(json.dumps(ops))
        p.stdin.close()
        procs.append((name, ops, p))
    return procs


def json_history_finish(run: Run, procs: list[tuple[str, list[list[Any]], Any]]) -> None:
    lit_values = {"{{ " + src + " | json }}": v for src, v in J_LITERALS}
    for name, ops, p in procs:
        out = p.stdout.read()
        err = p.stderr.read()
        rc = p.wait(timeout=300)
        if rc != 0 or not out:
            raise RuntimeError(f"json history subprocess {name} failed: {err[-500:]}")
        # the transport is JSON: -0.0, 1.0, true and 1 survive it with their types
        json_history_check(run, "subprocess " + name, ops, json.loads(out), lit_values)
        run.count("json_history_processes")


def oracle_json_history(run: Run) -> None:
    """In this process (which has not called the json filter yet): seeded orders."""
    r = run.r
    lit_values = {"{{ " + src + " | json }}": v for src, v in J_LITERALS}
    d = J_SCALARS + J_NESTED
    for i, modes in enumerate((["long"], ["fresh"], ["long", "fresh"])):
        ops = json_history_ops(r.sample(d, len(d)), r.sample(J_LITERALS, len(J_LITERALS)), modes)
        if i == 1:
            ops = list(reversed(ops))
        json_history_check(run, f"in-process pass {i}", ops, json_history_run(ops), lit_values)
    run.count("json_history_processes")
    for v in J_SCALARS:
        run.nontrivial.add("jh:" + repr(v))


def main(chk: C.Check, build: C.Build) -> None:
    import time
    warnings.simplefilter("ignore")
    proofs_ok = C.proof_stage(chk, build, NEEDED)
    run = Run(chk)
    thorough, r = run.thorough, run.r
    t0 = time.time()

    def lap(name: str) -> None:
        nonlocal t0
        run.timing[name] = round(time.time() - t0, 1)
        t0 = time.time()

    history_procs = json_history_start(run)      # fresh processes, run while the rest proceeds
    v = gen_valid(run)
    short, three, longer = v["short"], v["three"], v["longer"]
    all_sites = list(SITES)
    few = ["output", "path"]
    others = [n for n in all_sites if n not in few]
    # direct oracle (quick: every fifth short spelling at the other sites, every twelfth at all sites also under render_async)
    oracle_sites(run, short, all_sites if thorough else few, with_async=thorough)
    if not thorough:
        oracle_sites(run, short[1:: 5], others)
        oracle_sites(run, short[:: 12], all_sites, with_async=True)
    oracle_sites(run, three, few)
    oracle_sites(run, three[:: (5 if not thorough else 18)], others, with_async=True)
    oracle_sites(run, longer[:: 2], all_sites, with_async=True)
    oracle_sites(run, longer[1:: 2], all_sites, with_async=thorough)
    lap("oracle_valid")
    oracle_template_names(run, gen_name_literals(run, short[:: (9 if not thorough else 1)] + longer[:: (3 if not thorough else 1)]))
    lap("oracle_template_names")
    mal = malformed(r, [(s, raw) for q, s, raw in short[:: 9] + longer[:: 3]], 300 if not thorough else 3000)
    oracle_invalid(run, BOUNDARY + (mal if thorough else mal[:: 2]))
    lap("oracle_invalid")
    oracle_autoescape(run, gen_autoescape_literals(run, short + longer))
    lap("oracle_autoescape")
    oracle_range_bounds(run)
    lap("oracle_range_bounds")
    oracle_for_offset(run)
    lap("oracle_for_offset")
    oracle_nested_literals(run, short[:: 40] + longer[:: 6])
    lap("oracle_nested_literals")
    oracle_json_history(run)                     # before any other use of the json filter in this process
    json_history_finish(run, history_procs)
    lap("oracle_json_history")

    # correspondence (quick: about 9000 cases in all)
    k = 1 if thorough else 6
    sub_short = [t for t in short if len(t[1]) <= 1] + [t for t in short if len(t[1]) == 2][:: k]
    sub_three = three[:: (4 if not thorough else 25)]
    base = sub_short + sub_three + longer
    pick = (lambda l, n: l[:: n]) if not thorough else (lambda l, n: l[:: max(1, n // 4)])
    tie_unescape(run, [raw.replace("\\'", "'") if q == SQ else raw for q, s, raw in base] + BOUNDARY + pick(mal, 8))
    lap("tie_unescape")
    ts_cases = gen_template_strings(run, short[:: 3] + longer, 150 if not thorough else 1500)
    scan_in = [(q, raw) for q, s, raw in pick(base, 4)] \
        + [(q, raw) for raw in BOUNDARY for q in (SQ, DQ)] \
        + [(r.choice((SQ, DQ)), raw) for raw in pick(mal, 16)] + ts_cases
    tie_scanners(run, scan_in, [" }}", "", "] }}", "x", " | f: 'a'"])
    lap("tie_scanners")
    val_in = [(q, raw) for q, s, raw in pick(base, 5)] \
        + [(r.choice((SQ, DQ)), raw) for raw in BOUNDARY + pick(mal, 16)]
    tie_site_values(run, val_in, 9 if not thorough else 2)
    lap("tie_site_values")
    tie_template_values(run, ts_cases)
    oracle_binding_template_strings(run, ts_cases + [(SQ, ""), (DQ, ""), (DQ, "${x}"), (SQ, "${x}${y}"), (DQ, "a${x}")])
    lap("tie_template_values")
    tie_numbers(run)
    lap("tie_numbers")
    tie_json(run)
    lap("tie_json")

    if os.environ.get("C20_DUMP"):
        with open(os.environ["C20_DUMP"], "w") as f:
            json.dump([it["case"] for it in run.items], f)
    if run.items and not os.environ.get("C20_NOCOQ"):
        C.correspond(chk, "c20", IMPORTS, DEFS, run.items, what="literals", shard=min(2000, max(300, len(run.items) // max(1, min(16, C.JOBS)) + 1)))
    lap("coq")
    C.proofs_verdict(chk, proofs_ok)

    for q, s, raw in short + three + longer:
        if raw != s:
            run.nontrivial.add(f"v:{q}:{raw}")
    im = run.im
    chk.coverage.update({
        "evaluations": len(run.items) + run.stats.get("oracle_renders", 0),
        "distinct_nontrivial": len(run.nontrivial),
        "rule": ("string literals: every string of length <= %d over the alphabet %s under every valid spelling of each "
                 "character (itself, two-character escape, \\uXXXX lower/upper case, surrogate pair lower/upper/mixed), in both "
                 "kinds of quotes%s, plus seeded longer strings over BMP + astral planes; the direct oracle renders them at %d sites "
                 "(%s); malformed: every prefix / one edit / one deletion / one insertion of valid spellings, random strings "
                 "over an escape alphabet, hand-picked window and surrogate boundaries. numbers: strings of length <= %d "
                 "over '%s' starting with a digit or '-' (quick: all up to length 3, a seeded eighth of length 4) through the token regex, integer spellings up to 10^40 (and around 2^53, 10^22/23, 10^308/309, the "
                 "4300-digit limit) with e/E/+ exponents, decimal and scientific floats. json: seeded nested values. "
                 "auto_escape off and on x %d literal positions (filter argument positional/keyword, tag keyword argument, macro "
                 "argument/default, segment, interpolated string ...) x literals over & < > ' \" under plain and seeded spellings. "
                 "template names: extends / include / render with a recording loader (decoys under the raw spelling and the twice-unescaped "
                 "name) over backslash-heavy names (layouts\\base, code\\u0041, UNC paths, quotes, newline, astral) under plain, fully escaped "
                 "and seeded spellings, sync and async. every site also under render_async() (quick: a twelfth of the short spellings, half of the "
                 "longer ones), incl. include/render with|for <literal> [as v] which must bind the string once. "
                 "range bounds: integer literals around 2^53, 2^63, 2^64, 10^22..10^23 (plain, negative, e/E exponent spellings) as start, "
                 "stop or both bounds of tiny range literals at 17 positions (size first last join output for reversed limit "
                 "forloop.length contains assign cycle case reverse ternary), sync and async. "
                 "string literals (empty and not) and nested interpolated strings inside ${...} with literal text before, between and after; "
                 "every async site also after a pickle round trip of the parsed template (quoted identifiers: macro, block, extends, alias). "
                 "json history: %d scalars (True/1/1.0, False/0/0.0/-0.0 ...) + nested + %d literals through the json filter in seeded "
                 "and fixed type-major orders, long-lived and fresh environments, in this process and in fresh subprocesses, compared "
                 "with type, value and sign of zero. "
                 "non-trivial = the case contains an escape, an interpolation, a number beyond 2^53 or with an exponent, "
                 "or JSON text with an escape") % (
                     3 if thorough else 2, json.dumps("".join(ALPHABET)),
                     "" if thorough else " (length 3: a seeded sample of %d)" % len(three),
                     len(SITES), ", ".join(SITES), getattr(run, "num_maxlen", 4), NUM_ALPHA,
                     len(AE_SITES) + 1, len(J_SCALARS), len(J_LITERALS)),
        "samples": [
            {"source": "{{ 'a\\'\\uD83D\\uDE00' }}", "rendered": repr(attempt(im.render, "{{ 'a\\'\\uD83D\\uDE00' }}")[1])},
            {"source": "{{ 9007199254740993 }}", "rendered": str(attempt(im.render, "{{ 9007199254740993 }}")[1])},
            {"source": "{{ 1e23 }}", "rendered": str(attempt(im.render, "{{ 1e23 }}")[1])},
            {"source": "{{ x | json }}", "x": "é\U0001F600\"",
             "rendered": str(attempt(im.render, "{{ x | json }}", {"x": "é\U0001F600\""})[1])},
        ],
        "distribution": dict(run.stats, oracle_sites=run.site_counts,
                             valid_spellings=len(short) + len(three) + len(longer), malformed=len(mal) + len(BOUNDARY)),
        "timing_s": run.timing,
        "exhaustive": False,
        "tier_proved": "kernel (unescape, string scanners, parse-site denotation, numeric literals, json encoder)",
    })
    chk.assumptions += [
        "lone surrogates are excluded from generated template sources (DESIGN 4.1); unescape() itself is tied on a few of them",
        "CPython float() is a parameter: the model gives the exact decimal m*10^e handed to it",
        "the ${...} sub-expression scanner is a parameter of the template-string scanner; the tie instantiates it with whitespace-separated ASCII words",
        "MAX_STR_INT equals CPython's int max str digits (the default, 4300)",
        "json: floats, non-str keys, indent and the default= hook are outside the Coq model (floats are covered by the typed history oracle only)",
        "auto_escape: the literal positions are checked by the direct oracle; the Coq model has no escaping layer (C04 owns it)",
    ]


# ---------------------------------------------------------------- helpers


def _is_liquid(e: BaseException) -> bool:
    from liquid2.exceptions import LiquidError
    return isinstance(e, LiquidError)


def _closing_quote(text: str, q: str) -> int:
    """Index of the first quote q in text that is not preceded by an odd run of
    backslash pairs as the scanner sees them (a backslash always takes the next character)."""
    i = 0
    while i < len(text):
        if text[i] == "\\":
            i += 2
            continue
        if text[i] == q:
            return i
        i += 1
    return -1


def _has_bare(raw: str, q: str) -> bool:
    return _closing_quote(raw, q) != -1


def _has_interp(raw: str) -> bool:
    i = 0
    while i < len(raw):
        if raw[i] == "\\":
            i += 2
            continue
        if raw[i] == "$" and raw[i + 1: i + 2] == "{":
            return True
        i += 1
    return False


def _ref_template(q: str, raw: str, data: dict[str, str]) -> str | None:
    """Reference value of a template string whose interpolations are `${ name }`."""
    out = []
    i = 0
    seg = []
    while i < len(raw):
        if raw[i] == "\\":
            seg.append(raw[i:i + 2])
            i += 2
            continue
        if raw[i] == "$" and raw[i + 1: i + 2] == "{":
            j = raw.find("}", i)
            if j < 0:
                return None
            name = raw[i + 2: j].strip(" \n\r\t")
            if name not in data:
                return None
            s = ref_decode(q, "".join(seg), True)
            if s is None:
                return None
            out.append(s)
            out.append(data[name])
            seg = []
            i = j + 1
            continue
        seg.append(raw[i])
        i += 1
    s = ref_decode(q, "".join(seg), True)
    if s is None:
        return None
    out.append(s)
    return "".join(out)


def _float_eq(rendered: str, want: float) -> bool:
    try:
        got = float(rendered)
    except ValueError:
        return False
    return got == want and (got != 0 or str(got)[0] == str(want)[0])


def _json_equal(a: Any, b: Any) -> bool:
    if isinstance(a, BaseException):
        return False
    if type(a) is not type(b):
        return False
    if isinstance(a, list):
        return len(a) == len(b) and all(_json_equal(x, y) for x, y in zip(a, b))
    if isinstance(a, dict):
        return list(a) == list(b) and all(_json_equal(a[k], b[k]) for k in a)
    return a == b
