"""C04 — auto-escape: untrusted data never reaches the output unescaped.

Tie (expression level): filter chains over the Markup-aware filters, with
literal and data arguments, applied to data values / literals / template
strings / captures, are evaluated on the real engine
(`FilteredExpression.evaluate` for the typed value, `Template.render` for the
text) and in the Coq model Kernels/Markup.v (`eval_left`, `eval_chain`,
`output`); observable: the value with the Markup bit of every string inside it,
the error class, and the rendered text.  The library functions the model keeps
abstract (strip_tags, html.unescape, urllib unquote, json.dumps) are supplied
to the model as the finite tables of the calls the real run made.

Direct oracle (failing-input search, expression and program level):
  (1) syntactic: with plain literals the output (minus the engine's `<br />`)
      contains none of < > ' " and every & starts one of the five entities
      (the & part only when no cutting filter can leave a partial entity);
  (2) origin: render twice, the second time with the data specials replaced by
      five private-use code points; the outputs must be equal up to
      private-use character <-> entity spelling (only for programs whose
      filters neither cut by position nor treat the specials specially).
Cross-render: the `date` filter's lru_cache witness (known finding).
"""

from __future__ import annotations

import html as _html
import io
import json as _json
import re
import urllib.parse as _up
import warnings
from typing import Any

from . import common as C

IMPORTS = "From LQ Require Import Kernels.Markup."
NEEDED = ["theories/Base/Str.v", "theories/Kernels/Markup.v", "theories/Proofs/Markup_proofs.v"]

DEFS = """
Definition tbl (t : list (str * str)) (s : str) : str :=
  match assoc s t with Some r => r | None => [0; 0; 0] end.
Fixpoint jassoc (v : val) (t : list (val * str)) : str :=
  match t with [] => [0; 0; 0] | (k, r) :: t' => if val_eqb v k then r else jassoc v t' end.
Definition mkL (a b c : list (str * str)) (j : list (val * str)) : lib :=
  {| strip_tags_fn := tbl a; html_unescape_fn := tbl b; unquote_fn := tbl c;
     json_fn := fun v => jassoc v j;
     fix_truncate_clamp := @TRUNC@; fix_rpartition_found := @RPART@ |}.
Fixpoint dtbl (t : list ((str * str) * option str)) (d f : str) : option str :=
  match t with
  | [] => None
  | ((d', f'), r) :: t' => if str_eqb d d' && str_eqb f f' then r else dtbl t' d f
  end.
Definition rv_eqb := res_eqb_nopos val_eqb.
Definition rs_eqb := res_eqb_nopos str_eqb.
Definition targ (L : lib) (e : left) : arg :=    (* a template string used as a filter argument *)
  match eval_left L e with Ok (VStr sf s) => AStr sf s | _ => ANil end.
Definition typed (L : lib) (e : left) (ch : list lfilter) : res val :=
  do v <- eval_left L e ;; eval_chain L ch v.
"""

SPECIALS = "<>&'\""
ENT = {"<": "&lt;", ">": "&gt;", "&": "&amp;", "'": "&#39;", '"': "&#34;"}
PUA = "\ue000\ue001\ue002\ue003\ue004"
PUA_ENT = {p: ENT[c] for p, c in zip(PUA, SPECIALS)}
TWIN = str.maketrans(SPECIALS, PUA)

LCLASSES = {"LiquidSyntaxError", "LiquidTypeError", "LiquidNameError", "LiquidValueError",
            "UndefinedError", "TemplateNotFoundError", "UnknownFilterError", "LiquidIndexError"}


class Unmodelled(Exception):
    pass


# ------------------------------------------------------------------ values


def enc(v: Any) -> tuple:
    """A Python value as a model value (with the Markup bit of every string)."""
    from markupsafe import Markup
    if isinstance(v, Markup):
        return ("S", True, str(v))
    if isinstance(v, str):
        return ("S", False, v)
    if isinstance(v, bool):
        return ("B", v)
    if isinstance(v, int):
        return ("I", v)
    if v is None:
        return ("N",)
    if isinstance(v, (list, tuple)):
        return ("L", [enc(x) for x in v])
    raise Unmodelled(type(v).__name__)


def c_val(e: tuple) -> str:
    if e[0] == "S":
        return f"(VStr {C.cbool(e[1])} {C.cstr(e[2])})"
    if e[0] == "B":
        return f"(VBool {C.cbool(e[1])})"
    if e[0] == "I":
        return f"(VInt {C.cZ(e[1])})"
    if e[0] == "N":
        return "VNil"
    return "(VList " + C.clist([c_val(x) for x in e[1]], "val") + ")"


def nums_val(e: tuple) -> int:
    if e[0] == "S":
        return len(e[2]) + 1
    if e[0] == "L":
        return 1 + sum(nums_val(x) for x in e[1])
    return 1


# ------------------------------------------------------------------ the case AST
#
# arg   : ("lit", s) | ("ilit", z) | ("blit", b) | ("nil",) | ("data", pyvalue)   pyvalue: str|int|bool|None
# dval  : ("lit", s) | ("ilit", z) | ("data", any python value)                    (default's argument)
# filt  : (name, *args)
# left  : ("lit", s) | ("ilit", z) | ("data", pyvalue) | ("tmpl", [(left, chain)]) | ("capture", [(left, chain)])


class Src:
    """Prints a case as Liquid source, allocating data variables."""

    def __init__(self) -> None:
        self.data: dict[str, Any] = {}
        self.pre: list[str] = []   # capture blocks that must precede the output statement
        self.ncap = 0

    def var(self, v: Any) -> str:
        name = f"d{len(self.data)}"
        self.data[name] = v
        return name

    @staticmethod
    def quote(s: str) -> str:
        if "'" not in s:
            return "'" + s + "'"
        if '"' not in s:
            return '"' + s + '"'
        raise Unmodelled("literal with both quotes")

    def arg(self, a: tuple) -> str:
        k = a[0]
        if k == "lit":
            return self.quote(a[1])
        if k == "ilit":
            return str(a[1])
        if k == "blit":
            return "true" if a[1] else "false"
        if k == "nil":
            return "nil"
        if k == "tmpl":
            return self.left(a)
        return self.var(a[1])

    def filt(self, f: tuple) -> str:
        n = f[0]
        if n in ("append", "prepend", "remove", "remove_first", "remove_last", "split"):
            return f"{n}: {self.arg(f[1])}"
        if n in ("replace", "replace_first", "replace_last"):
            return f"{n}: {self.arg(f[1])}, {self.arg(f[2])}"
        if n == "replace1":
            return f"replace: {self.arg(f[1])}"
        if n == "replace_first1":
            return f"replace_first: {self.arg(f[1])}"
        if n == "slice":
            return f"slice: {f[1]}" + (f", {f[2]}" if f[2] is not None else "")
        if n == "join":
            return "join" if f[1] is None else f"join: {self.arg(f[1])}"
        if n == "concat":
            return f"concat: {self.var(f[1])}"
        if n in ("truncate", "truncatewords"):
            if f[1] is None:
                return n
            return f"{n}: {f[1]}" + (f", {self.arg(f[2])}" if f[2] is not None else "")
        if n == "default":
            return f"default: {self.arg(f[1])}" + (", allow_false: true" if f[2] else "")
        return n

    def chain(self, ch: list[tuple]) -> str:
        return "".join(" | " + self.filt(f) for f in ch)

    def left(self, e: tuple, *, in_string: bool = False) -> str:
        k = e[0]
        if k == "lit":
            return self.quote(e[1])
        if k == "ilit":
            return str(e[1])
        if k == "data":
            return self.var(e[1])
        if k == "tmpl":
            if in_string:
                raise Unmodelled("nested template string")
            out = []
            for pe, pch in e[1]:
                if pe[0] == "lit" and not pch:
                    if any(c in pe[1] for c in "\"$\\"):
                        raise Unmodelled("literal piece")
                    out.append(pe[1])
                else:
                    inner = self.left(pe, in_string=True) + self.chain(pch)
                    if '"' in inner or "}" in inner:
                        raise Unmodelled("quote in interpolation")
                    out.append("${" + inner + "}")
            if not any(o.startswith("${") for o in out):
                raise Unmodelled("a template string without interpolation is a plain StringLiteral")
            return '"' + "".join(out) + '"'
        if k == "capture":
            self.ncap += 1
            name = f"c{self.ncap}"
            body = "".join("{{ " + self.left(pe) + self.chain(pch) + " }}" for pe, pch in e[1])
            self.pre.append("{% capture " + name + " %}" + body + "{% endcapture %}")
            return name
        raise ValueError(k)


def c_arg(a: tuple) -> str:
    k = a[0]
    if k == "lit":
        return f"(AStr true {C.cstr(a[1])})"
    if k == "ilit":
        return f"(AInt {C.cZ(a[1])})"
    if k == "blit":
        return f"(ABool {C.cbool(a[1])})"
    if k == "nil":
        return "ANil"
    if k == "tmpl":
        return f"(targ L {c_left(a)})"      # L is bound by the enclosing case term
    v = a[1]
    if isinstance(v, str):
        return f"(AStr false {C.cstr(v)})"
    if isinstance(v, bool):
        return f"(ABool {C.cbool(v)})"
    if isinstance(v, int):
        return f"(AInt {C.cZ(v)})"
    if v is None:
        return "ANil"
    raise Unmodelled("arg")


def c_dval(a: tuple) -> str:
    if a[0] == "lit":
        return f"(VStr true {C.cstr(a[1])})"
    if a[0] == "ilit":
        return f"(VInt {C.cZ(a[1])})"
    if a[0] == "blit":
        return f"(VBool {C.cbool(a[1])})"
    if a[0] == "nil":
        return "VNil"
    if a[0] == "tmpl":
        return f"(arg_val (targ L {c_left(a)}))"
    return c_val(enc(a[1]))


FNAMES = {
    "upcase": "FUpcase", "downcase": "FDowncase", "capitalize": "FCapitalize", "strip": "FStrip",
    "lstrip": "FLstrip", "rstrip": "FRstrip", "first": "FFirst", "last": "FLast", "reverse": "FReverse",
    "newline_to_br": "FNewlineToBr", "strip_newlines": "FStripNewlines", "url_encode": "FUrlEncode",
    "url_decode": "FUrlDecode", "escape": "FEscape", "escape_once": "FEscapeOnce", "size": "FSize",
    "json": "FJson", "strip_html": "FStripHtml", "safe": "FSafe",
}


def c_optZ(z: int | None) -> str:
    return C.copt(None if z is None else C.cZ(z), "Z")


def c_optarg(a: tuple | None) -> str:
    return C.copt(None if a is None else c_arg(a), "arg")


def c_filt(f: tuple) -> str:
    n = f[0]
    if n in FNAMES:
        return FNAMES[n]
    if n in ("append", "prepend", "remove", "remove_first", "remove_last", "split"):
        cn = {"append": "FAppend", "prepend": "FPrepend", "remove": "FRemove", "remove_first": "FRemoveFirst",
              "remove_last": "FRemoveLast", "split": "FSplit"}[n]
        return f"({cn} {c_arg(f[1])})"
    if n in ("replace", "replace_first", "replace_last"):
        cn = {"replace": "FReplace", "replace_first": "FReplaceFirst", "replace_last": "FReplaceLast"}[n]
        return f"({cn} {c_arg(f[1])} {c_arg(f[2])})"
    if n == "replace1":
        return f"(FReplace {c_arg(f[1])} (AStr false []))"
    if n == "replace_first1":
        return f"(FReplaceFirst {c_arg(f[1])} (AStr false []))"
    if n == "slice":
        return f"(FSlice {C.cZ(f[1])} {c_optZ(f[2])})"
    if n == "join":
        return f"(FJoin {c_optarg(f[1])})"
    if n == "concat":
        return f"(FConcat {C.clist([c_val(enc(x)) for x in f[1]], 'val')})"
    if n == "truncate":
        return f"(FTruncate {c_optZ(f[1])} {c_optarg(f[2])})"
    if n == "truncatewords":
        return f"(FTruncatewords {c_optZ(f[1])} {c_optarg(f[2])})"
    if n == "default":
        return f"(FDefault {c_dval(f[1])} {C.cbool(f[2])})"
    raise ValueError(n)


def c_chain(ch: list[tuple]) -> str:
    return C.clist([c_filt(f) for f in ch], "lfilter")


def c_left(e: tuple) -> str:
    k = e[0]
    if k == "lit":
        return f"(LLit {C.cstr(e[1])})"
    if k == "ilit":
        return f"(LVal (VInt {C.cZ(e[1])}))"
    if k == "data":
        return f"(LVal {c_val(enc(e[1]))})"
    cn = "LTmpl" if k == "tmpl" else "LCapture"
    return f"({cn} " + C.clist([C.cpair(c_left(pe), c_chain(pch)) for pe, pch in e[1]], "(left * list lfilter)") + ")"


# ------------------------------------------------------------------ running the implementation


class Recorder:
    """Records the calls of the library functions that the model keeps abstract."""

    def __init__(self) -> None:
        self.strip: dict[str, str] = {}
        self.unesc: dict[str, str] = {}
        self.unq: dict[str, str] = {}
        self.js: list[tuple[tuple, str]] = []
        self.subseq_failures: list[tuple[str, str]] = []

    def __enter__(self) -> "Recorder":
        import liquid2.builtin.filters.string as S
        self._S = S
        self._strip, self._unesc, self._unq, self._dumps = S.strip_tags, _html.unescape, _up.unquote, _json.dumps

        def strip_tags(value: str) -> str:
            r = self._strip(value)
            self.strip[str(value)] = str(r)
            return r

        def unescape(s: str) -> str:
            r = self._unesc(s)
            self.unesc[str(s)] = str(r)
            return r

        def unquote(string: Any, *a: Any, **k: Any) -> Any:
            r = self._unq(string, *a, **k)
            if isinstance(string, str) and "%" in string:
                self.unq[str(string)] = str(r)
            return r

        def dumps(obj: Any, *a: Any, **k: Any) -> str:
            r = self._dumps(obj, *a, **k)
            try:
                self.js.append((enc(obj), r))
            except Unmodelled:
                pass
            return r

        S.strip_tags, _html.unescape, _up.unquote, _json.dumps = strip_tags, unescape, unquote, dumps
        return self

    def __exit__(self, *exc: Any) -> None:
        self._S.strip_tags, _html.unescape, _up.unquote, _json.dumps = self._strip, self._unesc, self._unq, self._dumps

    def c_lib(self) -> str:
        def t(d: dict[str, str]) -> str:
            return C.clist([C.cpair(C.cstr(k), C.cstr(v)) for k, v in d.items()], "(str * str)")
        j = C.clist([C.cpair(c_val(k), C.cstr(v)) for k, v in self.js], "(val * str)")
        return f"(mkL {t(self.strip)} {t(self.unesc)} {t(self.unq)} {j})"


_ENV = None
_LOOP = None


def arun(coro: Any) -> Any:
    """Run a coroutine on the one event loop of this check run."""
    global _LOOP
    if _LOOP is None or _LOOP.is_closed():
        import asyncio
        _LOOP = asyncio.new_event_loop()
    return _LOOP.run_until_complete(coro)


def render_modes(tmpl: Any, data: dict[str, Any]) -> dict[str, tuple]:
    """The text of a template under the sync and the async API."""
    out: dict[str, tuple] = {}
    for mode in ("sync", "async"):
        try:
            txt = tmpl.render(**data) if mode == "sync" else arun(tmpl.render_async(**data))
            out[mode] = ("ok", txt)
        except Exception as e:  # noqa: BLE001
            out[mode] = ("exc", exc_term(e), type(e).__name__)
    return out


def code_version() -> dict[str, bool]:
    """Which of the two versions of truncate_chars / remove_last the
    implementation under test has (C19's fix: patches change both)."""
    from liquid2.builtin.filters.string import remove_last
    from liquid2.utils.text import truncate_chars
    return {"truncate_clamp": truncate_chars("hello", 2, "...") == "...",
            "rpartition_found": remove_last("abc", "a") == "bc"}


def defs() -> str:
    v = code_version()
    return DEFS.replace("@TRUNC@", C.cbool(v["truncate_clamp"])).replace("@RPART@", C.cbool(v["rpartition_found"]))


def env():  # noqa: ANN201
    global _ENV
    if _ENV is None:
        from liquid2 import Environment
        _ENV = Environment(auto_escape=True)
    return _ENV


def exc_term(e: BaseException) -> str:
    n = type(e).__name__
    if n in LCLASSES:
        return f"(LErr {n} None)"
    if isinstance(e, UnicodeError):
        return "(PyExc UnicodeError)"
    for k in ("IndexError", "ValueError", "KeyError", "TypeError", "OverflowError", "AttributeError", "RecursionError"):
        if n == k:
            return f"(PyExc {k})"
    return "(PyExc OtherPyError)"


def run_case(left: tuple, chain: list[tuple]) -> dict[str, Any]:
    """Evaluate `{{ left | chain }}` on the implementation: typed value of the
    filtered expression, rendered text, the source and the data used."""
    from liquid2 import RenderContext
    s = Src()
    s.left_src = s.left(left)
    expr = s.left_src + s.chain(chain)
    src = "".join(s.pre) + "{{ " + expr + " }}"
    out: dict[str, Any] = {"src": src, "data": s.data}
    with Recorder() as rec:
        tmpl = env().from_string(src)
        try:
            ctx = RenderContext(tmpl, global_data=tmpl.make_globals(dict(s.data)))
            for node in tmpl.nodes[:-1]:
                node.render(ctx, io.StringIO())
            v = tmpl.nodes[-1].expression.evaluate(ctx)
            out["typed"] = ("ok", enc(v))
        except Unmodelled:
            raise
        except Exception as e:  # noqa: BLE001
            out["typed"] = ("exc", exc_term(e), type(e).__name__)
        modes = render_modes(tmpl, s.data)
        out["text"] = modes["sync"]
        out["text_async"] = modes["async"]
        # the async twin of the expression: FilteredExpression.evaluate_async
        try:
            ctx2 = RenderContext(tmpl, global_data=tmpl.make_globals(dict(s.data)))
            for node in tmpl.nodes[:-1]:
                arun(node.render_async(ctx2, io.StringIO()))
            out["typed_async"] = ("ok", enc(arun(tmpl.nodes[-1].expression.evaluate_async(ctx2))))
        except Unmodelled:
            raise
        except Exception as e:  # noqa: BLE001
            out["typed_async"] = ("exc", exc_term(e), type(e).__name__)
        # the same expression written by the `echo` tag (sync and async twins):
        # must write exactly what the output statement writes
        out["echo"] = {}
        if "%}" not in expr:
            try:
                et = env().from_string("".join(s.pre) + "{% echo " + expr + " %}")
                out["echo"] = render_modes(et, s.data)
                out["echo_src"] = "".join(s.pre) + "{% echo " + expr + " %}"
            except Exception as e:  # noqa: BLE001
                out["echo"] = {"sync": ("exc", exc_term(e), type(e).__name__)}
        # the left expression written by the `cycle` tag (a primitive item: a
        # literal, a path, a template string with filtered interpolations, a
        # captured value): must write what `{{ left }}` writes
        out["cycle"] = {}
        lsrc = s.left_src if hasattr(s, "left_src") else None
        if lsrc is not None and "%}" not in lsrc:
            try:
                csrc = "".join(s.pre) + "{% cycle " + lsrc + ", 'zz' %}"
                out["cycle"] = render_modes(env().from_string(csrc), s.data)
                out["cycle_src"] = csrc
            except Exception as e:  # noqa: BLE001
                out["cycle"] = {"sync": ("exc", exc_term(e), type(e).__name__)}
    out["rec"] = rec
    return out


def c_case(left: tuple, chain: list[tuple], r: dict[str, Any]) -> tuple[str, str, int]:
    L = r["rec"].c_lib()
    le, ch = c_left(left), c_chain(chain)
    ty = f"(Ok {c_val(r['typed'][1])})" if r["typed"][0] == "ok" else r["typed"][1]
    tx = f"(Ok {C.cstr(r['text'][1])})" if r["text"][0] == "ok" else r["text"][1]
    extra = ""
    ta = r.get("typed_async")
    if ta is not None and ta[:2] != r["typed"][:2]:
        extra += " && rv_eqb (typed L e ch) " + (f"(Ok {c_val(ta[1])})" if ta[0] == "ok" else ta[1])
    for other in [r.get("text_async")] + list(r.get("echo", {}).values()):
        if other is not None and other[:2] != r["text"][:2]:
            extra += " && rs_eqb (output L e ch) " + (f"(Ok {C.cstr(other[1])})" if other[0] == "ok" else other[1])
    if left[0] in ("tmpl", "capture"):
        for cy in r.get("cycle", {}).values():
            extra += " && rs_eqb (output L e []) " + (f"(Ok {C.cstr(cy[1])})" if cy[0] == "ok" else cy[1])
    case = (f"(let L := {L} in let e := {le} in let ch := {ch} in "
            f"rv_eqb (typed L e ch) {ty} && rs_eqb (output L e ch) {tx}{extra})")
    model = f"let L := {L} in (typed L {le} {ch}, output L {le} {ch})"
    return case, model, case.count(";") + case.count("[")


# ------------------------------------------------------------------ direct oracle

CUTTERS = ("slice", "truncate", "truncatewords", "remove", "remove_first", "remove_last", "replace", "replace1",
           "replace_first", "replace_first1", "replace_last", "split", "first", "last", "reverse", "url_decode",
           "strip_html", "json", "concat", "join")
CHAR_SENSITIVE = ("url_encode", "url_decode", "escape_once", "strip_html", "json", "slice", "truncate", "size",
                  "base64_encode", "base64_decode", "date")
CASE = ("upcase", "downcase", "capitalize")
ENTITY_RE = re.compile(r"(?i)&(?!(?:lt|gt|amp|#39|#34);)")


def filter_names(src: str) -> set[str]:
    return set(re.findall(r"\|\s*([a-z_0-9]+)", src))


def syntactic_oracle(src: str, out: str) -> str | None:
    """(1): with plain literals the output minus the engine's <br /> has none of
    < > ' " ; & only as the start of one of the five entities unless a cutting
    filter may legitimately leave a partial entity."""
    names = filter_names(src)
    s = out
    if "tablerow" in src:
        s = re.sub(r'(?i)</?t[rd](?: class="(?:row|col)\d+")?>', "", s)
    if "newline_to_br" in names:
        s = re.sub(r"(?i)<br />", "", s)
        if names & (set(CUTTERS) | set(CASE)) - {"join", "concat"}:
            # pieces of <br /> may survive a cut: < and > cannot be judged
            s = s.replace("<", "").replace(">", "")
    for c in "<>'\"":
        if c in s:
            return f"output contains {c!r}"
    if not (names & set(CUTTERS)) and ENTITY_RE.search(out):
        return "output contains a bare '&'"
    return None


def twin_data(v: Any) -> Any:
    if isinstance(v, str):
        return v.translate(TWIN)
    if isinstance(v, list):
        return [twin_data(x) for x in v]
    if isinstance(v, tuple):
        return tuple(twin_data(x) for x in v)
    if isinstance(v, dict):
        return {twin_data(k): twin_data(x) for k, x in v.items()}
    return v


STRUCT_OK = {"append", "prepend", "upcase", "downcase", "capitalize", "strip", "lstrip", "rstrip", "default",
             "newline_to_br", "strip_newlines", "escape", "t", "gettext"}
SEQ_FIRST = {"join", "concat", "reverse", "first", "last"}
ENT_TAIL = {"<": "lt;", ">": "gt;", "&": "amp;", "'": "#39;", '"': "#34;"}
PUA_RE = {p: "&(?i:(?:amp;)*" + re.escape(ENT_TAIL[c]) + ")" for p, c in zip(PUA, SPECIALS)}


def origin_oracle(render, src: str, data: dict[str, Any], out: str) -> str | None:  # noqa: ANN001
    """(2): second render with the data specials replaced by private-use
    characters.  Wherever the twin output has a private-use character the real
    output must have the entity of the corresponding special (escaped once or,
    when an escaped string was demoted and escaped again, several times:
    &amp;lt; ...); everything else must be identical.  Only meaningful for
    programs whose filters neither cut by position, nor iterate an escaped
    string by characters, nor treat the five characters specially — the
    caller decides that."""
    try:
        out2 = render(src, twin_data(data))
    except Exception:  # noqa: BLE001
        return None
    pat = "".join(PUA_RE.get(c) or re.escape(c) for c in out2)
    if re.fullmatch(pat, out, re.S) is None:
        mapped = "".join(PUA_ENT.get(c, c) for c in out2)
        i = next((k for k, (a, b) in enumerate(zip(mapped, out)) if a != b), min(len(mapped), len(out)))
        return f"outputs differ near {i}: {out[max(0, i - 12):i + 12]!r} vs twin {mapped[max(0, i - 12):i + 12]!r}"
    return None


def structural_chain(left: tuple, chain: list[tuple]) -> bool:
    """Is the origin oracle applicable to this expression-level case?"""
    def scalars(v: Any) -> bool:
        return isinstance(v, list)
    for i, f in enumerate(chain):
        n = f[0]
        if n in STRUCT_OK:
            continue
        if n in SEQ_FIRST and i == 0 and left[0] == "data" and scalars(left[1]):
            if n in ("first", "last", "reverse", "concat") and len(chain) > 1:
                return False
            continue
        return False
    if left[0] in ("tmpl", "capture"):
        return all(pe[0] in ("lit", "data") and not isinstance(pe[1], list) and all(g[0] in STRUCT_OK for g in pch)
                   for pe, pch in left[1])
    return True


def subseq_with_inserts(out: str, inp: str, ins: str = "&#;") -> bool:
    """out is inp with characters deleted and characters of `ins` inserted."""
    # dp over (i, j): out[:i] derivable consuming inp[:j]
    reach = {0}
    for ch in out:
        nxt = set()
        for j in reach:
            if ch in ins:
                nxt.add(j)
            k = inp.find(ch, j)
            if k >= 0:
                nxt.add(k + 1)
        if not nxt:
            return False
        # keep the smallest positions (greedy is optimal for each alternative)
        reach = {min(nxt)} | ({j for j in nxt if ch in ins})
    return True


# ------------------------------------------------------------------ generators

DATA_ALPHA = "<>&'\"a"
EXTRA = [" ", "\n", "\r\n", "%3C", "%26", "+", "lt", "&lt;", "&amp;", ";", "#", "b", "B", "L", "€",
         "中", "\U0001f600", "\xa0", "9", "%", ",", "<b>", "</b>", "<script>", "&#39;", "br", "/", "%(x)s", "-", "\t"]
LIT_PLAIN = "abLlt;# ,g%+9m-"
LIT_MARKUP = "<>&\"ab ;l,t"


def g_str(r, n_max: int = 8) -> str:  # noqa: ANN001
    k = r.random()
    if k < 0.12:
        return r.choice(["", "<>&'\"", "<", "&", "a", "'\"", "<<>>&&''\"\"", " ", "<script>alert('x')</script>", "&lt;"])
    n = r.randint(1, n_max)
    out = []
    for _ in range(n):
        out.append(r.choice(DATA_ALPHA) if r.random() < 0.65 else r.choice(EXTRA))
    return "".join(out)


def g_lit(r, plain: bool) -> str:  # noqa: ANN001
    if r.random() < 0.15:
        return r.choice(["", " ", ", ", "lt", ";", "l", "g", "b"] if plain else ["", " ", "<b>", "&lt;", "&", "<br />", "<", "\""])
    al = LIT_PLAIN if plain else LIT_MARKUP
    return "".join(r.choice(al) for _ in range(r.randint(1, 4)))


def g_scalar(r) -> Any:  # noqa: ANN001
    k = r.random()
    if k < 0.75:
        return g_str(r)
    if k < 0.87:
        return r.choice([0, 1, -1, 7, 42, -305, 10 ** 12])
    if k < 0.93:
        return None
    return r.choice([True, False])


def g_list(r, depth: int = 0) -> list[Any]:  # noqa: ANN001
    n = r.choice([0, 1, 1, 2, 2, 3, 4])
    out: list[Any] = []
    for _ in range(n):
        if depth < 2 and r.random() < 0.2:
            out.append(g_list(r, depth + 1))
        else:
            out.append(g_scalar(r))
    return out


def g_arg(r, plain: bool, near: str = "") -> tuple:  # noqa: ANN001
    k = r.random()
    if k < 0.45:
        if near and r.random() < 0.5:
            i = r.randrange(len(near))
            return ("data", near[i:i + r.randint(1, 3)])
        return ("data", g_str(r, 4))
    if k < 0.72:
        return ("lit", g_lit(r, plain))
    if k < 0.80:
        parts: list[tuple] = []
        for _ in range(r.randint(1, 3)):
            if r.random() < 0.5:
                parts.append((("lit", "".join(r.choice("ab ,;lt" if plain else "<>&ab ;") for _ in range(r.randint(1, 3)))), []))
            else:
                parts.append((("data", g_str(r, 4)), [(r.choice(["upcase", "escape", "strip", "downcase"]),)] if r.random() < 0.3 else []))
        if not any(pe[0] == "data" for pe, _ in parts):
            parts.append((("data", g_str(r, 3)), []))
        return ("tmpl", parts)
    if k < 0.86:
        return ("ilit", r.choice([0, 1, 3, -2, 10]))
    if k < 0.92:
        return ("data", r.choice([0, 5, -1, None, True, False]))
    if k < 0.96:
        return ("nil",)
    return ("blit", r.choice([True, False]))


SIMPLE = ["upcase", "downcase", "capitalize", "strip", "lstrip", "rstrip", "first", "last", "reverse",
          "newline_to_br", "strip_newlines", "url_encode", "url_decode", "escape", "escape_once", "size",
          "json", "strip_html"]
SLICE_N = [0, 1, 2, 3, 5, -1, -2, -4, 8, 100, -100, 2 ** 63, -(2 ** 63) - 5]
TRUNC_N = [0, 1, 2, 3, 4, 5, 8, 12, 50, -1, -3, 2 ** 31 - 1, 2 ** 31 - 2]


def g_filter(r, plain: bool, near: str = "") -> tuple:  # noqa: ANN001
    k = r.random()
    if k < 0.34:
        return (r.choice(SIMPLE),)
    n = r.choice(["append", "prepend", "remove", "remove_first", "remove_last", "split", "replace", "replace_first",
                  "replace_last", "replace1", "replace_first1", "slice", "join", "concat", "truncate", "truncatewords",
                  "default", "append", "prepend", "join", "split", "replace"])
    if n in ("append", "prepend", "remove", "remove_first", "remove_last", "split", "replace1", "replace_first1"):
        return (n, g_arg(r, plain, near))
    if n in ("replace", "replace_first", "replace_last"):
        return (n, g_arg(r, plain, near), g_arg(r, plain))
    if n == "slice":
        return (n, r.choice(SLICE_N), r.choice([None] + SLICE_N))
    if n == "join":
        return (n, None if r.random() < 0.25 else g_arg(r, plain))
    if n == "concat":
        return (n, g_list(r))
    if n in ("truncate", "truncatewords"):
        k2 = r.random()
        if k2 < 0.2:
            return (n, None, None)
        if k2 < 0.6:
            return (n, r.choice(TRUNC_N), None)
        return (n, r.choice(TRUNC_N), g_arg(r, plain))
    if n == "default":
        d = g_arg(r, plain) if r.random() < 0.7 else ("data", g_list(r))
        return (n, d, r.random() < 0.3)
    raise ValueError(n)


def g_left(r, plain: bool, depth: int = 0) -> tuple:  # noqa: ANN001
    k = r.random()
    if k < 0.55:
        return ("data", g_str(r, 10))
    if k < 0.70:
        return ("data", g_list(r))
    if k < 0.76:
        return ("data", r.choice([0, 42, -7, None, True, False]))
    if k < 0.84:
        return ("lit", g_lit(r, plain))
    if k < 0.86:
        return ("ilit", r.choice([0, 12, -3]))
    if depth >= 1:
        return ("data", g_str(r, 6))
    n = r.randint(1, 3)
    parts = []
    for _ in range(n):
        if r.random() < 0.4:
            parts.append((("lit", "".join(r.choice("ab ,;lt") for _ in range(r.randint(1, 3)))), []))
        else:
            pl = g_left(r, plain, depth + 1)
            if pl[0] in ("tmpl", "capture"):
                pl = ("data", g_str(r, 6))
            parts.append((pl, [g_filter(r, True) for _ in range(r.choice([0, 0, 1, 2]))]))
    return ("tmpl" if k < 0.93 else "capture", parts)


def near_of(left: tuple) -> str:
    if left[0] in ("lit",):
        return left[1]
    if left[0] == "data" and isinstance(left[1], str):
        return left[1] + "&lt;&amp;"
    return ""


def uses_safe_or_markup_literal(left: tuple, chain: list[tuple]) -> bool:
    def lit_bad(s: str) -> bool:
        return any(c in s for c in SPECIALS)

    def arg_bad(a: Any) -> bool:
        if isinstance(a, tuple) and a and a[0] == "tmpl":
            return left_bad(a)
        return isinstance(a, tuple) and a and a[0] == "lit" and lit_bad(a[1])

    def left_bad(e: tuple) -> bool:
        if e[0] == "lit":
            return lit_bad(e[1])
        if e[0] in ("tmpl", "capture"):
            return any(left_bad(pe) or chain_bad(pch) for pe, pch in e[1])
        return False

    def chain_bad(ch: list[tuple]) -> bool:
        return any(f[0] == "safe" or any(arg_bad(a) for a in f[1:]) for f in ch)

    return left_bad(left) or chain_bad(chain)


FIXED_LEFTS: list[tuple] = [
    ("data", "<>&'\""), ("data", ""), ("data", " <a>\n&b\r\n'c\" "), ("data", "a&lt;b &amp;lt; %3Cx%3E+%26 <br />"),
    ("data", "Hello <b>World</b> &amp; 'you' \"all\""), ("data", "one two  three\tfour\nfive"),
    ("data", ["<", ["&", [">", ["'", ['"', ["a", ["<b>"]]]]]]]), ("data", ["<b>", "&", 3, None, True, ["x", "<"]]),
    ("data", []), ("data", 0), ("data", None), ("data", False), ("data", True), ("data", -12),
    ("lit", "<b>&amp;</b>"), ("lit", "a b"), ("lit", ""), ("ilit", 5),
    ("data", "\ud800<"), ("data", "€<\U0001f600>\xa0"),
]
FIXED_ARGS: list[tuple] = [("data", "<"), ("data", "&"), ("data", ""), ("data", " "), ("data", "lt"), ("lit", "<i>"),
                           ("lit", ""), ("lit", " "), ("lit", ", "), ("data", "&lt;"), ("ilit", 0), ("ilit", 3),
                           ("nil",), ("blit", False), ("data", "a"), ("data", "<>&'\"")]


def fixed_cases() -> list[tuple[tuple, list[tuple]]]:
    out: list[tuple[tuple, list[tuple]]] = []
    for left in FIXED_LEFTS:
        for n in SIMPLE:
            out.append((left, [(n,)]))
        for a in FIXED_ARGS:
            for n in ("append", "prepend", "remove", "remove_first", "remove_last", "split", "replace1"):
                out.append((left, [(n, a)]))
            out.append((left, [("join", a)]))
            out.append((left, [("default", a, False)]))
            out.append((left, [("truncate", 4, a)]))
            out.append((left, [("truncatewords", 2, a)]))
            for b in (("data", "<"), ("lit", "<i>"), ("data", "")):
                for n in ("replace", "replace_first", "replace_last"):
                    out.append((left, [(n, a, b)]))
        out.append((left, [("join", None)]))
        out.append((left, [("default", ("lit", "<d>"), True)]))
        out.append((left, [("concat", ["<", ["&"]])]))
        for st in (0, 1, -2, 100, -100):
            for ln in (None, 0, 2, 100, -1):
                out.append((left, [("slice", st, ln)]))
        for n in TRUNC_N:
            out.append((left, [("truncate", n, None)]))
            out.append((left, [("truncatewords", n, None)]))
        out.append((left, [("truncate", None, None)]))
        out.append((left, [("truncatewords", None, None)]))
    return out


CORPUS: list[tuple[tuple, list[tuple]]] = [
    # the chains the property text names
    (("data", "%3Cb%3E<"), [("escape",), ("url_decode",)]),
    (("data", ["<a>", "&"]), [("join", ("data", "<,>"))]),
    (("data", ["<a>", "&"]), [("join", ("lit", "<br>"))]),
    (("data", "<a>\n&"), [("newline_to_br",), ("upcase",), ("remove", ("data", "BR"))]),
    (("data", "<a>"), [("escape",), ("remove", ("lit", "lt"))]),
    (("data", "<a>"), [("escape",), ("slice", 0, 1)]),
    (("lit", "<b>"), [("append", ("data", "<i>"))]),
    (("data", "<i>"), [("append", ("lit", "<b>"))]),
    (("data", "<i>"), [("prepend", ("lit", "<b>"))]),
    (("lit", "a<b>c"), [("replace", ("data", "<"), ("data", "&<"))]),
    (("lit", "a<b>c<d"), [("replace_last", ("data", "<"), ("data", "&<"))]),
    (("data", "a<b>c<d"), [("replace_last", ("data", "<"), ("lit", "<i>"))]),
    (("lit", "a,b"), [("split", ("data", ",")), ("join", ("data", "<"))]),
    (("lit", "a<b"), [("split", ("lit", "")), ("join", ("lit", ""))]),
    (("data", "<script>x</script>y<b>z"), [("strip_html",)]),
    (("lit", "<script>x</script>y<b>z&amp;&lt"), [("strip_html",), ("append", ("data", "<"))]),
    (("data", "a < b"), [("url_encode",), ("url_decode",), ("append", ("lit", "<"))]),
    (("lit", "a+b"), [("url_decode",), ("append", ("data", "<"))]),
    (("data", "&lt;b&gt; &amp;amp; &copy; &#60;"), [("escape_once",)]),
    (("lit", "&lt;b&gt;"), [("escape_once",), ("append", ("data", "<"))]),
    (("data", ["<", ">"]), [("first",), ("append", ("lit", "<"))]),
    (("lit", "<a b>"), [("truncate", 3, ("data", "<"))]),
    (("lit", "<a b>"), [("truncate", 30, ("data", "<"))]),
    (("lit", "<a b> c"), [("truncatewords", 1, ("data", "<"))]),
    (("lit", "<a b> c"), [("truncatewords", 2 ** 31 - 1, ("data", "<"))]),
    (("tmpl", [(("lit", "a"), []), (("data", "<x>"), [("upcase",)]), (("lit", "b"), [])]), [("append", ("lit", "<"))]),
    (("capture", [(("data", "<x>"), []), (("lit", "<b>"), []), (("data", ["<", "&"]), [("join", ("lit", "<"))])]),
     [("upcase",), ("append", ("data", "<"))]),
    (("data", "<x>"), [("default", ("lit", "<d>"), False)]),
    (("data", ""), [("default", ("data", "<d>"), False)]),
    (("data", "<x>"), [("json",)]),
    (("data", ["<x>", 1, None]), [("json",), ("append", ("lit", "<"))]),
    # error path: quote_plus cannot encode a lone surrogate
    (("data", "\ud800<"), [("url_encode",)]),
    (("data", "a\ud800"), [("escape",), ("url_encode",), ("append", ("lit", "x"))]),
    # _flatten stops at depth 5: deeper lists stay lists and are stringified with ''.join
    (("data", ["<", ["&", [">", ["'", ['"', ["a", ["<b>", ["c"]]]]]]]]), [("join", ("lit", ","))]),
    (("data", ["<", ["&", [">", ["'", ['"', ["a", ["<b>", ["c"]]]]]]]]), [("reverse",), ("join", ("data", "<"))]),
    (("data", ["<", ["&", [">", ["'", ['"', ["a", ["<b>", ["c"]]]]]]]]), [("concat", [["<"], "&"]), ("last",)]),
    (("data", ["<", ["&", [">", ["'", ['"', ["a", ["<b>", ["c"]]]]]]]]), []),
    # double escape: the escape filter applied to Markup, and a capture re-escaped through join
    (("capture", [(("data", "<"), [])]), [("escape",)]),
    (("capture", [(("data", "<"), [])]), [("join", ("lit", "-"))]),
    (("lit", "a&lt;b"), [("split", ("lit", "")), ("join", None)]),
    # template strings keep their literal text as Markup and escape the interpolated values (fix 611e27a):
    # in an output statement / echo / cycle (the views), filtered, as a filter argument, in a capture
    (("tmpl", [(("lit", "<b>"), []), (("data", "&<x>'\""), []), (("lit", "</b>"), [])]), []),
    (("tmpl", [(("lit", "<b>"), []), (("data", "&<x>"), [("upcase",)]), (("lit", "</b>"), []), (("data", ["<", "&"]), [])]), [("upcase",)]),
    (("tmpl", [(("lit", "<b>"), []), (("data", "&<x>"), [("escape",)]), (("data", 7), []), (("data", None), [])]), [("append", ("data", "<y>"))]),
    (("tmpl", [(("lit", "a<"), []), (("data", "<x>"), [])]), [("escape",)]),
    (("tmpl", [(("lit", "a<"), []), (("data", "<x>"), [])]), [("split", ("lit", "")), ("join", ("lit", ""))]),
    (("data", "<x>"), [("append", ("tmpl", [(("lit", "<i>"), []), (("data", "&<y>"), []), (("lit", "</i>"), [])]))]),
    (("data", "<x>"), [("prepend", ("tmpl", [(("lit", "<i>"), []), (("data", "&<y>"), [("downcase",)])]))]),
    (("lit", "a-b"), [("replace", ("data", "-"), ("tmpl", [(("lit", "<i>"), []), (("data", "&"), [])]))]),
    (("data", ["<a>", "&"]), [("join", ("tmpl", [(("lit", "<br>"), []), (("data", "<"), [])]))]),
    (("data", ""), [("default", ("tmpl", [(("lit", "<d>"), []), (("data", "<"), [])]), False)]),
    (("data", "a b c"), [("truncatewords", 1, ("tmpl", [(("lit", "<i>"), []), (("data", "<"), [])]))]),
    (("data", "<a b c"), [("truncate", 5, ("tmpl", [(("lit", "<i>"), []), (("data", "<"), [])]))]),
    (("capture", [(("tmpl", [(("lit", "<b>"), []), (("data", "<x>"), [])]), []), (("data", "<y>"), [])]),
     [("append", ("tmpl", [(("lit", "<u>"), []), (("data", "&"), [])]))]),
    # append / join separator / ellipsis use to_liquid_string(arg), not str(arg) (fix C19/0013)
    (("data", "<x>"), [("append", ("nil",)), ("append", ("blit", True)), ("append", ("data", False)), ("append", ("ilit", -3))]),
    (("data", ["<", "&"]), [("join", ("nil",))]),
    (("data", ["<", "&"]), [("join", ("blit", False))]),
    (("data", ["<", "&"]), [("join", ("data", 0))]),
    (("data", "<a b> c"), [("truncatewords", 1, ("lit", "<i>"))]),
    (("data", "<a b> c"), [("truncatewords", 1, ("nil",))]),
    (("data", "<a b> c"), [("truncatewords", 2, ("data", True))]),
    (("data", "<a b> c"), [("truncate", 4, ("lit", "<i>"))]),
    (("data", "<a b> c"), [("truncate", 4, ("nil",))]),
    (("lit", "<a b> c"), [("truncatewords", 1, ("lit", "<i>"))]),
]


# ------------------------------------------------------------------ main


def expression_level(chk: C.Check, r, n_random: int, max_len: int, budget_numerals: int) -> dict[str, Any]:  # noqa: ANN001
    cases: list[tuple[tuple, list[tuple]]] = list(CORPUS)
    fixed = fixed_cases()
    if chk.tier == "quick":
        fixed = [c for i, c in enumerate(fixed) if r.random() < 0.22]
    cases += fixed
    for _ in range(n_random):
        plain = r.random() < 0.6
        left = g_left(r, plain)
        n = r.randint(1, max_len)
        near = near_of(left)
        cases.append((left, [g_filter(r, plain, near) for _ in range(n)]))

    items: list[dict[str, Any]] = []
    stats = {"cases": 0, "unmodelled": 0, "errors": 0, "markup_results": 0, "oracle_checked": 0,
             "origin_checked": 0, "strip_tags_calls": 0, "by_len": {}, "modes": {}}
    nontrivial: set[str] = set()
    numerals = 0
    samples = []

    def render(src: str, data: dict[str, Any]) -> str:
        return env().from_string(src).render(**data)

    def render_a(src: str, data: dict[str, Any]) -> str:
        return arun(env().from_string(src).render_async(**data))

    for left, chain in cases:
        try:
            res = run_case(left, chain)
        except Unmodelled:
            stats["unmodelled"] += 1
            continue
        stats["cases"] += 1
        stats["by_len"][len(chain)] = stats["by_len"].get(len(chain), 0) + 1
        src, data = res["src"], res["data"]
        if res["text"][0] != "ok":
            stats["errors"] += 1
        # validation of the lib_ok premise about strip_tags on every real call
        for k, v in res["rec"].strip.items():
            stats["strip_tags_calls"] += 1
            if not subseq_with_inserts(v, k):
                chk.finding("strip_tags-not-a-copy", f"strip_tags({k!r}) = {v!r} is not its input with deletions and inserted '&', '#', ';'",
                            {"input": k, "output": v, "src": src, "data": data})
        # direct oracle, on what the output statement AND the echo tag write, under the sync AND the async API
        plain_case = not uses_safe_or_markup_literal(left, chain)
        if plain_case:
            esrc = res.get("echo_src", src)
            views = [("render", src, res["text"], render), ("render_async", src, res["text_async"], render_a),
                     ("echo render", esrc, res["echo"].get("sync"), render), ("echo render_async", esrc, res["echo"].get("async"), render_a)]
            structural = structural_chain(left, chain)
            if "cycle_src" in res:
                st0 = structural_chain(left, [])
                views += [("cycle render", res["cycle_src"], res["cycle"].get("sync"), render, st0),
                          ("cycle render_async", res["cycle_src"], res["cycle"].get("async"), render_a, st0)]
            for view in views:
                how, vsrc, outcome, rfn = view[:4]
                structural_v = view[4] if len(view) > 4 else structural
                if outcome is None or outcome[0] != "ok":
                    continue
                out = outcome[1]
                stats["oracle_checked"] += 1
                stats["modes"][how] = stats["modes"].get(how, 0) + 1
                fail = syntactic_oracle(vsrc, out)
                if fail is None and structural_v:
                    stats["origin_checked"] += 1
                    fail2 = origin_oracle(rfn, vsrc, data, out)
                    if fail2 is not None:
                        fail = "origin: " + fail2
                if fail:
                    chk.finding("oracle:" + fail.split(":")[0][:40], f"[{how}] {vsrc} with {data!r} writes {out!r}: {fail}",
                                {"src": vsrc, "data": data, "output": out,
                                 "how": f"Environment(auto_escape=True).from_string(src): {how}(**data)"})
            # non-trivial: data specials met the escaping mechanism
            if res["text"][0] == "ok" and any(any(c in str(v) for c in SPECIALS) for v in data.values()):
                nontrivial.add(src + repr(data))
        if res["typed"][0] == "ok" and _has_markup(res["typed"][1]):
            stats["markup_results"] += 1
        try:
            case, model, nn = c_case(left, chain, res)
        except Unmodelled:
            stats["unmodelled"] += 1
            continue
        if numerals + nn > budget_numerals:
            continue
        numerals += nn
        items.append({"case": case, "model": model,
                      "replay": {"src": src, "data": data, "typed": res["typed"][:3], "text": res["text"][:3]}})
        if len(samples) < 4 and len(chain) >= 2 and len(items) % 97 == 0:
            samples.append({"src": src, "data": data, "value": res["typed"], "output": res["text"][1] if res["text"][0] == "ok" else res["text"][2]})
    stats["numerals"] = numerals
    stats["model_cases"] = len(items)
    return {"items": items, "stats": stats, "nontrivial": nontrivial, "samples": samples}


def _has_markup(e: tuple) -> bool:
    if e[0] == "S":
        return bool(e[1])
    if e[0] == "L":
        return any(_has_markup(x) for x in e[1])
    return False


UNMODELLED = ["sort", "sort_natural", "sort_numeric", "uniq", "compact", "map: 'k'", "where: 'k'", "where: 'k', A", "sum",
              "find: 'k', A", "reject: 'k'", "has: 'k'", "at_least: 1", "at_most: A", "plus: A", "minus: 1", "times: 2", "abs",
              "ceil", "floor", "round", "divided_by: 2", "modulo: 3", "date: A", "date: '%Y-%m-%d'", "t", "t: x: A",
              "gettext", "gettext: x: A", "ngettext: A, 2", "pgettext: A", "npgettext: A, A, 2", "t: A, plural: A, count: 2",
              "json: 2", "default: A, allow_false: true", "slice: A", "truncate: A", "truncatewords: A, A"]


def oracle_only_chains(chk: C.Check, r, n: int) -> dict[str, Any]:  # noqa: ANN001
    """Chains that mix the modelled filters with the ones outside the model
    (sorting, map/where, arithmetic, date, the translation filters ...):
    syntactic oracle only, on the rendered text."""
    done = 0
    nontrivial: set[str] = set()
    for _ in range(n):
        s = Src()
        left = ("data", r.choice([g_str(r, 10), g_list(r), [{"k": g_str(r, 4), g_str(r, 3): g_str(r, 3)} for _ in range(r.randint(0, 3))],
                                  {g_str(r, 3): g_str(r, 3), "k": g_str(r, 3)}, "2020-01-02", 1577923200, g_str(r, 5)]))
        parts = [s.left(left)]
        for _ in range(r.randint(1, 5)):
            if r.random() < 0.5:
                f = r.choice(UNMODELLED)
                while "A" in f.split(":", 1)[-1] and " A" in f:
                    f = f.replace(" A", " " + s.var(r.choice([g_str(r, 4), g_str(r, 4), 2, "%Y<%m>", None])), 1)
                parts.append(f)
            else:
                try:
                    parts.append(s.filt(g_filter(r, True)))
                except Unmodelled:
                    continue
        src = "{{ " + " | ".join(parts) + " }}"
        try:
            modes = render_modes(env().from_string(src), s.data)
        except Exception:  # noqa: BLE001
            continue
        if modes["sync"][0] != "ok" and modes["async"][0] != "ok":
            continue
        done += 1
        for how, outcome in modes.items():
            if outcome[0] != "ok":
                continue
            out = outcome[1]
            fail = syntactic_oracle(src + " | slice", out)   # no judgement on '&': cutting filters may be present
            if fail:
                chk.finding("oracle:" + fail[:40], f"[{how}] {src} with {s.data!r} renders {out!r}: {fail}",
                            {"src": src, "data": s.data, "output": out, "mode": how})
        if any(c in repr(s.data) for c in "<>&"):
            nontrivial.add(src + repr(s.data))
    return {"rendered": done, "nontrivial": nontrivial}


DATE_INPUTS = ["2020-01-02", "2001-12-31 10:20:30", "March 3, 1999", "not a date <b>", "", "<>&'\"", "1577923200", "12"]
DATE_FORMATS = [("lit", "%Y-%m-%d"), ("lit", "<b>%Y</b>"), ("lit", "%d & %H:%M"), ("lit", "100%%"), ("lit", ""),
                ("data", "<b>%Y"), ("data", "%H:%M & %d '%y\""), ("data", ""), ("data", "%Y-%m-%d")]


def date_cases() -> list[dict[str, Any]]:
    """Tie of Markup.date_filter: the result of `date` is Markup exactly when the
    format is Markup; an unparseable input comes back unchanged as a plain str.
    The date library itself (dateutil parse + strftime) is the model's
    `strftime` parameter, tabulated here by calling the library directly."""
    import datetime

    from dateutil import parser as dparser
    from liquid2 import RenderContext
    items = []
    combos: list[tuple[str, str, str, str]] = []     # (left kind, dat, format kind, fmt)
    for dat in DATE_INPUTS:
        for kind, fmt in DATE_FORMATS:
            combos.append(("data", dat, kind, fmt))
            if not ("'" in dat and '"' in dat):
                combos.append(("lit", dat, kind, fmt))   # a literal left value (Markup) with a data / literal format
    for dat in ("now", "today"):                          # the clock: only formats whose result does not depend on it
        for kind, fmt in [("data", "<b>"), ("data", "&'\"100%%"), ("lit", "<i>x</i>"), ("data", "")]:
            combos.append(("lit", dat, kind, fmt))
            combos.append(("data", dat, kind, fmt))
    for lkind, dat, kind, fmt in combos:
        if dat in ("now", "today"):
            lib: str | None = datetime.datetime.now().strftime(fmt)
        elif dat.isdigit():
            lib = datetime.datetime.fromtimestamp(int(dat)).strftime(fmt)
        else:
            try:
                lib = dparser.parse(dat).strftime(fmt)
            except (dparser.ParserError, OverflowError):
                lib = None
        data: dict[str, Any] = {}
        if lkind == "data":
            data["d"] = dat
            lsrc = "d"
        else:
            lsrc = Src.quote(dat)
        if kind == "data":
            data["f"] = fmt
            src = "{{ " + lsrc + " | date: f }}"
        else:
            src = "{{ " + lsrc + " | date: " + Src.quote(fmt) + " }}"
        tmpl = env().from_string(src)
        try:
            ctx = RenderContext(tmpl, global_data=tmpl.make_globals(dict(data)))
            ty = f"(Ok {c_val(enc(tmpl.nodes[0].expression.evaluate(ctx)))})"
        except Exception as e:  # noqa: BLE001
            ty = exc_term(e)
        md = render_modes(tmpl, data)
        tx = f"(Ok {C.cstr(md['sync'][1])})" if md["sync"][0] == "ok" else md["sync"][1]
        txa = f"(Ok {C.cstr(md['async'][1])})" if md["async"][0] == "ok" else md["async"][1]
        tab = C.clist([C.cpair(C.cpair(C.cstr(dat), C.cstr(fmt)), C.copt(None if lib is None else C.cstr(lib), "str"))],
                      "((str * str) * option str)")
        m = f"(date_filter (dtbl {tab}) {C.cstr(dat)} ({C.cbool(kind == 'lit')}, {C.cstr(fmt)}))"
        items.append({"case": f"(rv_eqb (Ok (vstr {m})) {ty} && rs_eqb (Ok (tls_ae (vstr {m}))) {tx} && rs_eqb (Ok (tls_ae (vstr {m}))) {txa})",
                      "model": f"vstr {m}",
                      "replay": {"src": src, "data": data, "library_strftime": lib, "typed": ty, "text": tx}})
    return items


DATE_WITNESS = {
    "first": {"src": "{{ d | date: '<b>%Y' }}", "data": {"d": "2020-01-02"}},
    "second": {"src": "{{ d | date: f }}", "data": {"d": "2020-01-02", "f": "<b>%Y"}},
}


def date_cache_witness(chk: C.Check) -> None:
    """DESIGN §10 row 32 (fixed in /repo by c40f103, which removed the cache): an
    lru_cache around `date` returns the Markup computed for a literal format to
    a later render whose equal format string is data.  Re-run on every run: a
    reintroduction is reported (a VIOLATION once the finding is listed as fixed)."""
    from liquid2 import Environment
    e = Environment(auto_escape=True)
    try:
        e.from_string(DATE_WITNESS["first"]["src"]).render(**DATE_WITNESS["first"]["data"])
        out = e.from_string(DATE_WITNESS["second"]["src"]).render(**DATE_WITNESS["second"]["data"])
    except Exception as ex:  # noqa: BLE001
        chk.notes.append(f"date witness raised {type(ex).__name__}")
        return
    if "<" in out or ">" in out:
        chk.finding("date-lru-cache-returns-markup",
                    f"after rendering {DATE_WITNESS['first']['src']!r}, {DATE_WITNESS['second']['src']!r} with data f='<b>%Y' "
                    f"prints {out!r}: functools.lru_cache on `date` compares Markup('<b>%Y') == '<b>%Y' and returns the Markup result",
                    {"renders": DATE_WITNESS, "output": out})
    else:
        chk.notes.append("date lru_cache witness no longer reproduces: " + repr(out))


def correspond_retry(chk: C.Check, tag: str, imports: str, defs_: str, items: list[dict[str, Any]], *,
                     what: str, shard: int) -> None:
    """C.correspond, except that shards whose coqc process died without output
    (the OOM killer on a loaded machine) are evaluated again, up to twice,
    before anything is reported.  Reporting is the same as C.correspond."""
    import json
    import re as _re
    import time as _time
    t0 = _time.time()
    cases = [it["case"] for it in items]
    todo = list(range(len(cases)))
    bad: list[int] = []
    errors: list[str] = []
    for attempt in range(3):
        rc = C.run_cases(f"{tag}_{attempt}" if attempt else tag, imports, defs_, [cases[i] for i in todo], shard=shard)
        bad += [todo[j] for j in rc["bad"]]
        errors = rc["errors"]
        if not errors:
            todo = []
            break
        failed: list[int] = []
        for e in errors:
            m = _re.match(r"s(\d+)\.v", e)
            if m:
                k = int(m.group(1))
                failed += todo[k * shard:(k + 1) * shard]
        if not failed or any(e.split(":", 1)[1].strip() for e in errors if ":" in e):
            break   # a real Coq error message: not transient
        chk.notes.append(f"{what}: {len(errors)} coqc shard(s) died without output (attempt {attempt + 1}); re-running {len(failed)} cases")
        todo = failed
    for e in errors:
        chk.notes.append("coq case error: " + e[:400])
    bad = sorted(set(bad))
    if bad:
        idx = bad[:3]
        outs = C.eval_terms(tag, imports, defs_, [items[i]["model"] for i in idx])
        for i, o in zip(idx, outs):
            chk.notes.append(f"{what}: model/implementation disagree on case #{i}: "
                             f"{json.dumps(items[i]['replay'], default=str)[:300]} model={o[:300]}")
        if not chk.violations:
            i, o = idx[0], outs[0]
            chk.finding("correspondence:" + what,
                        f"model and implementation disagree ({len(bad)} of {len(cases)} cases); no direct property failure found",
                        {"case": items[i]["replay"], "model": o, "broken": f"correspondence {what}",
                         "disagreeing_cases": bad[:50]}, no_input=True)
    elif errors and not chk.violations:
        chk.finding("correspondence:" + what + ":build", "generated case files did not evaluate",
                    {"errors": errors[:3], "broken": f"correspondence {what} (coqc on generated cases)"}, no_input=True)
    chk.coverage["model_cases"] = chk.coverage.get("model_cases", 0) + len(cases) - (len(todo) if errors else 0)
    chk.coverage["model_disagreements"] = chk.coverage.get("model_disagreements", 0) + len(bad)
    chk.coverage.setdefault("correspondence_wall_s", {})[what] = round(_time.time() - t0, 1)


def main(chk: C.Check, build: C.Build) -> None:
    warnings.simplefilter("ignore")
    proofs_ok = C.proof_stage(chk, build, NEEDED)
    thorough = chk.tier == "thorough"
    r = C.rng("c04")

    ex = expression_level(chk, r, n_random=1000 if not thorough else 14000,
                          max_len=4 if not thorough else 6,
                          budget_numerals=700_000 if not thorough else 6_000_000)
    from . import c04_programs as P
    pr = P.program_level(chk, C.rng("c04", "programs"), 600 if not thorough else 6000)
    oo = oracle_only_chains(chk, C.rng("c04", "unmodelled"), 800 if not thorough else 8000)
    sp = P.special_streams(chk, C.rng("c04", "special"), 150 if not thorough else 1500)
    date_cache_witness(chk)

    ex["items"] += date_cases()
    shard = max(100, min(400, -(-len(ex["items"]) // C.JOBS)))   # one wave of coqc processes when possible
    correspond_retry(chk, "c04", IMPORTS, defs(), ex["items"], what="Markup.eval_chain/output", shard=shard)
    chk.coverage["code_version"] = code_version()
    C.proofs_verdict(chk, proofs_ok)

    st = ex["stats"]
    chk.coverage.update({
        "evaluations": st["cases"] + pr["programs"] + oo["rendered"] + sp["programs"],
        "distinct_nontrivial": len(ex["nontrivial"]) + len(pr["nontrivial"]) + len(oo["nontrivial"]) + len(sp["nontrivial"]),
        "rule": ("expression level: the recorded corpus, a fixed sweep (every modelled filter x boundary left values x boundary "
                 "arguments; quick: a seeded 22% of it) and seeded random chains of length <= "
                 f"{4 if not thorough else 6} over the Markup-aware filters with literal and data arguments, applied to data strings over "
                 "{< > & ' \" a} mixed with entity/percent/newline fragments, nested lists, ints, nil, bools, literals, template strings and "
                 "captures; each is run on the real engine (typed value of FilteredExpression.evaluate + Template.render) and in the Coq model. "
                 "oracle-only chains additionally mix in the filters outside the model (sorting, map/where/find, arithmetic, date, t/gettext/"
                 "ngettext/pgettext/npgettext, json with indent). special streams (oracle only, both API modes): translation filters with "
                 "data-supplied messages, plural forms (count != 1), contexts and message variables, and `date` with a data FORMAT and a literal "
                 "left value ('now', 'today', an assigned literal, `missing | default: 'now'`), on the default environment and on environments "
                 "that called the documented register_translation_filters(env) / (env, replace=True); undefined paths whose keys come from data "
                 "under undefined=DebugUndefined. "
                 "program level (oracle only): generated templates with captures, partials (render/include), macros, loops, template-string "
                 "interpolation, translate blocks, block.super, cycle/echo/assign/liquid tags, plain literals, data strings over "
                 "{< > & ' \" a}* nested in lists and dicts, as dict keys and as filter arguments. "
                 "non-trivial = distinct (source, data) whose data contains at least one of the five characters and whose render reached the "
                 "oracle (so the escaping mechanism decided the output)"),
        "samples": ex["samples"] + pr["samples"][:2],
        "distribution": {"expression": st, "program": pr["stats"], "oracle_only_chains_rendered": oo["rendered"],
                         "special_streams": sp["stats"]},
        "exhaustive": False,
        "tier_proved": "kernel (Markup value algebra, filters, filter chains, template strings, captures)",
    })
    chk.assumptions += [
        "markupsafe, html.unescape, urllib.parse, json and HTMLParser are modelled or abstracted, not verified",
        "lib_ok premise: strip_tags copies characters of its input and inserts only '&', '#', ';' (checked on every real call of the run); "
        "html.unescape, unquote, json.dumps results are plain str (their text is irrelevant to the theorem)",
        "case mapping is ASCII-only in the model: generated data has no cased non-ASCII letters",
        "data are str/int/bool/None/lists: objects with __html__, Markup data and the `safe` filter are excluded by the property",
        "ints are shorter than CPython's int->str digit limit",
        "tags other than output statements/capture/template strings are covered by the program-level oracle only (Tier 1)",
        "date: dateutil parsing + strftime are the model's `strftime` parameter (c04_date_preserves_safe_inv assumes strftime maps an "
        "untainted format to an untainted text); the cross-render witness of the removed lru_cache is re-run every time",
    ]
