"""C07 — render/macro scopes are isolated and block scopes do not leak.

Tie: CLF programs (harness/clf.py) are rendered with `render_with_context` on an
explicit RenderContext; after the call returns OR raises, the context shape
(scope.size(), len(loops), template name, local names, counters) and the
outcome are compared with Core/Render.v.
Oracle: non-interference by paired runs on the implementation alone (vary the
caller's variables => the partial's / macro's output is unchanged; vary the
partial's assignments => the caller's later output is unchanged), `include`
refused inside render/call, shadowed names restored after every block construct
including exits through break / continue / errors.
"""

from __future__ import annotations

import itertools
from io import StringIO
from typing import Any

from . import clf
from . import common as C
from .c01 import LCLASSES, c_outcome

IMPORTS = "From LQ Require Import Core.Value Core.Syntax Core.Render."
NEEDED = ["theories/Core/Value.v", "theories/Core/Syntax.v", "theories/Core/Render.v",
          "theories/Proofs/Render_proofs.v", "theories/Proofs/Render_control.v",
          "theories/Proofs/Render_lambda.v"]

POOL = ["a", "b", "c", "n", "s", "t"]


def mk_env(loader: dict[str, str], suppress: bool = True):
    from liquid2 import DictLoader, Environment

    class Env(Environment):
        suppress_blank_control_flow_blocks = suppress

    return Env(loader=DictLoader(loader))


def run_ctx(src: str, loader: dict[str, str], data: dict[str, Any], suppress: bool) -> dict[str, Any]:
    from liquid2 import RenderContext
    from liquid2.exceptions import LiquidError

    env = mk_env(loader, suppress)
    try:
        t = env.from_string(src, name="main")
    except LiquidError as e:
        return {"o": ("E", type(e).__name__ if type(e).__name__ in LCLASSES else "OtherLiquidError"), "ctx": None}
    ctx = RenderContext(t, global_data=t.make_globals(dict(data)))
    buf = StringIO()
    try:
        t.render_with_context(ctx, buf)
        o: tuple = ("T", buf.getvalue())
    except LiquidError as e:
        n = type(e).__name__
        o = ("E", n if n in LCLASSES else "OtherLiquidError")
    except Exception as e:  # noqa: BLE001
        o = ("P", type(e).__name__)
    return {"o": o,
            "ctx": (ctx.scope.size() - 4, len(ctx.loops), ctx.template.name,
                    list(ctx.locals), dict(ctx.counters))}


def render(src: str, loader: dict[str, str], data: dict[str, Any] | None = None) -> tuple:
    from liquid2.exceptions import LiquidError
    env = mk_env(loader)
    try:
        return ("T", env.from_string(src, name="main").render(**(data or {})))
    except LiquidError as e:
        return ("E", type(e).__name__)
    except Exception as e:  # noqa: BLE001
        return ("P", type(e).__name__)


def render_async(src: str, loader: dict[str, str], data: dict[str, Any] | None = None) -> tuple:
    import asyncio
    from liquid2.exceptions import LiquidError
    env = mk_env(loader)
    try:
        return ("T", asyncio.run(env.from_string(src, name="main").render_async(**(data or {}))))
    except LiquidError as e:
        return ("E", type(e).__name__)
    except Exception as e:  # noqa: BLE001
        return ("P", type(e).__name__)


def region(out: tuple) -> Any:
    if out[0] != "T":
        return out
    s = out[1]
    if "<<" in s and ">>" in s:
        return s[s.index("<<") + 2: s.rindex(">>")]
    return ("no-region", s)


def after(out: tuple) -> Any:
    if out[0] != "T":
        return out
    s = out[1]
    return s[s.rindex(">>") + 2:] if ">>" in s else ("no-region", s)


DUMP = "|".join("{{ %s }}" % v for v in POOL) + "|{{ forloop.index }}|{{ i }}|{{ w }}|{{ it }}"
# a loop of the partial's own: its parent loop is undefined whatever loops the caller is in
DUMP_LOOP = ("{% for y in (1..2) %}<{{ forloop.parentloop.index }}/{{ forloop.parentloop.length }}:{{ forloop.parentloop.name }}"
             ":{{ forloop.parentloop.parentloop.index }}:{{ forloop.length }}>{% endfor %}")
# arrow functions with free variables: evaluated in the partial's scope, not the caller's
DUMP_LAMBDA = ("{{ (1..3) | where: q => q != a | join: '' }}/{{ (1..3) | map: q => b | join: '.' }}/{{ (1..3) | find: q => q == n }}"
               "/{{ (1..3) | reject: (q, j) => j == c | join: '' }}/{{ (1..3) | has: q => q == s }}/{{ (1..3) | find_index: q => t }}")


MEXTRA = ["", DUMP_LOOP, DUMP_LAMBDA, DUMP_LOOP + DUMP_LAMBDA]


def lit(r) -> str:
    return r.choice(["1", "2", "'x'", "'y'", "true", "nil", "'<b>'"])


def preludes(r, k: int) -> list[str]:
    """k different caller environments around a [[ region ]]."""
    outs = []
    for _ in range(k):
        pre = "".join("{%% assign %s = %s %%}" % (v, lit(r)) for v in POOL if r.random() < 0.7)
        pre += "".join("{%% capture %s %%}%s{%% endcapture %%}" % (v, r.choice(["A", "B", ""])) for v in POOL if r.random() < 0.2)
        pre += "".join("{%% increment %s %%}" % v for v in POOL if r.random() < 0.3)
        if r.random() < 0.5:
            pre += "{% cycle 'p', 'q' %}"
        if r.random() < 0.5:
            # the caller has already applied the context-aware (lambda) filters the partial uses
            pre += "".join("{%% assign zz = (1..2) | %s: q => q %%}" % f for f in ("where", "map", "find", "reject", "has", "find_index") if r.random() < 0.7)
        wrap_open, wrap_close = "", ""
        kind = r.random()
        if kind < 0.15:
            # caller loops of different lengths and names: forloop.parentloop must stay undefined in the partial
            wrap_open = "{%% for %s in (1..%d) %%}{%% if forloop.last %%}" % (r.choice(["i", "k", "a"]), r.choice([2, 3]))
            wrap_close = "{% endif %}{% endfor %}"
        elif kind < 0.3:
            wrap_open, wrap_close = "{% for i in (1..1) %}", "{% endfor %}"
        elif kind < 0.5:
            wrap_open, wrap_close = "{%% with w: %s, a: %s %%}" % (lit(r), lit(r)), "{% endwith %}"
        elif kind < 0.6:
            wrap_open, wrap_close = "{% for i in (1..1) %}{% for a in (3..3) %}", "{% endfor %}{% endfor %}"
        outs.append((pre, wrap_open, wrap_close))
    return outs


LAW_CONDS = ["a", "a == 1", "a and b", "b or nil", "s contains 'x'", "1 < 'x'", "nil", "g", "g == 'G'", "zz", "a != b", "false", "n > 1"]
LAW_EXPRS = ["a", "g", "1", "'x'", "nil", "a | default: 'D'", "g | downcase", "n | plus: 1", "(1..3) | join: '-'", "zz", "true", "s | upcase"]
LAW_BODIES = ["A", "{{ a }}", "[{{ zl }}{% assign zl = it %}]", "{{ it }}{% capture it %}X{% endcapture %}", "{% increment n %}", "{% assign a = 'Z' %}{{ a }}", "{% for q in (1..2) %}{{ q }}{{ a }}{% endfor %}",
              "{% if a %}T{% else %}F{% endif %}", "{% render 'q' %}", "{% cycle 'p', 'q' %}", "{{ it }}", "{{ g }}{{ b }}", "",
              " \n ", "{% capture b %}C{% endcapture %}{{ b }}", "{% if 1 < 'x' %}{% endif %}", "{% decrement c %}{{ c }}"]


def law_probes(chk: C.Check, r, rounds: int) -> int:
    n = 0
    for _ in range(rounds):
        pre = "".join("{%% assign %s = %s %%}" % (v, lit(r)) for v in POOL if r.random() < 0.5)
        data = {"g": "G", "xs": [r.choice([1, "x", None, True, "<b>", [1, 2]]) for _ in range(r.randrange(0, 4))]}
        body = "".join(r.choice(LAW_BODIES) for _ in range(r.randrange(1, 4)))
        loader = {"p": body, "q": "q:" + DUMP}

        def both(what, lhs, rhs, ld=loader):
            nonlocal n
            n += 1
            x, y = render(lhs, ld, data), render(rhs, ld, data)
            xa = render_async(lhs, ld, data)
            n += 1
            if xa != x:
                chk.finding("oracle:law-async-" + what, f"{lhs!r} gave {x} with render() but {xa} with render_async()",
                            {"law": what, "source": lhs, "loader": ld, "data": data, "sync": x, "async": xa})
            if x != y:
                chk.finding("oracle:law-" + what, f"{lhs!r} gave {x} but {rhs!r} gave {y}",
                            {"law": what, "lhs": lhs, "rhs": rhs, "loader": ld, "data": data, "lhs_out": x, "rhs_out": y})

        # render ... for: every item alone, in order (the partial does not look at forloop here)
        arg = r.choice(["", ", a: 7", ", b: g"])
        alone = "".join("{%% render 'p' with xs[%d] as it%s %%}" % (i, arg) for i in range(len(data["xs"])))
        both("render-for-is-concatenation", pre + "{% render 'p' for xs as it" + arg + " %}", pre + alone)
        # capture then print = the block in place
        z = r.choice(["zq", "a", "b"])
        if ("{{ %s }}" % z) not in body and ("assign %s " % z) not in body and ("capture %s " % z) not in body:
            # ("X": a blank block is suppressed as a whole inside capture but not at the top level)
            both("capture-then-output", pre + "{% capture " + z + " %}X" + body + "{% endcapture %}{{ " + z + " }}", pre + "X" + body)
        # unless = if not
        c1, c2 = r.choice(LAW_CONDS), r.choice(LAW_CONDS)
        alts = r.choice(["", "{% else %}E", "{% elsif " + c2 + " %}B", "{% elsif " + c2 + " %}B{% else %}E"])
        both("unless-is-if-not", pre + "{% unless " + c1 + " %}" + body + alts + "{% endunless %}",
             pre + "{% if not (" + c1 + ") %}" + body + alts + "{% endif %}")
        # assign then print = print
        e = r.choice(LAW_EXPRS)
        both("assign-then-output", pre + "{% assign zq = " + e + " %}{{ zq }}", pre + "{{ " + e + " }}")
        # the with binding lives only inside, whatever the name was bound to outside
        x = r.choice(POOL)
        e = r.choice([w for w in LAW_EXPRS if "|" not in w])   # with takes primitive expressions only
        both("with-binding-only-inside", pre + "{% with " + x + ": " + e + " %}{{ " + x + " }}{% endwith %}={{ " + x + " }}",
             pre + "{{ " + e + " }}={{ " + x + " }}")
    # a macro defined inside a macro body is not callable by the caller, whatever the caller is
    # (top level, rendered partial, included partial, macro body, block inside a loop): varying the
    # inner macro's body leaves the caller's later output unchanged
    for kind in ("top", "render", "include", "macro", "loop", "render-macro"):
        outs = []
        for inner in ("AAA", "BBB"):
            core = ("{% macro outer %}{% macro helper %}" + inner + "{% endmacro %}o{% endmacro %}"
                    "{% call outer %}|{% call helper %}")
            ld = {"pp": core, "pm": "{% macro wrapm %}" + core + "{% endmacro %}{% call wrapm %}"}
            src = {"top": core, "render": "{% render 'pp' %}", "include": "{% include 'pp' %}",
                   "macro": "{% macro wrapm %}" + core + "{% endmacro %}{% call wrapm %}",
                   "loop": "{% for q in (1..2) %}" + core + "{% endfor %}", "render-macro": "{% render 'pm' %}"}[kind]
            outs.append((src, render(src, ld, {}), render_async(src, ld, {})))
            n += 2
        if outs[0][1:] != outs[1][1:] or outs[0][1] != outs[0][2]:
            chk.finding("oracle:inner-macro-leaks-to-caller", f"caller kind {kind}: {outs}",
                        {"kind": kind, "runs": [{"source": s_, "sync": a_, "async": b_} for s_, a_, b_ in outs]})
    return n



def oracle(chk: C.Check, r, thorough: bool) -> tuple[int, int, list]:
    n = 0
    nontrivial = 0
    samples = []
    rounds = 60 if not thorough else 600
    for _ in range(rounds):
        # (a) the partial / macro cannot read the caller's variables
        arg = r.choice(["", ", a: 7", ", w: 'W'", ", b: g"])
        bind = r.choice(["", " with 5", " with 5 as it", " for (1..2)" if False else ""])
        partial = DUMP + r.choice(["", "{% increment a %}", "{% render 'q' %}", "{% assign z = 1 %}{{ z }}", DUMP_LOOP, DUMP_LAMBDA,
                                   DUMP_LOOP + DUMP_LAMBDA])
        loader = {"p": partial, "q": "q:" + DUMP}
        variants = preludes(r, 3)
        outs = []
        for pre, wo, wc in variants:
            src = f"{pre}{wo}<<{{% render 'p'{bind}{arg} %}}>>{wc}"
            outs.append((src, render(src, loader, {"g": "G"})))
        n += len(outs)
        regs = {repr(region(o)) for _, o in outs}
        if all(o[0] == "T" for _, o in outs):
            nontrivial += 1
        if len(regs) != 1:
            chk.finding("oracle:render-reads-caller-state", "output of a rendered template depends on the caller's variables",
                        {"loader": loader, "runs": [{"source": s, "out": o} for s, o in outs]})
        if len(samples) < 2:
            samples.append({"sources": [s for s, _ in outs], "region": region(outs[0][1])})
        # macro
        margs = r.choice(["", ", 7", ", p: 'P'"])
        mx = r.randrange(len(MEXTRA))
        mparam = r.choice(POOL + ["i", "w"])
        outs = []
        for pre, wo, wc in variants:
            mextra = MEXTRA[mx]
            # parameters named like pool variables: a parameter that receives no argument and
            # has no default is undefined in the macro, whatever the caller calls by that name
            src = f"{{% macro m, p, q = 'Q', {mparam} %}}{DUMP}|{{{{ p }}}}|{{{{ q }}}}{mextra}{{% endmacro %}}{pre}{wo}<<{{% call m{margs} %}}>>{wc}"
            outs.append((src, render(src, loader, {"g": "G"})))
        n += len(outs)
        if len({repr(region(o)) for _, o in outs}) != 1:
            chk.finding("oracle:macro-reads-caller-state", "output of a macro depends on the caller's variables",
                        {"runs": [{"source": s, "out": o} for s, o in outs]})
        # (b) nothing the partial / macro does is visible to the caller afterwards
        bodies = ["", "".join("{%% assign %s = 'LEAK' %%}" % v for v in POOL),
                  "".join("{%% capture %s %%}LEAK{%% endcapture %%}" % v for v in POOL),
                  "".join("{%% increment %s %%}" % v for v in POOL) + "{% cycle 'p', 'q' %}",
                  "{% for a in (1..2) %}{% assign i = a %}{% endfor %}{% macro m2 %}LEAK{% endmacro %}"]
        pre, wo, wc = variants[0]
        tail = DUMP + "{% cycle 'p', 'q' %}{% increment a %}{% call m2 %}"
        outs = []
        for body in bodies:
            ld = {"p": body, "q": ""}
            src = f"{pre}{wo}<<{{% render 'p' %}}>>{tail}{wc}"
            outs.append((src + " // p=" + body, render(src, ld, {"g": "G"})))
        n += len(outs)
        if len({repr(after(o)) for _, o in outs}) != 1:
            chk.finding("oracle:render-writes-back", "assignments made by a rendered template are visible to the caller",
                        {"runs": [{"source": s, "out": o} for s, o in outs]})
        outs = []
        for body in bodies:
            src = f"{{% macro m %}}{body}{{% endmacro %}}{pre}{wo}<<{{% call m %}}>>{tail}{wc}"
            outs.append((src, render(src, {}, {"g": "G"})))
        n += len(outs)
        if len({repr(after(o)) for _, o in outs}) != 1:
            chk.finding("oracle:macro-writes-back", "assignments made by a macro are visible to the caller",
                        {"runs": [{"source": s, "out": o} for s, o in outs]})

    # include refused inside render / call; nested render does not see outer arguments
    fixed = [
        ("{% render 'p' %}", {"p": "{% include 'q' %}", "q": "Q"}, ("E", "DisabledTagError")),
        ("{% macro m %}{% include 'q' %}{% endmacro %}{% call m %}", {"q": "Q"}, ("E", "DisabledTagError")),
        ("{% render 'p', x: 1 %}", {"p": "{% render 'q' %}", "q": "[{{ x }}]"}, ("T", "[]")),
        ("{% assign y = 'L' %}{% for i in (1..1) %}{% render 'q' %}{% endfor %}", {"q": "[{{ y }}{{ i }}{{ forloop.index }}]"}, ("T", "[]")),
        # isolation does not wear off with depth: arguments / locals of level n are invisible at level n + 2
        ("{% assign l = 'L' %}{% render 'p', x: 1 %}", {"p": "{% assign m = 'M' %}{% render 'q', y: 2 %}", "q": "{% render 'r', z: 3 %}",
                                                         "r": "[{{ x }}{{ y }}{{ z }}{{ l }}{{ m }}]"}, ("T", "[3]")),
        ("{% macro m, a %}{% render 'q', y: 2 %}{% endmacro %}{% call m, 'A' %}", {"q": "{% render 'r' %}", "r": "[{{ a }}{{ y }}]"}, ("T", "[]")),
        ("{% render 'p', x: 1 %}", {"p": "{% macro m, a %}{% render 'r' %}{% endmacro %}{% call m, 'A' %}", "r": "[{{ a }}{{ x }}]"}, ("T", "[]")),
        ("{% extends 'b3' %}{% block c %}{% render 'q', y: 2 %}{% endblock %}",
         {"b3": "{% assign base = 'B' %}{% for i in (1..1) %}{% block c %}{% endblock %}{% endfor %}", "q": "{% render 'r' %}", "r": "[{{ base }}{{ i }}{{ y }}]"},
         ("T", "[]")),
        # the name bound by render ... with / for must be visible in the partial even without any other data (fixed in /repo 95ad23b)
        ("{% render 'q' with 'x' as y %}", {"q": "[{{ y }}]"}, ("T", "[x]")),
        ("{% render 'q' for (1..2) as y %}", {"q": "[{{ y }}{{ forloop.index }}]"}, ("T", "[11][22]")),
        # include inside a {% block %} of a rendered template (fixed in /repo 65d399b)
        ("{% render 'child' %}", {"base": "{% block b %}{% endblock %}", "x": "X",
                                 "child": "{% extends 'base' %}{% block b %}{% include 'x' %}{% endblock %}"},
         ("E", "DisabledTagError")),
        # render / call inside a block of the base template do not see the base's locals (fixed in /repo 0967af6)
        ("{% extends 'b2' %}{% block c %}{% render 'q' %}{% macro f %}<{{ y }}{{ i }}>{% endmacro %}{% call f %}{% endblock %}",
         {"b2": "{% assign y = 'BASE' %}{% for i in (1..1) %}{% block c %}{% endblock %}{% endfor %}", "q": "[{{ y }}{{ i }}]"},
         ("T", "[]<>")),
        # render ... for: every item gets an isolated context of its own (fixed in /repo 710b4fc)
        ("{% render 'q' for (1..3) as y %}", {"q": "[{{ seen }}{{ c }}]{% assign seen = y %}{% increment c %}{% capture k %}{{ y }}{% endcapture %}"},
         ("T", "[]0[]0[]0")),
        ("{% assign xs = 'a,b' | split: ',' %}{% render 'q' for xs as item %}", {"q": "{% assign item = item | upcase %}({{ item }})"}, ("T", "(A)(B)")),
        ("{% render 'q' for (1..2) as y %}", {"q": "{% cycle 'a', 'b' %}{% for i in (1..2) offset: continue %}{{ i }}{% endfor %}"}, ("T", "a12a12")),
        # a macro may call another macro or itself (fixed in /repo 6700b3b); what it defines, assigns or counts
        # stays inside, also at the second level (fixed in /repo a2db2e5)
        ("{% macro f %}{% macro g %}G{% endmacro %}F{% call g %}{% assign v = 1 %}{% increment c %}{% endmacro %}{% call f %}|{% call g %}|{{ v }}{{ c }}",
         {}, ("T", "FG0||")),
        ("{% macro r, n %}{{ n }}{% if n > 0 %}{% assign m = n | minus: 1 %}{% call r, m %}{% endif %}{% endmacro %}{% assign m = 'outer' %}{% call r, 2 %}{{ m }}",
         {}, ("T", "210outer")),
        ("{% assign y = 'L' %}{% macro a %}[{{ y }}{{ p }}]{% endmacro %}{% macro b, p %}{% assign y = 'B' %}{% call a %}{% endmacro %}{% call b, 'P' %}",
         {}, ("T", "[]")),
    ]
    for src, ld, want in fixed:
        got = render(src, ld)
        n += 1
        if got != want:
            chk.finding("oracle:isolation-fixed-case", f"{src!r} gave {got}, expected {want}", {"source": src, "loader": ld, "got": got})

    # shadowed names are restored after each block construct, whatever the exit
    exits = ["", "{% break %}", "{% continue %}"]
    for x, ex in itertools.product(["a", "x"], exits):
        cases = [
            f"{{% assign {x} = 'OUT' %}}{{% for {x} in (1..3) %}}{{{{ {x} }}}}{ex}{{% endfor %}}={{{{ {x} }}}}",
            f"{{% assign {x} = 'OUT' %}}{{% for q in (1..2) %}}{{% with {x}: 'IN' %}}{{{{ {x} }}}}{ex}{{% endwith %}}{{% endfor %}}={{{{ {x} }}}}",
            f"{{% assign {x} = 'OUT' %}}{{% for q in (1..2) %}}{{% include 'p', {x}: 'IN' %}}{ex}{{% endfor %}}={{{{ {x} }}}}",
            f"{{% assign {x} = 'OUT' %}}{{% for q in (1..2) %}}{{% include 'brk', {x}: 'IN' %}}{{% endfor %}}={{{{ {x} }}}}",
            f"{{% assign {x} = 'OUT' %}}{{% for q in (1..2) %}}{{% render 'p', {x}: 'IN' %}}{ex}{{% endfor %}}={{{{ {x} }}}}",
            f"{{% assign {x} = 'OUT' %}}{{% macro m, {x} %}}{{{{ {x} }}}}{{% endmacro %}}{{% for q in (1..2) %}}{{% call m, 'IN' %}}{ex}{{% endfor %}}={{{{ {x} }}}}",
        ]
        for src in cases:
            got = render(src, {"p": "{{ %s }}" % x, "brk": "{{ %s }}{%% break %%}" % x})
            n += 1
            if got[0] != "T" or not got[1].endswith("=OUT"):
                chk.finding("oracle:shadowed-name-not-restored", f"{src!r} gave {got}", {"source": src, "got": got})
    # a block-bound name hides an outer variable of the same name whatever its value: nil, false, 0, '' too
    for x in ["a", "x"]:
        for val, shown in [("nil", ""), ("false", "false"), ("0", "0"), ("''", "")]:
            nil_cases = [
                (f"{{% assign {x} = 'OUT' %}}{{% with {x}: {val} %}}[{{{{ {x} }}}}]{{% endwith %}}", {}),
                (f"{{% assign {x} = 'OUT' %}}{{% for {x} in vals %}}[{{{{ {x} }}}}]{{% endfor %}}", {}),
                (f"{{% assign {x} = 'OUT' %}}{{% include 'p', {x}: {val} %}}", {"p": "[{{ %s }}]" % x}),
                (f"{{% assign {x} = 'OUT' %}}{{% include 'p' with {val} as {x} %}}", {"p": "[{{ %s }}]" % x}),
                (f"{{% assign {x} = 'OUT' %}}{{% macro m, {x} %}}[{{{{ {x} }}}}]{{% endmacro %}}{{% call m, {val} %}}", {}),
                (f"{{% assign {x} = 'OUT' %}}{{{{ vals | map: {x} => {x} | join: '|' }}}}", {}),
                (f"{{% render 'p', {x}: {val} %}}", {"p": "[{{ %s }}]" % x}),
            ]
            pyval = {"nil": None, "false": False, "0": 0, "''": ""}[val]
            for src, ld in nil_cases:
                got = render(src, ld, {"vals": [pyval], x: "GLOBAL"} if "render" not in src else {"vals": [pyval], x: "GLOBAL"})
                n += 1
                want = shown if "map:" in src else f"[{shown}]"
                if got != ("T", want):
                    chk.finding("oracle:falsy-binding-does-not-shadow", f"{src!r} gave {got}, expected {want!r}",
                                {"source": src, "loader": ld, "data": {"vals": [pyval], x: "GLOBAL"}, "got": got})
    # lambda parameters (scope pushed inside a generator that a filter may abandon early)
    xs = {"xs": [1, 2, 3], "hs": [{"k": 1}, {"k": 2}]}
    lam_cases = []
    for x in ["x", "a"]:
        for f, cond in [("find", f"{x} == 2"), ("find", f"{x} == 9"), ("has", f"{x} == 1"), ("has", f"{x} == 9"),
                        ("find_index", f"{x} == 3"), ("where", f"{x} > 1"), ("reject", f"{x} > 1"), ("map", f"{x}")]:
            lam_cases.append((f"{{% assign {x} = 'OUT' %}}{{% assign r = xs | {f}: {x} => {cond} %}}={{{{ {x} }}}}", {}))
            lam_cases.append((f"{{% assign {x} = 'OUT' %}}{{% for q in (1..2) %}}{{% assign r = xs | {f}: {x} => {cond} %}}{{% endfor %}}={{{{ {x} }}}}", {}))
            # inside an included partial: the include's own argument must not leak either
            lam_cases.append((f"{{% assign {x} = 'OUT' %}}{{% assign kk = 'OUT' %}}{{% include 'lp', kk: 'K' %}}={{{{ {x} }}}}={{{{ kk }}}}",
                              {"lp": f"{{% assign r = xs | {f}: {x} => {cond} %}}"}))
        # two-parameter arrow functions; find / find_index / has stop at the first match
        for f, cond in [("find", "j == 1"), ("find", f"{x} == 1"), ("has", "j == 0"), ("has", f"{x} == 2"), ("find_index", "j == 1"),
                        ("find", "j == 7"), ("where", "j > 0"), ("map", "j")]:
            lam_cases.append((f"{{% assign {x} = 'OUT' %}}{{% assign j = 'OUT' %}}{{% assign r = xs | {f}: ({x}, j) => {cond} %}}={{{{ {x} }}}}={{{{ j }}}}", {}))
            lam_cases.append((f"{{% assign {x} = 'OUT' %}}{{% assign j = 'OUT' %}}{{% for q in (1..2) %}}{{% with w: 1 %}}{{% assign r = xs | {f}: ({x}, j) => {cond} %}}"
                              f"{{% endwith %}}{{% endfor %}}={{{{ {x} }}}}={{{{ j }}}}", {}))
    for src, ld in lam_cases:
        got = render(src, ld, xs)
        n += 1
        want_tail = "=OUT=OUT" if ("kk" in src or ", j)" in src) else "=OUT"
        if got[0] != "T" or not got[1].endswith(want_tail):
            chk.finding("oracle:lambda-parameter-leaks", f"{src!r} gave {got}", {"source": src, "loader": ld, "data": xs, "got": got})
    # ... also when the construct is left through an error: the context is balanced
    err_cases = [
        "{% for i in (1..3) %}{% with a: 1 %}{% if 1 < 'x' %}{% endif %}{% endwith %}{% endfor %}",
        "{% for i in (1..3) %}{% for j in (1..2) %}{% include 'nope' %}{% endfor %}{% endfor %}",
        "{% with a: 1 %}{% include 'bad' %}{% endwith %}",
        "{% for i in (1..2) %}{% include 'self' %}{% endfor %}",
    ]
    for src in err_cases:
        res = run_ctx(src, {"bad": "{% if 1 < 'x' %}{% endif %}", "self": "{% for k in (1..2) %}{% include 'self' %}{% endfor %}"}, {}, True)
        n += 1
        if res["ctx"] is None or res["o"][0] != "E" or res["ctx"][0] != 0 or res["ctx"][1] != 0 or res["ctx"][2] != "main":
            chk.finding("oracle:context-unbalanced-after-error", f"{src!r}: {res}", {"source": src, "result": res})
    # ... laws proved of the model (Proofs/Render_buffer.v, Render_capture.v), probed on the
    # implementation alone: render-for = concatenation of isolated item renders; capture-then-print
    # = the block itself; unless = if not; assign-then-print = print; a with binding lives only inside
    n += law_probes(chk, r, 40 if not thorough else 400)
    return n, nontrivial, samples


def c_ctxobs(res: dict[str, Any]) -> str:
    sc, lp, tn, loc, cnt = res["ctx"]
    return (f"({C.cZ(sc)}, {C.cZ(lp)}, {C.cstr(tn)}, {C.clist([C.cstr(k) for k in loc], 'str')}, "
            f"{C.clist([C.cpair(C.cstr(k), C.cZ(v)) for k, v in cnt.items()], '(str * Z)')})")


DEFS = """
Definition ctx_obs (c : ctx) : Z * Z * str * list str * list (str * Z) :=
  (Z.of_nat (length (scopes c)), Z.of_nat (length (loops c)), tname c, keys (locals c), counters c).
Definition obs_eqb (a b : Z * Z * str * list str * list (str * Z)) : bool :=
  let '(s1, l1, t1, k1, c1) := a in let '(s2, l2, t2, k2, c2) := b in
  Z.eqb s1 s2 && Z.eqb l1 l2 && str_eqb t1 t2 && list_eqb str_eqb k1 k2
  && list_eqb (prod_eqb str_eqb Z.eqb) c1 c2.
Definition agree (r : rstate) (impl : outcome) (o : Z * Z * str * list str * list (str * Z)) : bool * bool :=
  match outcome_of r with
  | OUnmodelled => (true, true)
  | m => (outcome_agrees m impl && obs_eqb (ctx_obs (cx r)) o, false)
  end.
"""


def main(chk: C.Check, build: C.Build) -> None:
    proofs_ok = C.proof_stage(chk, build, NEEDED)
    thorough = chk.tier == "thorough"
    r = C.rng("c07")
    n_oracle, nontrivial, samples = oracle(chk, r, thorough)

    items = []
    nprog = 300 if not thorough else 4000
    dist = {"text": 0, "error": 0, "pyexc": 0, "parse_error": 0}
    partial_programs = 0
    for _ in range(nprog):
        prog = clf.gen_program(r, depth=3)
        feats = repr(prog)
        uses = any(k in feats for k in ("'render'", "'include'", "'call'", "'with'", "'for'"))
        src = clf.p_nodes(prog["main"], None)
        loader_src = {k: clf.p_nodes(v, None) for k, v in prog["loader"].items()}
        data = clf.gen_data(r)
        suppress = r.random() < 0.7
        res = run_ctx(src, loader_src, data, suppress)
        if res["ctx"] is None:
            dist["parse_error"] += 1
            continue
        dist["text" if res["o"][0] == "T" else "error" if res["o"][0] == "E" else "pyexc"] += 1
        if uses:
            partial_programs += 1
        cfg = f"{{| suppress := {C.cbool(suppress)}; depth_limit := 30%Z |}}"
        mt = (f"render_template {cfg} {clf.c_loader(prog['loader'])} 400%nat "
              f"{clf.c_block(prog['main'])} [{clf.c_ns(data)}] {C.cstr('main')}")
        items.append({"case": f"(agree ({mt}) {c_outcome(res['o'])} {c_ctxobs(res)})",
                      "model": f"let r := {mt} in (outcome_of r, ctx_obs (cx r))",
                      "replay": {"source": src, "loader": loader_src, "data": data, "suppress": suppress,
                                 "implementation": res}})
    C.correspond(chk, "c07", IMPORTS, DEFS, items, what="Core.Render context shape after render_with_context", flagged=True)
    C.proofs_verdict(chk, proofs_ok)
    chk.coverage.update({
        "evaluations": n_oracle + len(items),
        "distinct_nontrivial": nontrivial + partial_programs,
        "rule": ("(1) paired non-interference runs: 3 caller environments (assign/capture/increment/cycle over a pool of 6 names, "
                 "optionally inside for / with / nested for) x render (with/args) and macro calls whose bodies print every pool name, "
                 "forloop and block-bound names; partial/macro bodies that assign, capture, count, loop and define macros vs. the caller's "
                 "later output; fixed isolation cases; shadow-restoration for for/with/include/render/call x exit by fallthrough/break/continue/error. "
                 "(2) CLF programs rendered with render_with_context on an explicit RenderContext, context shape compared with the model after "
                 "return or raise. non-trivial = a paired run where all variants rendered, or a CLF program that uses for/with/include/render/call"),
        "samples": samples,
        "distribution": dist,
        "exhaustive": False,
        "tier_proved": "Core interpreter: frame balance for every outcome, isolation of render/call, refusal of include",
    })
    chk.assumptions += [
        "auto_escape off, default Undefined policy; tablerow and translate arguments are outside the model",
        "generator finalisation timing on interpreters without reference counting is outside",
    ]
