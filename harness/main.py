"""Entry point: ./check <Cxx> <quick|thorough>."""

from __future__ import annotations

import importlib
import sys
import traceback

from . import common as C


def main(argv: list[str]) -> int:
    if argv and argv[0] == "--pin":
        C.pin_statements(argv[1:])
        print("pinned")
        return 0
    if argv and argv[0] == "--build":
        b = C.coq_build()
        print(b.log[-3000:])
        print("FAILED:", b.failed)
        return 1 if b.failed else 0
    if len(argv) < 2:
        print(__doc__)
        return 2
    prop, tier = argv[0], argv[1]
    if "--replay" in argv:
        # A replay file records the failing input together with the seed and tier of
        # the run that found it; every random choice derives from the seed, so
        # re-running the check with them reproduces the report.
        import json
        import os
        path = argv[argv.index("--replay") + 1]
        data = json.load(open(path))
        print(json.dumps({k: v for k, v in data.items() if k not in ("steps",)}, indent=1, default=str)[:6000])
        os.environ["VERIF_SEED"] = str(data.get("seed", 0))
        tier = data.get("tier", tier)
    try:
        mod = importlib.import_module(f"harness.{prop.lower()}")
    except ModuleNotFoundError:
        print(f"no check for {prop}")
        return 2
    pre = getattr(mod, "pre_build", None)
    targets = [f"theories/Properties/{prop}.v"] + list(getattr(mod, "NEEDED", []))
    build = C.coq_build(pre, targets)
    chk = C.Check(prop, tier)
    try:
        mod.main(chk, build)
    except Exception:  # noqa: BLE001 - a crash of the machinery is not a verdict
        traceback.print_exc()
        print(f"check {prop} crashed (machinery error, no verdict)")
        return 2
    return chk.finish()


if __name__ == "__main__":
    sys.exit(main(sys.argv[1:]))
