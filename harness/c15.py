"""C15 — message extraction covers every catalog lookup a render can make.

Tie: generated programs (translate/plural blocks and the five translation
filters with literal and non-literal operands in output / assign / echo
statements, ternary branches, if/elsif/else and for/else bodies and
``{% liquid %}`` tags, with comments of every kind and multi-line layouts) are
printed to Liquid source, parsed by /repo, and

* ``list(extract_from_template(t))`` is compared tuple by tuple with the Coq
  model ``ExtractI18n.extract`` (line, function family, message ids / plural /
  context, translator comments),
* ``t.render(translations=<recording catalog>, **data)`` is compared call by
  call (family, context, ids, plural, n, position of the originating tag or
  expression, literal-site flag, final outcome) with ``ExtractI18n.render``.

Direct oracle on the implementation alone: extraction never raises on a
template that parses; every recorded lookup made for a literal site is among
the extracted tuples with the same family, ids and the line of the originating
tag/expression; a translator comment is attached to at most one message, the
first one extracted after it; ``extract_from_templates`` / ``extract_liquid``
agree with ``extract_from_template``.
"""

from __future__ import annotations

import bisect
import io
import re
import sys
import warnings
from typing import Any

from . import common as C

IMPORTS = "From LQ Require Import Kernels.Translate Kernels.ExtractI18n."
NEEDED = ["theories/Base/Str.v", "theories/Kernels/Translate.v", "theories/Kernels/ExtractI18n.v",
          "theories/Proofs/Translate_proofs.v", "theories/Proofs/ExtractI18n_proofs.v",
          "theories/Proofs/ExtractI18n_cross.v", "theories/Kernels/LexUni.v"]

FAMILIES = ("gettext", "ngettext", "pgettext", "npgettext")
TFILTERS = {"t": "FT", "gettext": "FGettext", "ngettext": "FNgettext",
            "pgettext": "FPgettext", "npgettext": "FNpgettext"}
# non-translation filters: FOther n -> source text (arguments fixed, never fail)
OTHER_FILTERS = ["upcase", "downcase", "append: '!'", "default: 'dflt'", "strip"]

WS_EXOTIC = ["\x0b", "\x0c", "\x1c", "\x1d", "\x1e", "\x1f", "\x85", "\xa0", "\u2003", "\u2028", "\u2029", "\u3000", "\u1680"]


# ------------------------------------------------------------------ recorder


class Recorder:
    """A Translations double: records every lookup together with the start
    offset of the tag / top-level expression on whose behalf it is made (found
    on the Python stack), and returns text without conversion specifiers."""

    def __init__(self) -> None:
        self.calls: list[tuple] = []

    def _origin(self) -> int:
        from liquid2 import Expression, Node
        from liquid2.builtin.tags.translate_tag import TranslateNode
        f = sys._getframe(2)
        last_expr = None
        while f is not None:
            s = f.f_locals.get("self")
            if isinstance(s, Expression):
                last_expr = s
            elif isinstance(s, Node):
                if isinstance(s, TranslateNode):
                    return s.token.start
                if last_expr is not None:
                    return last_expr.token.start
                return s.token.start
            f = f.f_back
        return -1

    def gettext(self, message: str) -> str:
        self.calls.append(("gettext", None, str(message), None, None, self._origin()))
        return "T"

    def ngettext(self, singular: str, plural: str, n: int) -> str:
        self.calls.append(("ngettext", None, str(singular), str(plural), n, self._origin()))
        return "T"

    def pgettext(self, context: str, message: str) -> str:
        self.calls.append(("pgettext", str(context), str(message), None, None, self._origin()))
        return "T"

    def npgettext(self, context: str, singular: str, plural: str, n: int) -> str:
        self.calls.append(("npgettext", str(context), str(singular), str(plural), n, self._origin()))
        return "T"


# ------------------------------------------------------------------ printer


class Printer:
    """Prints a generated program to Liquid source and builds, alongside, the
    Coq term of the abstract program with the start offset of every token."""

    def __init__(self, rnd: Any) -> None:
        self.r = rnd
        self.buf: list[str] = []
        self.off = 0
        self.await_next: list[dict] = []      # blocks whose token is the next token emitted
        self.strings: set[str] = set()        # every string literal (for the int() table)
        self.lit_filter_sites: dict[tuple[int, str], bool] = {}   # (expr pos, msgid) -> literal
        self.nonlit_filter_sites: dict[tuple[int, str], bool] = {}  # literal operand, other operands not literal
        self.tail_sites: dict[tuple[int, str], bool] = {}         # `'lit' if c else 'lit' || t`: bare literal branches
        self.tag_sites: dict[int, bool] = {}                      # translate tag pos -> literal
        self.static_sites: list[tuple[int, tuple]] = []           # (pos, message) the harness expects extracted
        self.comments: list[tuple[int, str]] = []                 # (pos, stripped translator comment)
        self.slots: set[int] = set()
        self.features: set[str] = set()

    # -- low level
    def w(self, s: str) -> None:
        self.buf.append(s)
        self.off += len(s)

    def tok(self) -> int:
        """A token starts here."""
        for b in self.await_next:
            b["pos"] = self.off
        self.await_next = []
        return self.off

    def sp(self, liquid: bool = False) -> None:
        if liquid:
            self.w(self.r.choice([" ", " ", "  ", "\t"]))
        else:
            self.w(self.r.choice([" ", " ", " ", "  ", "\n", "\n  ", ""]) or " ")

    # -- expressions
    def prim(self, p: tuple) -> tuple[int, str]:
        """Print a primitive; returns (token start, Coq term)."""
        k = p[0]
        if k == "str":
            q = '"' if "'" in p[1] else "'" if '"' in p[1] else self.r.choice("'\"")
            assert not ("'" in p[1] and '"' in p[1])
            self.w(q)
            pos = self.off
            self.w(p[1])
            self.w(q)
            self.strings.add(p[1])
            return pos, f"(PStr {C.cstr(p[1])})"
        if k == "int" and p[1] < 0 and self.buf and self.buf[-1].endswith("{"):
            self.w(" ")        # `{{-1` would read as whitespace control
        pos = self.off
        if k == "var":
            self.w(f"v{p[1]}")
            self.slots.add(p[1])
            return pos, f"(PVar {p[1]})"
        if k == "int":
            self.w(str(p[1]))
            return pos, f"(PInt {C.cZ(p[1])})"
        if k == "nil":
            self.w("nil")
            return pos, "PNil"
        self.w("true" if p[1] else "false")
        return pos, f"(PBool {C.cbool(p[1])})"

    def filters(self, fs: list[tuple], tail: bool = False) -> str:
        out = []
        for j, (name, args) in enumerate(fs):
            if tail and j == 0:
                self.w(self.r.choice([" || ", " ||", "|| "]))
            else:
                self.w(self.r.choice([" | ", " | ", "| ", " |"]))
            if name.startswith("other"):
                n = int(name[5:])
                self.w(OTHER_FILTERS[n])
                out.append(f"{{| f_name := FOther {n}; f_args := [] |}}")
                continue
            self.w(name)
            cargs = []
            for i, a in enumerate(args):
                self.w(": " if i == 0 else self.r.choice([", ", ","]))
                if a[0] == "pos":
                    _, t = self.prim(a[1])
                    cargs.append(f"FPos {t}")
                else:
                    kw = a[1]
                    self.w(kw + self.r.choice([": ", ":", " = "]))
                    _, t = self.prim(a[2])
                    ck = {"plural": "KwPlural", "count": "KwCount"}.get(kw) or f"(KwOther {int(kw[1:])})"
                    cargs.append(f"FKw {ck} {t}")
            out.append(f"{{| f_name := {TFILTERS[name]}; f_args := {C.clist(cargs, 'farg')} |}}")
        return C.clist(out, "lfilter")

    def note_filter_site(self, pos: int, left: tuple, fs: list[tuple]) -> None:
        """Harness-side classification of a branch `left | f1 | ...`."""
        if not fs:
            return
        name, args = fs[0]
        if name.startswith("other") or left[0] != "str":
            return
        m = static_message(name, args, left[1])
        lit = operands_literal(name, args)
        if lit:
            self.lit_filter_sites[(pos, left[1])] = True
        else:
            self.nonlit_filter_sites[(pos, left[1])] = True
        if m is not None:
            self.static_sites.append((pos, m))

    def texpr(self, e: tuple, liquid: bool = False) -> tuple[int, str]:
        k = e[0]
        if k == "plain":
            pos, t = self.prim(e[1])
            return pos, f"(TPlain {pos} {t})"
        if k == "filtered":
            pos, lt = self.prim(e[1])
            fs = self.filters(e[2])
            self.note_filter_site(pos, e[1], e[2])
            return pos, f"(TFiltered {pos} {lt} {fs})"
        _, left, fs, cond, alt, afs, tfs = e
        self.features.add("ternary")
        pos, lt = self.prim(left)
        cfs = self.filters(fs)
        self.w(" if ")
        _, ct = self.prim(cond)
        calt = "None"
        cafs = "[]"
        if alt is not None:
            self.w(" else " if liquid else self.r.choice([" else ", "\n else "]))
            _, at = self.prim(alt)
            calt = f"(Some {at})"
            cafs = self.filters(afs)
        ctfs = self.filters(tfs, tail=True) if tfs else "[]"
        self.note_filter_site(pos, left, fs)
        if alt is not None:
            self.note_filter_site(pos, alt, afs)
        if tfs and not tfs[0][0].startswith("other"):
            for br, brfs in ((left, fs), (alt, afs)):
                if br is not None and br[0] == "str" and not brfs:
                    self.tail_sites[(pos, br[1])] = True
        return pos, f"(TTernary {pos} {lt} {cfs} {ct} {calt} {cafs} {ctfs})"

    # -- nodes
    def open_tag(self, name: str, liquid: bool) -> int:
        if liquid:
            self.w(self.r.choice(["", " ", "  ", "\t"]))
            pos = self.tok()
            self.w(name)
            return pos
        pos = self.tok()
        self.w(self.r.choice(["{% ", "{% ", "{%", "{%- ", "{%\n "]))
        self.w(name)
        return pos

    def close_tag(self, liquid: bool) -> None:
        if liquid:
            self.w(self.r.choice(["", " "]) + "\n")
        else:
            self.w(self.r.choice([" %}", " %}", "%}", " -%}", "\n%}"]))

    def block(self, ns: list[tuple], liquid: bool) -> tuple[dict, list[str]]:
        b: dict = {"pos": None}
        self.await_next.append(b)
        items = [self.node(n, liquid) for n in ns]
        return b, items

    def finish_block(self, b: dict, items: list[str]) -> str:
        assert b["pos"] is not None
        return f"(Block {b['pos']} {cnodes(items)})"

    def node(self, n: tuple, liquid: bool = False) -> str:
        k = n[0]
        if k == "text":
            pos = self.tok()
            self.w(n[1])
            return f"(NText {pos})"
        if k == "raw":
            # RawNode: no expressions, no children; its token starts at `{%`
            self.features.add("raw")
            pos = self.tok()
            self.w(self.r.choice(["{% raw %}", "{%raw%}", "{%- raw -%}"]) + n[1]
                   + self.r.choice(["{% endraw %}", "{%endraw%}", "{% endraw -%}"]))
            return f"(NText {pos})"
        if k == "comment":
            return self.comment(n, liquid)
        if k == "expr":
            return self.expr_node(n, liquid)
        if k == "if":
            return self.if_node(n, liquid)
        if k == "for":
            return self.for_node(n, liquid)
        if k == "translate":
            return self.translate_node(n)
        if k == "liquid":
            return self.liquid_node(n)
        raise ValueError(k)

    def comment(self, n: tuple, liquid: bool) -> str:
        _, kind, text = n
        self.features.add("comment:" + kind)
        if liquid:
            self.w(self.r.choice(["", " ", "  "]) if kind == "line" else "")
            pos = self.tok()
            if kind == "line":
                self.w("#" + text + "\n")
            else:
                self.w("comment\n" + text + "endcomment\n")
        else:
            pos = self.tok()
            if kind == "hash":
                self.w("{#" + text + "#}")
            elif kind == "hash2":
                self.w("{##" + text + "##}")
            elif kind == "block":
                self.w(self.r.choice(["{% comment %}", "{%comment%}", "{%- comment -%}"]) + text
                       + self.r.choice(["{% endcomment %}", "{%- endcomment %}"]))
            else:
                self.w(self.r.choice(["{% #", "{%#", "{%- #"]) + text + self.r.choice(["%}", " %}"]))
        st = text.strip()
        if st.startswith("Translators:"):
            self.comments.append((pos, st))
            self.features.add("translator-comment")
        return f"(NComment {pos} {C.cstr(text)})"

    def expr_node(self, n: tuple, liquid: bool) -> str:
        kind, e = n[1], n[2]
        ml = len(n) > 3 and n[3] == "ml"      # forced multi-line layout
        self.features.add(kind + (":liquid" if liquid else ""))
        if kind == "output":
            pos = self.tok()
            self.w("{{\n\n  " if ml else self.r.choice(["{{ ", "{{ ", "{{", "{{- ", "{{\n  "]))
            _, t = self.texpr(e)
            self.w("\n\n}}" if ml else self.r.choice([" }}", " }}", "}}", " -}}", "\n}}"]))
            return f"(NExpr KOutput {pos} {t})"
        if kind == "echo":
            pos = self.open_tag("echo", liquid)
            self.sp(liquid)
            _, t = self.texpr(e, liquid)
            self.close_tag(liquid)
            return f"(NExpr KEcho {pos} {t})"
        pos = self.open_tag("assign", liquid)
        self.sp(liquid)
        self.w(f"x{self.r.randint(0, 3)} =")
        self.sp(liquid)
        _, t = self.texpr(e, liquid)
        self.close_tag(liquid)
        return f"(NExpr KAssign {pos} {t})"

    def if_node(self, n: tuple, liquid: bool) -> str:
        _, cond, cons, alts, default = n
        self.features.add("if" + (":liquid" if liquid else ""))
        pos = self.open_tag("if", liquid)
        self.w(" ")
        cpos, ct = self.prim(cond)
        self.close_tag(liquid)
        b, items = self.block(cons, liquid)
        calts = []
        for acond, abody in alts:
            self.features.add("elsif")
            apos = self.open_tag("elsif", liquid)
            self.w(" ")
            acpos, act = self.prim(acond)
            self.close_tag(liquid)
            aitems = [self.node(x, liquid) for x in abody]
            calts.append((apos, acpos, act, f"(Block {apos} {cnodes(aitems)})"))
        cdef = "NoBlock"
        if default is not None:
            self.features.add("else")
            dpos = self.open_tag("else", liquid)
            self.close_tag(liquid)
            ditems = [self.node(x, liquid) for x in default]
            cdef = f"(SomeBlock (Block {dpos} {cnodes(ditems)}))"
        self.open_tag("endif", liquid)
        self.close_tag(liquid)
        calt = "ANil"
        for apos, acpos, act, ab in reversed(calts):
            calt = f"(ACons {apos} {acpos} {act} {ab} {calt})"
        return f"(NIf {pos} {cpos} {ct} {self.finish_block(b, items)} {calt} {cdef})"

    def for_node(self, n: tuple, liquid: bool) -> str:
        _, stop, body, default = n
        self.features.add("for" + (":liquid" if liquid else ""))
        pos = self.open_tag("for", liquid)
        self.w(" ")
        ipos = self.off
        self.w("i in (1..")
        _, st = self.prim(stop)
        self.w(")")
        self.close_tag(liquid)
        b, items = self.block(body, liquid)
        cdef = "NoBlock"
        if default is not None:
            self.features.add("for-else")
            dpos = self.open_tag("else", liquid)
            self.close_tag(liquid)
            ditems = [self.node(x, liquid) for x in default]
            cdef = f"(SomeBlock (Block {dpos} {cnodes(ditems)}))"
        self.open_tag("endfor", liquid)
        self.close_tag(liquid)
        return f"(NFor {pos} {ipos} {st} {self.finish_block(b, items)} {cdef})"

    def mparts(self, parts: list[tuple]) -> str:
        out = []
        for p in parts:
            if p[0] == "text":
                pos = self.tok()
                self.w(p[1])
                out.append(f"MText {pos} {C.cstr(p[1])}")
            else:
                pos = self.tok()
                self.w(self.r.choice(["{{ ", "{{"]))
                epos = self.off
                self.w(p[1])
                self.w(self.r.choice([" }}", "}}"]))
                out.append(f"MVar {pos} {epos} {C.cstr(p[1])}")
        return C.clist(out, "mpart")

    def translate_node(self, n: tuple) -> str:
        _, args, sing, plural = n
        self.features.add("translate" + ("+plural" if plural is not None else ""))
        pos = self.tok()
        self.w(self.r.choice(["{% translate", "{%- translate", "{%translate"]))
        cargs = []
        for i, (name, p) in enumerate(args):
            self.w(self.r.choice([" ", ", "]) if i == 0 else ", ")
            self.w(name + self.r.choice([": ", ":", " = "]))
            ppos, t = self.prim(p)
            cn = {"context": "TaContext", "count": "TaCount"}.get(name) or f"(TaOther {int(name[1:])})"
            cargs.append(f"({cn}, ({ppos}, {t}))")
        self.w(self.r.choice([" %}", " -%}", "%}"]))
        sb = {"pos": None}
        self.await_next.append(sb)
        sparts = self.mparts(sing)
        cpl = "None"
        if plural is not None:
            ppos = self.tok()
            self.w(self.r.choice(["{% plural %}", "{%- plural -%}", "{%plural%}"]))
            pparts = self.mparts(plural)
            cpl = f"(Some {{| mb_pos := {ppos}; mb_parts := {pparts} |}})"
        self.tok()
        self.w(self.r.choice(["{% endtranslate %}", "{%- endtranslate %}"]))
        # harness-side classification
        ctxs = [p for nm, p in args if nm == "context"]
        ctx = ctxs[-1] if ctxs else None
        lit = ctx is None or ctx[0] == "str"
        self.tag_sites[pos] = lit
        if sing or plural is not None:
            stext = norm_message(sing)
            c = ctx[1] if (ctx is not None and ctx[0] == "str" and ctx[1]) else None
            if plural is not None:
                ptext = norm_message(plural)
                m = ("npgettext", c, stext, ptext) if c else ("ngettext", None, stext, ptext)
            else:
                m = ("pgettext", c, stext, None) if c else ("gettext", None, stext, None)
            self.static_sites.append((pos, m))
        for nm, p in args:
            if p[0] == "str":
                self.strings.add(p[1])
        return (f"(NTranslate {pos} {C.clist(cargs, 'targ')} "
                f"{{| mb_pos := {sb['pos']}; mb_parts := {sparts} |}} {cpl})")

    def liquid_node(self, n: tuple) -> str:
        _, body = n
        self.features.add("liquid")
        pos = self.tok()
        self.w(self.r.choice(["{% liquid\n", "{%- liquid\n", "{% liquid \n"]))
        items = [self.node(x, True) for x in body]
        # the closing %} is swallowed by the last statement or stands alone
        self.await_next = []
        self.w(self.r.choice(["%}", " %}", "-%}"]))
        return f"(NLiquid {pos} (Block {pos} {cnodes(items)}))"


def cnodes(items: list[str]) -> str:
    t = "NNil"
    for it in reversed(items):
        t = f"(NCons {it} {t})"
    return t


# -------------------------------------------- harness-side static notions


def norm_message(parts: list[tuple]) -> str:
    """Independent reimplementation of the message text of a block."""
    s = "".join(p[1].replace("%", "%%") if p[0] == "text" else f"%({p[1]})s" for p in parts)
    return re.sub(r"\s*\n\s*", " ", s.strip())


def _positional(args: list[tuple]) -> list[tuple]:
    return [a[1] for a in args if a[0] == "pos"]


def _kw(args: list[tuple], name: str) -> tuple | None:
    v = None
    for a in args:
        if a[0] == "kw" and a[1] == name:
            v = a[2]
    return v


def _lit(p: tuple | None) -> bool:
    return p is None or p[0] == "str"


def operands_literal(name: str, args: list[tuple]) -> bool:
    """"Applied to string literals": every operand the lookup sends to the
    catalog (context, plural) is a string literal or absent."""
    pos = _positional(args)
    if name == "t":
        return _lit(pos[0] if pos else None) and _lit(_kw(args, "plural"))
    if name == "gettext":
        return True
    if name in ("ngettext", "pgettext"):
        return _lit(pos[0] if pos else None)
    return _lit(pos[0] if pos else None) and _lit(pos[1] if len(pos) > 1 else None)


def static_message(name: str, args: list[tuple], left: str) -> tuple | None:
    """What the harness expects extraction to report for `'left' | name: args`
    (None: nothing), derived from the documented meaning of the filters: the
    message a render would look up, when its operands are string literals."""
    pos = _positional(args)
    if name == "gettext":
        return ("gettext", None, left, None)
    if name == "t":
        ctx = pos[0] if pos else None
        pl = _kw(args, "plural")
        if pl is not None and pl[0] != "str":
            return None
        c = ctx[1] if ctx is not None and ctx[0] == "str" else None
        if pl is not None:
            return ("npgettext", c, left, pl[1]) if c is not None else ("ngettext", None, left, pl[1])
        return ("pgettext", c, left, None) if c is not None else ("gettext", None, left, None)
    if name == "ngettext":
        if pos and pos[0][0] == "str":
            return ("ngettext", None, left, pos[0][1])
        return None
    if name == "pgettext":
        if pos and pos[0][0] == "str":
            return ("pgettext", pos[0][1], left, None)
        return None
    if len(pos) > 1 and pos[0][0] == "str" and pos[1][0] == "str":
        return ("npgettext", pos[0][1], left, pos[1][1])
    return None


# ---------------------------------------------------------------- generator


class Gen:
    def __init__(self, rnd: Any, thorough: bool) -> None:
        self.r = rnd
        self.n = 0
        self.thorough = thorough

    def msgid(self) -> str:
        self.n += 1
        r = self.r
        # & < > ' " : under auto-escape a literal must reach the catalog unescaped
        tail = r.choice(["", "", " items", "!", " 100%", " é", ", x", " %(k0)s", ":",
                         " R&D", " <b>x</b>", " it's", ' say "hi"', " a>b", " &amp;"])
        return f"m{self.n}{tail}"

    def slot(self) -> int:
        return self.r.randint(0, 5)

    def prim_any(self) -> tuple:
        r = self.r
        return r.choice([("var", self.slot()), ("var", self.slot()), ("int", r.choice([0, 1, 2, 5, -1])),
                         ("nil",), ("bool", True), ("bool", False), ("str", r.choice(["", "3", "a", " 2 "]))])

    def ctx(self) -> tuple:
        r = self.r
        x = r.random()
        if x < 0.65:
            return ("str", r.choice(["ctx", "menu", "c1", "", "a b", "R&D menu", "a<b", "it's", 'the "x"', "x>y"]))
        return self.prim_any()

    def count(self) -> tuple:
        r = self.r
        x = r.random()
        if x < 0.45:
            return ("var", self.slot())
        return r.choice([("int", 0), ("int", 1), ("int", 2), ("int", 7), ("str", "a"), ("str", "3"),
                         ("nil",), ("bool", True), ("bool", False), ("int", -1)])

    def plural(self) -> tuple:
        r = self.r
        if r.random() < 0.75:
            return ("str", self.msgid() + "s")
        return self.prim_any()

    def kwother(self) -> tuple:
        return ("kw", f"k{self.r.randint(0, 2)}", self.r.choice([("str", "W"), ("var", self.slot()), ("int", 3)]))

    def tfilter(self) -> tuple:
        r = self.r
        name = r.choice(["t", "t", "t", "gettext", "ngettext", "pgettext", "npgettext"])
        args: list[tuple] = []
        if name == "t":
            if r.random() < 0.45:
                args.append(("pos", self.ctx()))
            if r.random() < 0.5:
                args.append(("kw", "plural", self.plural()))
                if r.random() < 0.8:
                    args.append(("kw", "count", self.count()))
                if r.random() < 0.1:
                    args.append(("kw", "plural", self.plural()))
            elif r.random() < 0.15:
                args.append(("kw", "count", self.count()))
            if r.random() < 0.03:
                args.append(("pos", self.ctx()))       # too many positionals
        elif name == "gettext":
            if r.random() < 0.04:
                args.append(("pos", self.ctx()))       # TypeError at run time
        elif name == "ngettext":
            args += [("pos", self.plural()), ("pos", self.count())]
        elif name == "pgettext":
            args += [("pos", self.ctx())]
        else:
            args += [("pos", self.ctx()), ("pos", self.plural()), ("pos", self.count())]
        if name in ("ngettext", "pgettext", "npgettext"):
            x = r.random()
            if x < 0.04 and args:
                args.pop()                                # too few
            elif x < 0.07:
                args.append(("pos", self.prim_any()))   # too many
        if r.random() < 0.3:
            args.append(self.kwother())
        if r.random() < 0.25:
            r.shuffle(args)                               # keyword before positional etc.
        return (name, args)

    def ofilter(self) -> tuple:
        return (f"other{self.r.randint(0, len(OTHER_FILTERS) - 1)}", [])

    def branch_filters(self) -> list[tuple]:
        r = self.r
        x = r.random()
        if x < 0.1:
            return []
        if x < 0.6:
            fs = [self.tfilter()]
        elif x < 0.75:
            fs = [self.tfilter(), self.ofilter()]
        elif x < 0.87:
            fs = [self.ofilter(), self.tfilter()]
        elif x < 0.93:
            fs = [self.tfilter(), self.tfilter()]
        else:
            fs = [self.ofilter()]
        return fs

    def left(self, plain: bool = False) -> tuple:
        """The operand of a branch. String literals are unique message ids, so
        that a recorded lookup identifies its site; the empty literal only
        appears where no other lookup of the expression can produce ''."""
        r = self.r
        x = r.random()
        if x < 0.7:
            return ("str", self.msgid())
        if x < 0.75 and plain:
            return ("str", "")
        return r.choice([("var", self.slot()), ("var", self.slot()), ("int", r.choice([0, 1, 2, 5, -1])),
                         ("nil",), ("bool", True), ("bool", False)])

    def texpr(self) -> tuple:
        r = self.r
        if r.random() < 0.7:
            return ("filtered", self.left(plain=True), self.branch_filters())
        alt = self.left() if r.random() < 0.75 else None
        afs = self.branch_filters() if alt is not None else []
        tfs = [self.tfilter()] if r.random() < 0.15 else ([self.ofilter(), self.tfilter()] if r.random() < 0.05 else [])
        cond = r.choice([("var", self.slot()), ("var", self.slot()), ("bool", True), ("bool", False), ("nil",)])
        return ("ternary", self.left(), self.branch_filters(), cond, alt, afs, tfs)

    def text(self) -> tuple:
        r = self.r
        pieces = []
        for _ in range(r.randint(1, 3)):
            pieces.append(r.choice(["a", "b c", " ", "\n", "\n", "\n\n", "\r\n", "  \n", "x.", "100%"]
                                   + (WS_EXOTIC if r.random() < 0.1 else [])))
        return ("text", "".join(pieces))

    def raw(self) -> tuple:
        """A raw block, usually spanning several lines; markup inside is inert."""
        r = self.r
        self.n += 1
        body = "".join(r.choice(["\n", "\n", "a", " ", "\r\n", f"{{{{ 'raw{self.n}' | t }}}}",
                                 "{% translate %}no{% endtranslate %}", "{# Translators: no #}", "\n\n"])
                       for _ in range(r.randint(0, 4)))
        return ("raw", body)

    def comment_text(self, translator: bool, multiline: bool, inline: bool) -> str:
        r = self.r
        self.n += 1
        pad = r.choice([" ", "", "  ", " \n " if multiline and not inline else " "])
        body = f"note {self.n}"
        if translator:
            body = r.choice(["Translators: ", "Translators:"]) + body
        elif r.random() < 0.2:
            body = "translators: " + body      # wrong case: not a tag
        if multiline:
            body += ("\n # more" if inline else "\n more")
        return pad + body + r.choice([" ", "", " "])

    def comment(self, liquid: bool) -> tuple:
        r = self.r
        tr = r.random() < 0.7
        if liquid:
            if r.random() < 0.8:
                self.n += 1
                t = r.choice([" ", ""]) + ("Translators: " if tr else "") + f"note {self.n}" + r.choice(["", " "])
                return ("comment", "line", t)
            return ("comment", "lblock", "some words\n" if r.random() < 0.5 else "")
        kind = r.choice(["hash", "hash", "block", "inline", "hash2"])
        ml = r.random() < 0.25
        return ("comment", kind, self.comment_text(tr, ml, kind == "inline"))

    def mparts(self, allow_empty: bool) -> list[tuple]:
        r = self.r
        if allow_empty and r.random() < 0.06:
            return []
        parts: list[tuple] = []
        n = r.randint(1, 3)
        last_text = False
        for i in range(n):
            if not last_text and r.random() < 0.7:
                t = r.choice(["", " ", "\n  ", " \n"]) + (self.msgid() if i == 0 or r.random() < 0.5 else "and") \
                    + r.choice(["", " ", "\n", " \n  more", "  twice", " 50%", "\x0c", " x", "\xa0"])
                parts.append(("text", t))
                last_text = True
            else:
                parts.append(("var", self.r.choice(["k0", "k1", "you"])))
                last_text = False
        if r.random() < 0.04:
            return [("text", r.choice([" ", "\n", "  \n "]))]
        return parts

    def translate(self) -> tuple:
        r = self.r
        args: list[tuple] = []
        if r.random() < 0.45:
            args.append(("context", self.ctx()))
        if r.random() < 0.6:
            args.append(("count", self.count()))
        if r.random() < 0.3:
            args.append((f"k{r.randint(0, 2)}", r.choice([("str", "W"), ("var", self.slot())])))
        if r.random() < 0.07 and args:
            nm = r.choice(["context", "count"])
            args.append((nm, self.ctx() if nm == "context" else self.count()))
        r.shuffle(args)
        sing = self.mparts(True)
        plural = self.mparts(False) if r.random() < 0.55 else None
        return ("translate", args, sing, plural)

    def cond(self) -> tuple:
        r = self.r
        return r.choice([("var", self.slot()), ("var", self.slot()), ("var", self.slot()),
                         ("bool", True), ("bool", False), ("nil",), ("int", 0), ("str", "")])

    def stop(self) -> tuple:
        r = self.r
        return r.choice([("int", 0), ("int", 1), ("int", 2), ("int", 3), ("var", self.slot()), ("var", self.slot())])

    def nodes(self, depth: int, liquid: bool, n_max: int) -> list[tuple]:
        r = self.r
        out: list[tuple] = []
        for _ in range(r.randint(0 if depth else 1, n_max)):
            x = r.random()
            if liquid:
                if x < 0.45:
                    out.append(("expr", r.choice(["echo", "assign"]), self.texpr()))
                elif x < 0.65:
                    out.append(self.comment(True))
                elif x < 0.8 and depth < 2:
                    out.append(self.if_(depth + 1, True))
                elif x < 0.9 and depth < 2:
                    out.append(("for", self.stop(), self.nodes(depth + 1, True, 2),
                                self.nodes(depth + 1, True, 2) if r.random() < 0.4 else None))
                else:
                    out.append(("expr", "echo", self.texpr()))
                continue
            if x < 0.3:
                out.append(("expr", r.choice(["output", "output", "echo", "assign"]), self.texpr()))
            elif x < 0.45:
                out.append(self.translate())
            elif x < 0.62:
                out.append(self.comment(False))
            elif x < 0.73:
                if not out or out[-1][0] != "text":
                    out.append(self.text())
            elif x < 0.77:
                out.append(self.raw())
            elif x < 0.86 and depth < 2:
                out.append(self.if_(depth + 1, False))
            elif x < 0.93 and depth < 2:
                out.append(("for", self.stop(), self.nodes(depth + 1, False, 3),
                            self.nodes(depth + 1, False, 2) if r.random() < 0.4 else None))
            elif depth < 2:
                out.append(("liquid", self.nodes(depth + 1, True, 4)))
        return out

    def if_(self, depth: int, liquid: bool) -> tuple:
        r = self.r
        alts = [(self.cond(), self.nodes(depth, liquid, 2)) for _ in range(r.choice([0, 0, 1, 2]))]
        default = self.nodes(depth, liquid, 2) if r.random() < 0.5 else None
        return ("if", self.cond(), self.nodes(depth, liquid, 3), alts, default)

    def program(self) -> list[tuple]:
        r = self.r
        ns = self.nodes(0, False, 6 if not self.thorough else 9)
        # layout: separate top-level nodes by line breaks often, so that lines matter
        out: list[tuple] = []
        if r.random() < 0.25:
            out.append(("text", r.choice(["\n", "  \n", "\n\n", " "])))
        for n in ns:
            if out and out[-1][0] != "text" and n[0] != "text" and r.random() < 0.7:
                out.append(("text", r.choice(["\n", "\n", "\n", "\n\n", " ", "\r\n", "x\n", "\r", "\x0c", "\u2028",
                                              "\x0c\x0c", "\x0b", "\r\r", "\x85\x1c"])))
            if n[0] == "text" and out and out[-1][0] == "text":
                continue
            out.append(n)
        return out


DATA_VALUES: list[Any] = [None, True, False, 0, 1, 2, 5, -1, "", "a", "3", " 2 ", "ctx", "x y", "UNDEF", "UNDEF"]


def c_value(v: Any) -> str:
    if v is None:
        return "VNil"
    if v is True or v is False:
        return f"(VBool {C.cbool(v)})"
    if isinstance(v, int):
        return f"(VInt {C.cZ(v)})"
    return f"(VStr {C.cstr(v)})"


def py_int(s: str) -> int | None:
    try:
        return int(s)
    except ValueError:
        return None


# ------------------------------------------------------------ implementation


def adjacency_defect_present() -> bool:
    """DESIGN §10 defect 12 (C17): the token after a comment keeps the
    comment's start offset."""
    from liquid2 import parse
    t = parse("{# a\nb #}{% translate %}x{% endtranslate %}")
    return t.nodes[1].token.start == 0


def fix_adjacency(prog: list[tuple], inside: bool = False) -> list[tuple]:
    """While defect 12 is present, keep a separator between a comment and a
    following tag/comment token (the generator's positions are the true ones)."""
    out: list[tuple] = []
    for n in prog:
        if out and out[-1][0] == "comment" and out[-1][1] in ("hash", "hash2", "inline", "block") \
                and n[0] != "text" and not (n[0] == "expr" and n[1] == "output"):
            out.append(("text", " "))
        if n[0] == "if":
            n = ("if", n[1], _fa(n[2]), [(c, _fa(b)) for c, b in n[3]], _fa(n[4]) if n[4] is not None else None)
        elif n[0] == "for":
            n = ("for", n[1], _fa(n[2]), _fa(n[3]) if n[3] is not None else None)
        out.append(n)
    # a block must not end with a comment directly before its end tag either
    if out and out[-1][0] == "comment" and out[-1][1] != "line" and out[-1][1] != "lblock":
        out.append(("text", " "))
    return out


def _fa(ns: list[tuple]) -> list[tuple]:
    return fix_adjacency(ns, True)


LINE_BOUNDARY = re.compile("\r\n|[\n\r\x0b\x0c\x1c\x1d\x1e\x85\u2028\u2029]")


def line_starts(src: str) -> list[int]:
    """Offsets at which a line starts, counted independently of the code under
    test, in the engine's line convention: a line ends at exactly the
    str.splitlines boundaries (\\n, \\r\\n, \\r, \\v, \\f, \\x1c-\\x1e, \\x85,
    U+2028, U+2029) - the convention of messages.line_number,
    line_number_factory and exceptions._error_context alike."""
    return [0] + [m.end() for m in LINE_BOUNDARY.finditer(src)]


def true_line(starts: list[int], pos: int) -> int:
    return bisect.bisect_right(starts, pos)


EXC_MAP = {"LiquidTypeError": "(LErr LiquidTypeError None)", "TypeError": "(PyExc TypeError)",
           "ValueError": "(PyExc ValueError)", "IndexError": "(PyExc IndexError)",
           "KeyError": "(PyExc KeyError)", "AttributeError": "(PyExc AttributeError)"}


def c_exc(e: BaseException) -> str:
    from liquid2.exceptions import LiquidError
    n = type(e).__name__
    if n in EXC_MAP:
        return EXC_MAP[n]
    return "(LErr OtherLiquidError None)" if isinstance(e, LiquidError) else "(PyExc OtherPyError)"


def msg_tuple(funcname: str, message: Any) -> tuple | None:
    """MessageTuple.message -> (family, ctx, id, plural); None if malformed."""
    try:
        if funcname == "gettext":
            (i,) = message
            return ("gettext", None, i, None)
        if funcname == "ngettext":
            i, p = message
            return ("ngettext", None, i, p)
        if funcname == "pgettext":
            (c, mark), i = message
            assert mark == "c"
            return ("pgettext", c, i, None)
        if funcname == "npgettext":
            (c, mark), i, p = message
            assert mark == "c"
            return ("npgettext", c, i, p)
    except (ValueError, TypeError, AssertionError):
        return None
    return None


def c_mtext(m: tuple) -> str:
    fam, c, i, p = m
    if fam == "gettext":
        return f"(MGettext {C.cstr(i)})"
    if fam == "ngettext":
        return f"(MNgettext {C.cstr(i)} {C.cstr(p)})"
    if fam == "pgettext":
        return f"(MPgettext {C.cstr(c)} {C.cstr(i)})"
    return f"(MNpgettext {C.cstr(c)} {C.cstr(i)} {C.cstr(p)})"


def c_call(call: tuple, lit: bool) -> str:
    fam, c, i, p, n, origin = call
    ci = f"(Some {C.cstr(i)})"
    if fam == "gettext":
        t = f"CGettext {ci}"
    elif fam == "ngettext":
        t = f"CNgettext {ci} {C.cstr(p)} {C.cZ(int(n))}"
    elif fam == "pgettext":
        t = f"CPgettext {C.cstr(c)} {ci}"
    else:
        t = f"CNpgettext {C.cstr(c)} {ci} {C.cstr(p)} {C.cZ(int(n))}"
    return f"{{| tc_call := {t}; tc_pos := {max(origin, 0)}; tc_lit := {C.cbool(lit)} |}}"


import asyncio  # noqa: E402

_LOOP = asyncio.new_event_loop()


class Case:
    """One generated program, run on the implementation."""
    async_twin: tuple | None = None

    def __init__(self, prog: list[tuple], rnd: Any, env: Any, datasets: int) -> None:
        from liquid2.messages import extract_from_template
        self.prog = prog
        pr = Printer(rnd)
        items = [pr.node(n) for n in prog]
        self.src = "".join(pr.buf)
        self.pr = pr
        self.cprog = f"{{| t_source := {C.cstr(self.src)}; t_nodes := {cnodes(items)} |}}"
        self.parse_error: str | None = None
        self.extract_exc: BaseException | None = None
        self.tuples: list[Any] = []
        self.renders: list[dict] = []
        try:
            self.t = env.from_string(self.src)
        except Exception as e:  # noqa: BLE001
            self.parse_error = f"{type(e).__name__}: {e}"
            return
        try:
            self.tuples = list(extract_from_template(self.t))
        except Exception as e:  # noqa: BLE001
            self.extract_exc = e
        slots = sorted(pr.slots)
        for k in range(datasets):
            data = {}
            for s in slots:
                v = rnd.choice(DATA_VALUES)
                if v != "UNDEF":
                    data[s] = v
            rec = Recorder()
            exc = None
            use_async = (k % 2 == 1)          # every second data set through render_async
            kwargs = {f"v{s}": v for s, v in data.items()}
            try:
                if use_async:
                    _LOOP.run_until_complete(self.t.render_async(translations=rec, **kwargs))
                else:
                    self.t.render(translations=rec, **kwargs)
            except Exception as e:  # noqa: BLE001
                exc = e
            self.renders.append({"data": data, "calls": rec.calls, "exc": exc, "async": use_async})
            if k == 0:
                # the same data through the other path: the lookups must be the same
                rec2 = Recorder()
                exc2 = None
                try:
                    _LOOP.run_until_complete(self.t.render_async(translations=rec2, **kwargs))
                except Exception as e:  # noqa: BLE001
                    exc2 = e
                self.async_twin = (rec.calls, type(exc).__name__ if exc else None,
                                   rec2.calls, type(exc2).__name__ if exc2 else None)

    # -- Coq terms
    def lit_of(self, call: tuple) -> bool:
        fam, c, i, p, n, origin = call
        if origin in self.pr.tag_sites:
            return self.pr.tag_sites[origin]
        return self.pr.lit_filter_sites.get((origin, i), False)

    def c_extract(self) -> str:
        if self.extract_exc is not None:
            return c_exc(self.extract_exc)
        items = []
        for lineno, funcname, message, comments in self.tuples:
            m = msg_tuple(funcname, message)
            if m is None:
                return "OutOfFuel"      # malformed tuple: never equal to the model
            items.append(f"{{| mt_line := {lineno}; mt_msg := {c_mtext(m)}; "
                         f"mt_comments := {C.clist(map(C.cstr, comments), 'str')} |}}")
        return f"(Ok {C.clist(items, 'mtuple')})"

    def pyint_table(self) -> str:
        strs = set(self.pr.strings)
        for rd in self.renders:
            strs |= {v for v in rd["data"].values() if isinstance(v, str)}
        ents = []
        for s in sorted(strs):
            z = py_int(s)
            ents.append(C.cpair(C.cstr(s), C.copt(C.cZ(z) if z is not None else None, "Z")))
        return C.clist(ents, "(str * option Z)")

    def c_render(self, rd: dict) -> tuple[str, str]:
        data = C.clist((C.cpair(str(s), c_value(v)) for s, v in sorted(rd["data"].items())), "(N * value)")
        calls = C.clist((c_call(c, self.lit_of(c)) for c in rd["calls"]), "tcall")
        st = "(Ok tt)" if rd["exc"] is None else c_exc(rd["exc"])
        return data, f"({calls}, {st})"

    def case_term(self) -> str:
        parts = [f"extract_eqb (extract p) {self.c_extract()}"]
        for rd in self.renders:
            data, impl = self.c_render(rd)
            parts.append(f"rout_matches (render pyi {data} p) {impl}")
        return (f"(let p := {self.cprog} in let pyi := pyint_of {self.pyint_table()} in "
                + " && ".join(parts) + ")")

    def model_term(self) -> str:
        rds = "; ".join(f"render (pyint_of {self.pyint_table()}) {self.c_render(rd)[0]} p" for rd in self.renders[:2])
        return f"let p := {self.cprog} in (extract p, [{rds}])"

    def replay(self) -> dict:
        return {"source": self.src,
                "extracted": [[t[0], t[1], repr(t[2]), t[3]] for t in self.tuples] if self.extract_exc is None
                else repr(self.extract_exc),
                "auto_escape": bool(getattr(self.t.env, "auto_escape", False)) if self.parse_error is None else None,
                "renders": [{"data": rd["data"], "async": rd.get("async", False), "calls": [list(c) for c in rd["calls"]],
                             "exc": type(rd["exc"]).__name__ if rd["exc"] else None} for rd in self.renders]}


# -------------------------------------------------------------------- oracle


def oracle(case: Case) -> list[tuple[str, str]]:
    """The property evaluated on the implementation's outcomes only.
    Returns (signature, description) for every failure."""
    fails: list[tuple[str, str]] = []
    if case.extract_exc is not None:
        e = case.extract_exc
        return [(f"extract-raises-{type(e).__name__}", f"extract_from_template raised {type(e).__name__}: {e}")]
    starts = line_starts(case.src)
    ext = []
    for lineno, funcname, message, comments in case.tuples:
        ext.append((lineno, msg_tuple(funcname, message), list(comments)))
    ext_set = {(ln, m) for ln, m, _ in ext}
    # 1. every lookup made for a translate tag, or for a translation filter whose
    # operand is a string literal, is extracted: same family / ids / context, right line
    for rd in case.renders:
        for call in rd["calls"]:
            fam, c, i, p, n, origin = call
            if origin in case.pr.tag_sites:
                site_lit, is_tag = case.pr.tag_sites[origin], True
            elif (origin, i) in case.pr.lit_filter_sites:
                site_lit, is_tag = True, False
            elif (origin, i) in case.pr.nonlit_filter_sites:
                site_lit, is_tag = False, False
            elif (origin, i) in case.pr.tail_sites:
                # known finding: a tail filter (`|| t`) over bare string-literal branches
                if (true_line(starts, origin), (fam, c, i, p)) not in ext_set:
                    fails.append(("tail-filter-literal-branch",
                                  f"run-time lookup {fam}(id={i!r}) made by a tail filter whose branches are string "
                                  "literals is not extracted (tail filters are never inspected)"))
                continue
            else:
                continue
            want = (true_line(starts, origin), (fam, c, i, p))
            if want not in ext_set:
                same_ids = [(ln, m) for ln, m in ext_set if m and m[2] == i]
                here = [m for ln, m in same_ids if ln == want[0]]
                if any(m == want[1] for _, m in same_ids):
                    sig, what = "lookup-extracted-with-wrong-line", "is extracted with another line number"
                elif not site_lit and is_tag and any(m[3] == p for m in here):
                    sig, what = ("translate-nonliteral-context",
                                 "is extracted without / with another context: the tag's context is not a string literal")
                elif not site_lit and not is_tag:
                    sig, what = ("filter-nonliteral-operand",
                                 "is extracted with another family / operands or not at all: the filter's context or "
                                 "plural operand is not a string literal")
                elif same_ids:
                    sig, what = "lookup-extracted-with-other-family-or-operands", "is extracted with another family / context / plural"
                else:
                    sig, what = "lookup-not-extracted", "is not extracted at all"
                fails.append((sig, f"run-time lookup {fam}(ctx={c!r}, id={i!r}, plural={p!r}) made at line {want[0]} "
                                   f"{what}: extracted={sorted(same_ids, key=str)[:3]}"))
    if case.async_twin is not None:
        sc, se, ac, ae = case.async_twin
        if sc != ac or se != ae:
            diff = next(((a, b) for a, b in zip(sc, ac) if a != b), (len(sc), len(ac)))
            fails.append(("async-lookups-differ-from-sync",
                          f"render and render_async with the same data ask the catalog for different things: first difference {diff}; outcomes {se}/{ae}"))
    # 2. translator comments: at most one message per comment, the first one extracted after it
    comment_pos = {}
    for pos, text in case.pr.comments:
        comment_pos.setdefault(text, []).append(pos)
    site_pos: dict[tuple, list[int]] = {}
    for pos, m in case.pr.static_sites:
        site_pos.setdefault(m, []).append(pos)
    used: dict[str, int] = {}
    prev_pos: int | None = None
    for ln, m, comments in ext:
        here = site_pos.get(m, []) if m else []
        pos_here = here[0] if len(here) == 1 else None
        if len(comments) > 1:
            fails.append(("several-comments-on-one-message", f"message {m} carries {comments}"))
        for ctext in comments:
            used[ctext] = used.get(ctext, 0) + 1
            if ctext not in comment_pos:
                fails.append(("comment-not-a-translator-comment", f"message {m} carries {ctext!r}, which is no translator comment of the template"))
                continue
            if len(comment_pos[ctext]) == 1:
                cp = comment_pos[ctext][0]
                cl = true_line(starts, cp)
                if cl < ln - 1:
                    fails.append(("comment-too-far", f"comment on line {cl} attached to message on line {ln}"))
                if prev_pos is not None and pos_here is not None and not (prev_pos < cp):
                    fails.append(("comment-attached-past-a-message",
                                  f"comment {ctext!r} (offset {cp}) attached to {m} although the message at offset {prev_pos} follows the comment"))
        prev_pos = pos_here
    for ctext, k in used.items():
        if k > len(comment_pos.get(ctext, [])) >= 1:
            fails.append(("comment-attached-to-several-messages", f"{ctext!r} attached to {k} messages"))
    # 3. locations against an independent count: the line of every extracted
    # message is the line (line breaks before it in the source text) of the
    # offset at which the PRINTER wrote its tag / expression - never an offset
    # taken from the implementation's tokens - and the comments it carries are
    # those the source layout calls for (the last translator comment since the
    # previous message, at most one line above).
    for ln, m, _ in ext:
        if m in site_pos and ln not in {true_line(starts, p) for p in site_pos[m]}:
            fails.append(("extracted-line-differs-from-source-line",
                          f"{m} is extracted with line {ln}; in the source its tag / expression is on line "
                          f"{sorted({true_line(starts, p) for p in site_pos[m]})}"))
    events = sorted([(pos, 0, ("c", text)) for pos, text in case.pr.comments]
                    + [(pos, 1 + k, ("m", m)) for k, (pos, m) in enumerate(case.pr.static_sites)],
                    key=lambda e: (e[0], e[1]))
    expected: list[tuple[int, tuple, list[str]]] = []
    pending: tuple[int, str] | None = None
    for pos, _, (kind, val) in events:
        if kind == "c":
            pending = (true_line(starts, pos), val)
        else:
            l = true_line(starts, pos)
            expected.append((l, val, [pending[1]] if pending is not None and pending[0] >= l - 1 else []))
            pending = None
    case.layout_checked = [m for _, m, _ in expected] == [m for _, m, _ in ext]
    if case.layout_checked:
        for (el, em, ec), (ln, m, comments) in zip(expected, ext):
            if el != ln:
                fails.append(("extracted-line-differs-from-source-line",
                              f"{m} is extracted with line {ln}; its tag / expression is on line {el} of the source"))
            if ec != comments:
                fails.append(("comment-attachment-differs-from-source-layout",
                              f"{m} (line {ln}) carries {comments}; the source layout calls for {ec}"))
    return fails


def glue_oracle(case: Case, env: Any) -> list[tuple[str, str]]:
    """extract_from_templates and extract_liquid agree with extract_from_template."""
    from liquid2 import extract_liquid
    from liquid2.messages import DEFAULT_KEYWORDS, extract_from_templates
    fails: list[tuple[str, str]] = []
    if case.extract_exc is not None:
        return fails
    try:
        cat = extract_from_templates(case.t)
    except Exception as e:  # noqa: BLE001
        return [(f"extract_from_templates-raises-{type(e).__name__}", f"{type(e).__name__}: {e}")]
    for lineno, funcname, message, comments in case.tuples:
        m = msg_tuple(funcname, message)
        if m is None or not m[2]:
            continue
        fam, c, i, p = m
        ent = cat.get(i if p is None else (i, p), context=c)
        if ent is None:
            fails.append(("catalog-misses-message", f"{m} (line {lineno}) is not in the catalog of extract_from_templates"))
            continue
        if lineno not in [ln for _, ln in ent.locations]:
            fails.append(("catalog-wrong-line", f"{m}: catalog locations {ent.locations}, extracted line {lineno}"))
        for ctext in comments:
            if ctext not in ent.auto_comments:
                fails.append(("catalog-misses-comment", f"{m}: comment {ctext!r} not in {ent.auto_comments}"))
    # a keywords mapping without the canonical *gettext names (filters / tag only)
    custom = {"t": None, "translate": None}
    try:
        from liquid2.messages import extract_from_template as _eft
        cat2 = extract_from_templates(case.t, keywords=custom)
        for lineno, funcname, message, comments in _eft(case.t, keywords=custom):
            m = msg_tuple(funcname, message)
            if m is None or not m[2]:
                continue
            fam, c, i, p = m
            if cat2.get(i if p is None else (i, p), context=c) is None:
                fails.append(("catalog-misses-message:custom-keywords", f"{m} (line {lineno}) is not in the catalog built with keywords={custom}"))
    except Exception as e:  # noqa: BLE001
        fails.append((f"extract_from_templates-raises-{type(e).__name__}:custom-keywords",
                      f"extract_from_templates(t, keywords={custom}) raised {type(e).__name__}: {e}"))
    try:
        via = [tuple(x) for x in extract_liquid(io.BytesIO(case.src.encode("utf-8")), list(DEFAULT_KEYWORDS), ["Translators:"], {})]
        direct = [tuple(x) for x in case.tuples]
        if env.auto_escape is False and via != direct:
            fails.append(("extract_liquid-differs", f"extract_liquid gives {via[:3]}, extract_from_template {direct[:3]}"))
    except Exception as e:  # noqa: BLE001
        fails.append((f"extract_liquid-raises-{type(e).__name__}", f"{type(e).__name__}: {e}"))
    return fails


# ----------------------------------------------- programs outside the model


def extra_oracle_cases() -> list[tuple[str, dict, list[tuple]]]:
    """Programs outside the model's syntax (other block tags, template strings,
    partials): (source, data, [(family, ctx, id, plural)] expected lookups at
    literal sites). Oracle only: every expected lookup that happens must be
    extracted with the right line."""
    return [
        ("{% unless v0 %}\n{{ 'u1' | t }}{% else %}\n{{ 'u2' | t: 'c' }}{% endunless %}", {"v0": False}, ["u1"]),
        ("{% unless v0 %}\n{{ 'u1' | t }}{% else %}\n{{ 'u2' | t: 'c' }}{% endunless %}", {"v0": True}, ["u2"]),
        ("{% case v0 %}{% when 1 %}\n{% translate %}c1{% endtranslate %}{% when 2, 3 %}\n{{ 'c2' | gettext }}"
         "{% else %}\n\n{{ 'c3' | ngettext: 'c3s', v0 }}{% endcase %}", {"v0": 1}, ["c1"]),
        ("{% case v0 %}{% when 1 %}\n{% translate %}c1{% endtranslate %}{% when 2, 3 %}\n{{ 'c2' | gettext }}"
         "{% else %}\n\n{{ 'c3' | ngettext: 'c3s', v0 }}{% endcase %}", {"v0": 3}, ["c2"]),
        ("{% case v0 %}{% when 1 %}\n{% translate %}c1{% endtranslate %}{% when 2, 3 %}\n{{ 'c2' | gettext }}"
         "{% else %}\n\n{{ 'c3' | ngettext: 'c3s', v0 }}{% endcase %}", {"v0": 9}, ["c3"]),
        ("{% capture x %}\n{{ 'p1' | t }}\n{% translate count: 2 %}p2{% plural %}p2s{% endtranslate %}{% endcapture %}{{ x }}", {}, ["p1", "p2"]),
        ("{% with a: 'z' %}\n\n{{ 'w1' | pgettext: 'ctx' }}{% endwith %}", {}, ["w1"]),
        ("{% macro f, a %}\n{{ 'k1' | t }}{% endmacro %}\n{% call f, 1 %}", {}, ["k1"]),
        ("{% assign y = \"a${ 'ts1' | t }b\" %}\n{{ \"${ 'ts2' | t: 'c' }\" }}", {}, ["ts1", "ts2"]),
        ("{% if \"${ 'ts3' | t }\" %}1{% endif %}", {}, ["ts3"]),
        ("{% for i in (1..2) %}{% if i == 2 %}\n{{ 'l2' | t }}{% endif %}{% endfor %}", {}, ["l2"]),
        ("{% raw %}{{ 'r1' | t }}{% endraw %}\n{{ 'r2' | t }}", {}, ["r2"]),
        ("{% for i in (1..3) %}{% if i == 2 %}{% break %}{% endif %}\n{{ 'b1' | t }}{% endfor %}", {}, ["b1"]),
        ("{% cycle 'a', 'b' %}{% increment n %}\n{{ 'y1' | t }}", {}, ["y1"]),
        # operands passed by keyword through the mangled parameter names
        ("\n{{ 'mg1' | ngettext: _NGetText__plural: 'Many', _NGetText__count: 2 }}", {}, ["mg1"]),
        ("{{ 'mg2' | t: _Translate__message_context: 'menu' }}", {}, ["mg2"]),
        ("{{ 'mg3' | pgettext: _PGetText__message_context: 'menu' }}", {}, ["mg3"]),
        ("{{ 'mg4' | npgettext: _NPGetText__message_context: 'c', _NPGetText__plural: 'p', _NPGetText__count: 1 }}", {}, ["mg4"]),
    ]


def check_comment_order(chk: C.Check, env: Any) -> None:
    """A translator comment in front of a translate tag belongs to the tag's own
    message, also when the tag's arguments contain a message (template string)."""
    from liquid2.messages import extract_from_template
    src = ("{# Translators: greeting #}\n"
           "{% translate you: \"${ 'friend' | t }\" %}Hello, {{ you }}!{% endtranslate %}")
    try:
        ext = {msg_tuple(fn, m): list(cs) for _, fn, m, cs in extract_from_template(env.from_string(src))}
    except Exception as e:  # noqa: BLE001
        chk.finding(f"extract-raises-{type(e).__name__}", f"extract_from_template raised on {src!r}", {"source": src})
        return
    tag = ext.get(("gettext", None, "Hello, %(you)s!", None))
    arg = ext.get(("gettext", None, "friend", None))
    if tag != ["Translators: greeting"] or arg != []:
        chk.finding("comment-attached-to-argument-message",
                    f"{src!r}: the comment immediately precedes the translate tag, but the tag's message carries "
                    f"{tag} and the message inside its argument carries {arg}",
                    {"source": src, "extracted": {str(k): v for k, v in ext.items()}})


def run_extra(chk: C.Check, env: Any) -> int:
    from liquid2.messages import extract_from_template
    check_comment_order(chk, env)
    n = 0
    for src, data, expected in extra_oracle_cases():
        n += 1
        try:
            t = env.from_string(src)
        except Exception as e:  # noqa: BLE001
            chk.notes.append(f"extra case does not parse: {src!r}: {type(e).__name__}")
            continue
        try:
            ext = [(ln, msg_tuple(fn, m)) for ln, fn, m, _ in extract_from_template(t)]
        except Exception as e:  # noqa: BLE001
            chk.finding(f"extract-raises-{type(e).__name__}", f"extract_from_template raised on {src!r}",
                        {"source": src})
            continue
        rec = Recorder()
        try:
            t.render(translations=rec, **data)
        except Exception as e:  # noqa: BLE001
            chk.notes.append(f"extra case render raised {type(e).__name__}: {src!r}")
        starts = line_starts(src)
        seen = set()
        for fam, c, i, p, k, origin in rec.calls:
            if i not in expected:
                continue
            seen.add(i)
            # the originating expression is the one whose source text holds the literal
            pos = src.index(i)
            want = (true_line(starts, pos), (fam, c, i, p))
            if want not in ext:
                chk.finding("lookup-not-extracted:outside-model",
                            f"{src!r}: run-time lookup {want} is not among the extracted messages {ext}",
                            {"source": src, "data": data, "extracted": ext, "calls": rec.calls})
        for i in expected:
            if i not in seen:
                chk.notes.append(f"extra case: expected lookup {i!r} did not happen in {src!r}")
    return n


# ---------------------------------------------------------------------- main

CORPUS: list[list[tuple]] = [
    [],                                                            # the empty template (defect 17)
    [("text", "\n  \n")],
    [("comment", "hash", " Translators: only a comment ")],
    [("text", "\n"), ("comment", "hash", " Translators: c1 "), ("text", "\n"),
     ("expr", "output", ("filtered", ("str", "m1"), [("t", [])])), ("text", "\n"),
     ("expr", "output", ("filtered", ("str", "m2"), [("t", [])]))],
    # defect 28 and its relatives: family must not depend on the value of count
    [("translate", [("count", ("int", 0))], [("text", "a0")], [("text", "b0")])],
    [("translate", [("count", ("var", 0))], [("text", "a1")], [("text", "b1")])],
    [("expr", "output", ("filtered", ("str", "a2"), [("t", [("kw", "plural", ("str", "b2")), ("kw", "count", ("int", 0))])]))],
    [("expr", "output", ("filtered", ("str", "a3"), [("t", [("kw", "plural", ("str", "b3")), ("kw", "count", ("int", 1))])]))],
    [("expr", "output", ("filtered", ("str", "a4"), [("t", [("kw", "plural", ("str", "b4"))])]))],
    [("expr", "output", ("filtered", ("str", "a5"), [("t", [("kw", "plural", ("str", "b5")), ("kw", "count", ("var", 1))])]))],
    # empty literal context on the tag; keyword before positional on the filters
    [("translate", [("context", ("str", ""))], [("text", "a6")], None)],
    [("translate", [("context", ("str", ""))], [("text", "a7")], [("text", "b7")])],
    [("expr", "output", ("filtered", ("str", "a8"), [("ngettext", [("kw", "k0", ("str", "W")), ("pos", ("str", "b8")), ("pos", ("int", 2))])]))],
    [("expr", "output", ("filtered", ("str", "a9"), [("pgettext", [("kw", "k0", ("int", 1)), ("pos", ("str", "ctx"))])]))],
    [("expr", "output", ("filtered", ("str", "a10"), [("t", [("kw", "plural", ("str", "b10")), ("pos", ("str", "ctx")), ("kw", "count", ("int", 2))])]))],
    [("expr", "output", ("filtered", ("str", "a11"), [("npgettext", [("kw", "k1", ("int", 1)), ("pos", ("str", "ctx")), ("kw", "k2", ("int", 2)), ("pos", ("str", "b11")), ("pos", ("int", 3))])]))],
    # not the first filter / ternaries / tail filters
    [("expr", "output", ("filtered", ("str", "a12"), [("other0", []), ("t", [])]))],
    [("expr", "output", ("filtered", ("str", "a13"), [("t", []), ("other0", [])]))],
    [("expr", "output", ("filtered", ("var", 0), [("other3", []), ("t", [])]))],
    [("expr", "output", ("ternary", ("str", "a14"), [("t", [])], ("var", 0), ("str", "b14"), [("t", [("pos", ("str", "c"))])], []))],
    [("expr", "output", ("ternary", ("str", "a15"), [], ("var", 0), ("str", "b15"), [("gettext", [])], [("t", [])]))],
    [("expr", "assign", ("ternary", ("str", "a16"), [("t", [])], ("var", 0), None, [], []))],
    # control flow bodies, liquid tag, comment kinds and distances
    [("if", ("var", 0), [("expr", "output", ("filtered", ("str", "i1"), [("t", [])]))],
      [(("var", 1), [("text", "\n"), ("expr", "output", ("filtered", ("str", "i2"), [("t", [])]))])],
      [("text", "\n\n"), ("translate", [], [("text", "i3")], None)])],
    [("for", ("var", 0), [("text", "\n"), ("expr", "echo", ("filtered", ("str", "f1"), [("gettext", [])]))],
      [("text", "\n\n"), ("expr", "echo", ("filtered", ("str", "f2"), [("gettext", [])]))])],
    [("text", "\n"), ("liquid", [("comment", "line", " Translators: l1"),
                                  ("expr", "echo", ("filtered", ("str", "q1"), [("t", [])])),
                                  ("comment", "lblock", "some words\n"),
                                  ("expr", "assign", ("filtered", ("str", "q2"), [("t", [("pos", ("str", "ctx"))])])),
                                  ("if", ("var", 0), [("expr", "echo", ("filtered", ("str", "q3"), [("t", [])]))], [],
                                   [("expr", "echo", ("filtered", ("str", "q4"), [("t", [])]))])])],
    [("comment", "inline", " Translators: in1\n # more "), ("text", "\n"),
     ("translate", [("context", ("str", "menu"))], [("text", " Hello,\n  "), ("var", "you"), ("text", "! 100% ")], [("text", "Hellos")])],
    [("comment", "block", "Translators: far"), ("text", "\n\n"), ("expr", "output", ("filtered", ("str", "z1"), [("t", [])]))],
    [("comment", "hash", " Translators: old "), ("text", "\n"), ("comment", "hash", " plain "), ("text", "\n"),
     ("expr", "output", ("filtered", ("str", "z2"), [("t", [])]))],
    [("comment", "hash", " Translators: first "), ("text", "\n"), ("comment", "hash2", " Translators: second "), ("text", "\n"),
     ("expr", "output", ("filtered", ("str", "z3"), [("t", [])])), ("expr", "output", ("filtered", ("str", "z4"), [("t", [])]))],
    [("translate", [], [], None)],
    [("translate", [], [], [("text", "b")])],
    [("translate", [], [("text", "  ")], None)],
    [("translate", [("context", ("str", "c"))], [], [("text", "es1")])],
    [("translate", [], [("text", " \n ")], [("text", "es2")])],
    # known findings: a context / plural operand that is not a string literal
    [("translate", [("context", ("int", 5))], [("text", "nl1")], None)],
    [("translate", [("context", ("bool", True))], [("text", "nl2")], [("text", "nl2s")])],
    [("expr", "output", ("filtered", ("str", "nl3"), [("t", [("kw", "plural", ("nil",))])]))],
    [("expr", "output", ("filtered", ("str", "nl4"), [("t", [("kw", "plural", ("int", 7)), ("kw", "count", ("int", 2))])]))],
    [("expr", "output", ("filtered", ("str", "nl5"), [("t", [("pos", ("int", 5))])]))],
    [("expr", "output", ("filtered", ("str", "nl6"), [("pgettext", [("pos", ("bool", True))])]))],
    [("expr", "output", ("filtered", ("str", "nl7"), [("ngettext", [("pos", ("int", 3)), ("pos", ("int", 2))])]))],
    # known finding: a tail filter over bare string-literal branches is looked up, never extracted
    [("expr", "output", ("ternary", ("str", "tf1"), [], ("bool", True), ("str", "tf2"), [], [("t", [])]))],
    [("expr", "output", ("ternary", ("str", "tf3"), [], ("bool", False), ("str", "tf4"), [], [("gettext", [])]))],
    # the same keyword twice (the last one wins on both sides); boolean counts
    [("expr", "output", ("filtered", ("str", "dk1"), [("t", [("kw", "plural", ("str", "dk1a")), ("kw", "plural", ("str", "dk1b")), ("kw", "count", ("int", 2))])]))],
    [("expr", "output", ("filtered", ("str", "dk2"), [("t", [("kw", "plural", ("var", 0)), ("kw", "plural", ("str", "dk2b")), ("kw", "count", ("int", 2)), ("kw", "count", ("int", 0))])]))],
    [("translate", [("count", ("int", 1)), ("count", ("int", 2))], [("text", "dk3")], [("text", "dk3s")])],
    [("translate", [("context", ("str", "a")), ("context", ("str", "b"))], [("text", "dk4")], None)],
    [("translate", [("context", ("var", 0)), ("context", ("str", "b"))], [("text", "dk5")], None)],
    [("expr", "output", ("filtered", ("str", "bc1"), [("t", [("kw", "plural", ("str", "bc1s")), ("kw", "count", ("bool", True))])]))],
    [("expr", "output", ("filtered", ("str", "bc2"), [("t", [("kw", "plural", ("str", "bc2s")), ("kw", "count", ("bool", False))])]))],
    [("translate", [("count", ("bool", True))], [("text", "bc3")], [("text", "bc3s")])],
    [("translate", [("count", ("bool", False))], [("text", "bc4")], [("text", "bc4s")])],
    [("expr", "output", ("filtered", ("str", "bc5"), [("ngettext", [("pos", ("str", "bc5s")), ("pos", ("bool", True))])]))],
    [("expr", "output", ("filtered", ("str", "bc6"), [("npgettext", [("pos", ("str", "c")), ("pos", ("str", "bc6s")), ("pos", ("bool", False))])]))],
]


def _sep_corpus() -> list[list[tuple]]:
    """Every str.splitlines boundary other than \\n (form feed, vertical tab,
    separators, NEL, U+2028/9, \\r, \\r\\n) between comments and messages: in the
    engine's convention each of them ends a line, for tags (line_number) and
    for expressions (line_number_factory) alike."""
    def t_out(i: str) -> tuple:
        return ("expr", "output", ("filtered", ("str", i), [("t", [])]))

    out: list[list[tuple]] = []
    k = 0
    for sep in ["\x0c", "\x0c\x0c", "\x0b", "\u2028", "\u2028\u2029", "\x1c\x1d\x1e", "\x85", "\r", "\r\r", "\r\n",
                "\r\n\r\n", "\n\x0c", "\x0c\n\x0c", "\n\r"]:
        k += 1
        i = f"sp{k}"
        out.append([("comment", "hash", f" Translators: {i} "), ("text", sep), t_out(i)])
        out.append([("comment", "inline", f" Translators: {i} "), ("text", sep), ("translate", [], [("text", i)], None)])
        out.append([t_out(i + "a"), ("text", sep), ("translate", [], [("text", i + "b")], [("text", i + "c")]),
                    ("text", sep), ("comment", "block", f"Translators: {i}"), ("text", sep),
                    ("expr", "echo", ("filtered", ("str", i + "d"), [("gettext", [])]))])
        out.append([("text", "x" + sep + "y" + sep), ("liquid", [("comment", "line", f" Translators: {i}"),
                                                                 ("expr", "echo", ("filtered", ("str", i), [("t", [])]))])])
    return out


def adjacency_corpus() -> list[list[tuple]]:
    """Every kind of multi-line markup DIRECTLY followed (no text in between) by
    every kind of message / translator-comment site: the follower's line is
    its own, not the first line of what precedes it."""
    def t_out(i: str, *lay: str) -> tuple:
        return ("expr", "output", ("filtered", ("str", i), [("t", [])])) + tuple(lay)

    multi: list[tuple[str, list[tuple]]] = [
        ("raw", [("raw", "a\n{{ 'inert' | t }}\n\nb")]),
        ("rawnl", [("raw", "\n")]),
        ("cblock", [("comment", "block", "note\nmore\n")]),
        ("chash", [("comment", "hash", " note\n more ")]),
        ("chash2", [("comment", "hash2", " note\n\n more ")]),
        ("cinline", [("comment", "inline", " note\n # more ")]),
        ("ctrans", [("comment", "hash", " Translators: early\n more ")]),
        ("liquid", [("liquid", [("expr", "assign", ("plain", ("int", 1))), ("comment", "line", " x"),
                                ("expr", "assign", ("plain", ("int", 2)))])]),
        ("output", [("expr", "output", ("plain", ("var", 0)), "ml")]),
        ("outmsg", [t_out("PREV", "ml")]),
        ("text", [("text", "a\nb\n\n")]),
        ("translate", [("translate", [], [("text", "one\n two\n")], [("text", "many\n\n")])]),
        ("if", [("if", ("var", 0), [("text", "\n\n")], [], [("text", "\n")])]),
        ("for", [("for", ("int", 2), [("text", "\n")], None)]),
    ]
    out: list[list[tuple]] = []
    k = 0
    for mname, m in multi:
        for pre in ([], [("text", "x\n\n")]):
            k += 1
            i = f"adj{k}"
            followers: list[list[tuple]] = [
                [("translate", [], [("text", i)], None)],
                [("translate", [("context", ("str", "c"))], [("text", i)], [("text", i + "s")])],
                [t_out(i)],
                [t_out(i, "ml")],
                [("expr", "echo", ("filtered", ("str", i), [("gettext", [])]))],
                [("expr", "assign", ("filtered", ("str", i), [("pgettext", [("pos", ("str", "c"))])]))],
                [("comment", "hash", f" Translators: {i} "), t_out(i)],
                [("comment", "block", f"Translators: {i}"), ("text", "\n"), ("translate", [], [("text", i)], None)],
                [("comment", "inline", f" Translators: {i} "), ("text", "\n"), t_out(i)],
                [("comment", "hash2", f" Translators: {i}\n more "), ("translate", [], [("text", i)], None)],
                [("liquid", [("comment", "line", f" Translators: {i}"),
                             ("expr", "echo", ("filtered", ("str", i), [("t", [])]))])],
            ]
            for f in followers:
                out.append(list(pre) + list(m) + f)
    return out


def main(chk: C.Check, build: C.Build) -> None:
    warnings.simplefilter("ignore")
    from liquid2 import Environment

    proofs_ok = C.proof_stage(chk, build, NEEDED)
    thorough = chk.tier == "thorough"
    rnd = C.rng("c15")
    env = Environment()
    env_esc = Environment(auto_escape=True)
    adj = adjacency_defect_present()

    # known finding (DESIGN §10 defect 12, fixed by proposed_fixes/C17): re-observe the witness
    if adj:
        from liquid2.messages import extract_from_template
        src = "{# Translators: x\n y #}{% translate %}a{% endtranslate %}"
        got = [m.lineno for m in extract_from_template(env.from_string(src))]
        if got != [2]:
            chk.finding("tag-after-multiline-comment-wrong-line",
                        f"{src!r}: the translate tag is on line 2, extraction reports line {got} "
                        "(the lexer gives the token after a comment the comment's start offset)",
                        {"source": src, "extracted_lines": got})

    n_prog = 700 if not thorough else 6000
    gen = Gen(rnd, thorough)
    progs: list[list[tuple]] = [list(p) for p in CORPUS] + _sep_corpus() + adjacency_corpus()
    for _ in range(n_prog):
        progs.append(gen.program())

    cases: list[Case] = []
    feats: dict[str, int] = {}
    dist = {"programs": 0, "renders": 0, "calls": 0, "literal_site_calls": 0, "extracted": 0,
            "with_comments": 0, "render_errors": 0, "parse_errors": 0, "multi_line": 0,
            "layout_oracle_programs": 0, "layout_oracle_tuples": 0}
    nontrivial = 0
    for i, prog in enumerate(progs):
        if adj:
            prog = fix_adjacency(prog)
        e = env_esc if (i % 3 == 1) else env      # a third of the programs under auto-escape
        case = Case(prog, rnd, e, 3 if not thorough else 4)
        if case.parse_error is not None:
            dist["parse_errors"] += 1
            chk.notes.append(f"generated program does not parse ({case.parse_error[:80]}): {case.src[:120]!r}")
            continue
        cases.append(case)
        dist["programs"] += 1
        dist["extracted"] += len(case.tuples)
        dist["with_comments"] += sum(1 for t in case.tuples if t[3])
        dist["multi_line"] += 1 if "\n" in case.src else 0
        lit_calls = 0
        for rd in case.renders:
            dist["renders"] += 1
            dist["calls"] += len(rd["calls"])
            lit_calls += sum(1 for c in rd["calls"] if case.lit_of(c))
            dist["render_errors"] += 1 if rd["exc"] is not None else 0
        dist["literal_site_calls"] += lit_calls
        if lit_calls and case.tuples:
            nontrivial += 1
        for f in case.pr.features:
            feats[f] = feats.get(f, 0) + 1
        for sig, what in oracle(case) + (glue_oracle(case, e) if i % 3 == 0 else []):
            chk.finding(sig, what, case.replay())
        if getattr(case, "layout_checked", False):
            dist["layout_oracle_programs"] += 1
            dist["layout_oracle_tuples"] += len(case.tuples)
    if dist["parse_errors"] > max(3, len(progs) // 50):
        chk.finding("generator:parse-errors", f"{dist['parse_errors']} generated programs do not parse",
                    {"broken": "harness generator"}, no_input=True)

    n_extra = run_extra(chk, env)

    # the whitespace table of the model against CPython
    ws = [c for c in range(0x110000) if chr(c).isspace()]
    # str.splitlines boundaries of the running CPython, over every code point
    lb = [c for c in range(0x110000) if c != 0x0D and len(("a" + chr(c) + "b").splitlines()) == 2] 
    lb = sorted(set(lb) | ({0x0D} if len("a\rb".splitlines()) == 2 else set()))
    cand = sorted(set(ws) | set(lb) | {0, 8, 14, 27, 31, 65, 127, 132, 134, 0x2027, 0x202A, 0xFFFF, 0x10FFFF})
    items = [{"case": f"list_eqb N.eqb ws_chars {C.clist(map(str, ws))} && "
                      f"list_eqb N.eqb (filter is_linebreak {C.clist(map(str, cand))}) {C.clist(map(str, lb))} && "
                      f"str_eqb (dec ({-120})%Z) {C.cstr('-120')} && str_eqb (dec 0%Z) {C.cstr('0')} && str_eqb (dec 907%Z) {C.cstr('907')}",
              "model": "(ws_chars, dec 0%Z)", "replay": {"what": "str.isspace / str.splitlines / str(int) tables"}}]
    # line_number / line_number_factory directly: every offset (and two beyond the
    # end) of strings rich in line boundaries of every kind
    from liquid2.messages import line_number as ln_fn, line_number_factory

    class _Tok:
        def __init__(self, source: str, start: int) -> None:
            self.source, self.start = source, start

    n_ln = 0
    for k in range(25 if not thorough else 200):
        src_k = "".join(rnd.choice(["a", "b", " ", "\n", "\n", "\r", "\r\n", "\n\r", "\x0b", "\x0c", "\x1c", "\x1d",
                                    "\x1e", "\x1f", "\x85", "\u2028", "\u2029", "\xa0", "é"])
                        for _ in range(rnd.randint(0, 14)))
        f = line_number_factory(src_k)
        pairs = []
        for pos in range(len(src_k) + 2):
            outs = []
            for fn in (lambda t: f(t), ln_fn):
                try:
                    outs.append(f"(Ok {fn(_Tok(src_k, pos))})")
                except ValueError:
                    outs.append("(PyExc ValueError)")
                except Exception as e:  # noqa: BLE001
                    outs.append(c_exc(e))
            if outs[0] != outs[1]:
                chk.finding("line_number-differs-from-factory", f"{src_k!r} offset {pos}: {outs}", {"source": src_k, "pos": pos})
            pairs.append(f"({pos}, {outs[0]})")
            n_ln += 1
        items.append({"case": f"(let s := {C.cstr(src_k)} in forallb (fun pr => res_eqb_nopos N.eqb (line_number s (fst pr)) (snd pr)) "
                              f"{C.clist(pairs, '(N * res N)')})",
                      "model": f"map (line_number {C.cstr(src_k)}) {C.clist((str(p) for p in range(len(src_k) + 2)), 'N')}",
                      "replay": {"what": "line_number on every offset", "source": src_k}})
    for case in cases:
        items.append({"case": case.case_term(), "model": case.model_term(), "replay": case.replay()})
    C.correspond(chk, "c15", IMPORTS, "", items, what="ExtractI18n.extract+render", shard=50)
    C.proofs_verdict(chk, proofs_ok)

    chk.coverage.update({
        "evaluations": dist["programs"] + dist["renders"] + n_extra,
        "distinct_nontrivial": nontrivial,
        "rule": ("seeded random programs over {text, comments of 4+2 kinds, output/echo/assign with filtered and ternary "
                 "expressions, if/elsif/else, for/else, translate(+plural), liquid tags} with the five translation filters "
                 "(well-formed and ill-formed argument lists, keyword/positional order shuffled), literal and non-literal "
                 "operands, multi-line layouts, plus a fixed corpus (empty template, count 0/1/missing, empty context, comment "
                 "distances); each rendered under 3 (thorough: 4) data sets drawn from "
                 "{nil,true,false,0,1,2,5,-1,'','a','3',' 2 ','ctx','x y',undefined}; every third program under auto_escape=True; every second data set rendered with render_async (plus a sync/async twin of the first). "
                 "non-trivial = the program extracted at least one message and a render looked up at least one literal-site message"),
        "samples": [{"source": c.src, "extracted": [[t[0], t[1], repr(t[2]), t[3]] for t in c.tuples][:4],
                     "calls": [list(x) for x in c.renders[0]["calls"]][:4] if c.renders else []}
                    for c in cases[len(CORPUS)::max(1, len(cases) // 4)][:4]],
        "distribution": dist,
        "features": dict(sorted(feats.items())),
        "extra_oracle_cases_outside_model": n_extra,
        "line_number_offsets_compared": n_ln,
        "adjacency_corpus_programs": len(adjacency_corpus()),
        "lexer_defect_12_present": adj,
        "exhaustive": False,
        "tier_proved": "kernel (extraction visitor + translate tag/filters + tracing render over the abstract syntax)",
    })
    chk.assumptions += [
        "abstract syntax: text, comments, output/echo/assign (filtered or ternary expression over primitives), if/elsif/else, "
        "for over (1..n), translate(+plural), liquid; variables read are caller data (assigned names are never read); "
        "template strings, case/unless/capture/with/macro, partials are outside the model (oracle cases only)",
        "values: nil, booleans, integers, strings, Undefined; int(str) is a parameter of the model instantiated with CPython's answers",
        "the catalog returns text without %-conversion specifiers (the interpolation after a lookup cannot raise)",
        "keyword-argument names of filters are plural/count/k<n>: names colliding with Python parameters (e.g. `context`) are outside the syntax",
        "positions_in_source: every token offset is inside the source (checked on every parsed template: extraction never raised)",
        "known finding tail-filter-literal-branch: a tail filter (`|| t`) is applied to the value of the conditional; the model passes it unknown text (tc_lit false)",
        "known findings translate-nonliteral-context / filter-nonliteral-operand: lookups whose context or plural operand is not a string literal are outside the _partial theorem (guard tc_lit); the oracle reports them under those signatures",
    ]
